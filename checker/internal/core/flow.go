package core

import (
	"go/token"
	"go/types"

	"golang.org/x/tools/go/ssa"
)

// ForwardLoad resolves a load of a struct field to the value most recently
// stored to the same field of the same base earlier in the same basic block
// (block-local store->load forwarding). Returns v itself when nothing is found.
func ForwardLoad(v ssa.Value) ssa.Value {
	ld, ok := v.(*ssa.UnOp)
	if !ok || ld.Op != token.MUL {
		return v
	}
	fa, ok := ld.X.(*ssa.FieldAddr)
	if !ok {
		// spilled local: Alloc with stores
		if al, ok := ld.X.(*ssa.Alloc); ok {
			var last ssa.Value
			for _, in := range ld.Block().Instrs {
				if in == ld {
					break
				}
				if st, ok := in.(*ssa.Store); ok && st.Addr == al {
					last = st.Val
				}
			}
			if last != nil {
				return ForwardLoad(last)
			}
			// single store anywhere
			var only ssa.Value
			n := 0
			for _, r := range *al.Referrers() {
				if st, ok := r.(*ssa.Store); ok && st.Addr == al {
					only = st.Val
					n++
				}
			}
			if n == 1 {
				return only
			}
		}
		return v
	}
	var last ssa.Value
	for _, in := range ld.Block().Instrs {
		if in == ld {
			break
		}
		st, ok := in.(*ssa.Store)
		if !ok {
			continue
		}
		fa2, ok := st.Addr.(*ssa.FieldAddr)
		if !ok || fa2.Field != fa.Field {
			continue
		}
		if !types.Identical(fa2.X.Type(), fa.X.Type()) {
			continue
		}
		if SameValue(fa2.X, fa.X) {
			last = st.Val
		} else {
			// a store to the same field of a possibly aliased base: unknown
			last = nil
		}
	}
	if last != nil {
		return ForwardLoad(last)
	}
	return v
}

// SameValue: a and b denote the same runtime value: identical SSA values after
// unwrapping and store->load forwarding, or loads of the same field of the
// same base (no forwarding candidates in between is the caller's concern).
func SameValue(a, b ssa.Value) bool {
	return sameValueD(a, b, 0)
}

func sameValueD(a, b ssa.Value, d int) bool {
	if d > 6 {
		return false
	}
	a, b = Unwrap(a), Unwrap(b)
	if a == b {
		return true
	}
	if sameCellLoads(a, b) {
		return true
	}
	a, b = Unwrap(ForwardLoad(a)), Unwrap(ForwardLoad(b))
	if a == b {
		return true
	}
	la, ok1 := a.(*ssa.UnOp)
	lb, ok2 := b.(*ssa.UnOp)
	if ok1 && ok2 && la.Op == token.MUL && lb.Op == token.MUL {
		fa, ok1 := la.X.(*ssa.FieldAddr)
		fb, ok2 := lb.X.(*ssa.FieldAddr)
		if ok1 && ok2 && fa.Field == fb.Field && types.Identical(fa.X.Type(), fb.X.Type()) {
			return sameValueD(fa.X, fb.X, d+1)
		}
		// loads of the same spilled parameter cell
		// loads of the same cell (spilled / captured parameter)
		if la.X == lb.X {
			switch la.X.(type) {
			case *ssa.Alloc, *ssa.FreeVar, *ssa.Parameter:
				return true
			}
		}
	}
	return false
}

// ParamOf: v is (a copy of) parameter #i of fn (through spills and conversions). Returns -1 if not.
func ParamOf(fn *ssa.Function, v ssa.Value) int {
	v = Unwrap(ForwardLoad(Unwrap(v)))
	for i, p := range fn.Params {
		if v == ssa.Value(p) {
			return i
		}
	}
	// captured parameter cell: closure free var pointing at parent's alloc
	return -1
}

// StoresToField lists the Store instructions in fn whose address is field f of some base.
func StoresToField(fn *ssa.Function, f *types.Var) []*ssa.Store {
	var out []*ssa.Store
	AllInstrs(fn, func(in ssa.Instruction) {
		if st, ok := in.(*ssa.Store); ok {
			if fv, _ := FieldOf(st.Addr); fv == f {
				out = append(out, st)
			}
		}
	})
	return out
}

// sameCellLoads: both are loads of the same local cell (Alloc / captured cell).
func sameCellLoads(a, b ssa.Value) bool {
	la, ok1 := a.(*ssa.UnOp)
	lb, ok2 := b.(*ssa.UnOp)
	if !ok1 || !ok2 || la.Op != token.MUL || lb.Op != token.MUL || la.X != lb.X {
		return false
	}
	switch la.X.(type) {
	case *ssa.Alloc, *ssa.FreeVar:
		return true
	}
	return false
}
