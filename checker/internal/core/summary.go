package core

import (
	"fmt"
	"sort"
	"strings"

	"golang.org/x/tools/go/ssa"
)

type sumKey struct {
	fn   *ssa.Function
	kind string
}

// Env binds function-typed parameters / free variables to known functions.
type Env map[ssa.Value]*ssa.Function

func (e Env) key() string {
	if len(e) == 0 {
		return ""
	}
	var parts []string
	for k, v := range e {
		parts = append(parts, fmt.Sprintf("%s=%p", k.Name(), v))
	}
	sort.Strings(parts)
	return strings.Join(parts, ",")
}

// FuncValue resolves a value to a known function (closure, function constant,
// bound method closure), looking through env.
func FuncValue(v ssa.Value, env Env) *ssa.Function {
	v = Unwrap(v)
	switch x := v.(type) {
	case *ssa.Function:
		return x
	case *ssa.MakeClosure:
		if f, ok := x.Fn.(*ssa.Function); ok {
			return f
		}
	case *ssa.Parameter, *ssa.FreeVar:
		if env != nil {
			return env[x]
		}
	case *ssa.UnOp:
		// a func field that always holds one method value of its own object (oncefield.go)
		return OnceBoundField(x)
	}
	return nil
}

// Callees resolves the repo functions a call instruction certainly targets
// (static callee, closure value, bound parameter). Interface invokes are not
// resolved here.
func (p *Prog) Callees(in ssa.Instruction, env Env) []*ssa.Function {
	cc := CallCommon(in)
	if cc == nil || cc.IsInvoke() {
		return nil
	}
	if f := cc.StaticCallee(); f != nil {
		return []*ssa.Function{f}
	}
	if f := FuncValue(cc.Value, env); f != nil {
		return []*ssa.Function{f}
	}
	// free variable bound at the (unique) MakeClosure site of the enclosing function
	if fv, ok := cc.Value.(*ssa.FreeVar); ok {
		if f := p.resolveFreeVar(fv, env); f != nil {
			return []*ssa.Function{f}
		}
	}
	return nil
}

func (p *Prog) resolveFreeVar(fv *ssa.FreeVar, env Env) *ssa.Function {
	fn := fv.Parent()
	par := fn.Parent()
	if par == nil {
		return nil
	}
	idx := -1
	for i, x := range fn.FreeVars {
		if x == fv {
			idx = i
		}
	}
	if idx < 0 {
		return nil
	}
	var res *ssa.Function
	n := 0
	AllInstrs(par, func(in ssa.Instruction) {
		mc, ok := in.(*ssa.MakeClosure)
		if !ok || mc.Fn != fn || idx >= len(mc.Bindings) {
			return
		}
		n++
		b := mc.Bindings[idx]
		// closures capture variables by reference: binding is usually an Alloc
		if al, ok := b.(*ssa.Alloc); ok {
			var stored ssa.Value
			cnt := 0
			for _, r := range *al.Referrers() {
				if st, ok := r.(*ssa.Store); ok && st.Addr == al {
					stored = st.Val
					cnt++
				}
			}
			if cnt == 1 {
				res = FuncValue(stored, env)
			}
			return
		}
		res = FuncValue(b, env)
	})
	if n != 1 {
		return nil
	}
	return res
}

// BindArgs builds the environment of callee for a call.
func BindArgs(callee *ssa.Function, in ssa.Instruction, env Env) Env {
	cc := CallCommon(in)
	if cc == nil {
		return nil
	}
	var out Env
	args := cc.Args
	// closures: free vars bound at MakeClosure
	if mc, ok := cc.Value.(*ssa.MakeClosure); ok {
		for i, b := range mc.Bindings {
			if i < len(callee.FreeVars) {
				if f := FuncValue(b, env); f != nil {
					if out == nil {
						out = Env{}
					}
					out[callee.FreeVars[i]] = f
				}
			}
		}
	}
	for i, prm := range callee.Params {
		if i >= len(args) {
			break
		}
		if f := FuncValue(args[i], env); f != nil {
			if out == nil {
				out = Env{}
			}
			out[prm] = f
		}
	}
	return out
}

// Query is a may/must summary query for one event predicate.
type Query struct {
	P *Prog
	// Pred classifies a single instruction as the event.
	Pred func(ssa.Instruction) bool
	// Invoke optionally resolves interface invokes to repo functions.
	Invoke func(ssa.Instruction) []*ssa.Function
	// SkipCall: do not look into these calls (e.g. go statements).
	SkipGo bool
	// Skip: callees not to look into (e.g. recursion back into the function under analysis).
	Skip     func(*ssa.Function) bool
	MaxDepth int
	may      map[string]int
	must     map[string]int
}

func (q *Query) depth() int {
	if q.MaxDepth == 0 {
		return 6
	}
	return q.MaxDepth
}

func (q *Query) callees(in ssa.Instruction, env Env) []*ssa.Function {
	if _, isGo := in.(*ssa.Go); isGo && q.SkipGo {
		return nil
	}
	cs := q.P.Callees(in, env)
	if len(cs) == 0 && q.Invoke != nil {
		cs = q.Invoke(in)
	}
	var out []*ssa.Function
	for _, c := range cs {
		if c != nil && c.Blocks != nil && (q.Skip == nil || !q.Skip(c)) {
			out = append(out, c)
		}
	}
	return out
}

// InstrMay: the instruction itself is the event or is a call that may perform it.
func (q *Query) InstrMay(in ssa.Instruction, env Env) bool {
	return q.instrMay(in, env, 0)
}

func (q *Query) instrMay(in ssa.Instruction, env Env, d int) bool {
	if q.Pred(in) {
		return true
	}
	if CallCommon(in) == nil {
		return false
	}
	for _, c := range q.callees(in, env) {
		if q.mayFn(c, BindArgs(c, in, env), d+1) {
			return true
		}
	}
	return false
}

// May: some instruction reachable in fn (or its resolved callees) is the event.
func (q *Query) May(fn *ssa.Function, env Env) bool { return q.mayFn(fn, env, 0) }

func (q *Query) mayFn(fn *ssa.Function, env Env, d int) bool {
	if fn == nil || fn.Blocks == nil || d > q.depth() {
		return false
	}
	if q.may == nil {
		q.may = map[string]int{}
	}
	k := fmt.Sprintf("%p|%s", fn, env.key())
	if v, ok := q.may[k]; ok {
		return v == 1
	}
	q.may[k] = 0 // recursion guard
	res := false
	for _, b := range fn.Blocks {
		for _, in := range b.Instrs {
			if q.instrMay(in, env, d) {
				res = true
				break
			}
		}
		if res {
			break
		}
	}
	if res {
		q.may[k] = 1
	}
	return res
}

// InstrMust: the instruction is the event, or a call whose callee performs it on
// every normal path.
func (q *Query) InstrMust(in ssa.Instruction, env Env) bool { return q.instrMust(in, env, 0) }

func (q *Query) instrMust(in ssa.Instruction, env Env, d int) bool {
	if q.Pred(in) {
		return true
	}
	if _, isGo := in.(*ssa.Go); isGo {
		return false
	}
	if CallCommon(in) == nil {
		return false
	}
	cs := q.callees(in, env)
	if len(cs) == 0 {
		return false
	}
	for _, c := range cs {
		if !q.mustFn(c, BindArgs(c, in, env), d+1) {
			return false
		}
	}
	return true
}

// Must: every path from fn's entry to a normal return passes the event.
func (q *Query) Must(fn *ssa.Function, env Env) bool { return q.mustFn(fn, env, 0) }

func (q *Query) mustFn(fn *ssa.Function, env Env, d int) bool {
	if fn == nil || fn.Blocks == nil || d > q.depth() {
		return false
	}
	if q.must == nil {
		q.must = map[string]int{}
	}
	k := fmt.Sprintf("%p|%s", fn, env.key())
	if v, ok := q.must[k]; ok {
		return v == 1
	}
	q.must[k] = 0
	tgt, _ := Search(nil, fn.Blocks[0], func(in ssa.Instruction) Action {
		if q.instrMust(in, env, d) {
			return Barrier
		}
		if IsNormalReturn(in) {
			return Target
		}
		return Continue
	}, nil)
	res := tgt == nil
	if res {
		q.must[k] = 1
	}
	return res
}

// MustPassBetween: every path from `from` (exclusive) to an instruction
// satisfying isEnd passes the event. Returns offending end + path when not.
func (q *Query) MustPassBetween(from ssa.Instruction, startBlock *ssa.BasicBlock, env Env, isEnd func(ssa.Instruction) bool, edgeOK func(a, b *ssa.BasicBlock) bool) (ssa.Instruction, []*ssa.BasicBlock) {
	return Search(from, startBlock, func(in ssa.Instruction) Action {
		if q.instrMust(in, env, 0) {
			return Barrier
		}
		if isEnd(in) {
			return Target
		}
		return Continue
	}, edgeOK)
}

// MayReachBetween: some path from `from` reaches an instruction that may perform
// the event, without passing a barrier first.
func (q *Query) MayReachBetween(from ssa.Instruction, startBlock *ssa.BasicBlock, env Env, barrier func(ssa.Instruction) bool, edgeOK func(a, b *ssa.BasicBlock) bool) (ssa.Instruction, []*ssa.BasicBlock) {
	return Search(from, startBlock, func(in ssa.Instruction) Action {
		if barrier != nil && barrier(in) {
			return Barrier
		}
		if q.instrMay(in, env, 0) {
			return Target
		}
		return Continue
	}, edgeOK)
}
