package core

import (
	"fmt"
	"go/ast"
	"go/constant"
	"go/token"
	"go/types"
	"sort"
	"strings"
	"sync"

	"golang.org/x/tools/go/ssa"
)

// ---------- value helpers ----------

// Unwrap strips conversions that keep identity (ChangeType, ChangeInterface, MakeInterface, Convert between same underlying).
func Unwrap(v ssa.Value) ssa.Value {
	for {
		switch x := v.(type) {
		case *ssa.ChangeType:
			v = x.X
		case *ssa.ChangeInterface:
			v = x.X
		case *ssa.MakeInterface:
			v = x.X
		default:
			return v
		}
	}
}

// FieldOf returns the struct field a value denotes: a load of &x.f, the
// address &x.f itself, or a Field extraction x.f. Second result is the base x.
func FieldOf(v ssa.Value) (*types.Var, ssa.Value) {
	v = Unwrap(v)
	switch x := v.(type) {
	case *ssa.UnOp:
		if x.Op == token.MUL {
			if fa, ok := x.X.(*ssa.FieldAddr); ok {
				return fieldVar(fa.X.Type(), fa.Field), structRoot(fa.X)
			}
		}
	case *ssa.FieldAddr:
		return fieldVar(x.X.Type(), x.Field), structRoot(x.X)
	case *ssa.Field:
		return fieldVar(x.X.Type(), x.Field), structRoot(x.X)
	case *ssa.Parameter:
		// an unexported function with a single static call site that is handed a field (or its address):
		// inside it the parameter denotes that field
		deferMu.Lock()
		arg := paramArg[x]
		deferMu.Unlock()
		if arg != nil {
			if _, again := Unwrap(arg).(*ssa.Parameter); !again {
				return FieldOf(arg)
			}
		}
	}
	return nil, nil
}

// structRoot: the object a nested by-value struct is part of (`&l.cfg` -> l, `l.cfg` -> l): a field of a struct
// embedded or held by value belongs to the enclosing object.
func structRoot(base ssa.Value) ssa.Value {
	for d := 0; d < 6; d++ {
		switch b := base.(type) {
		case *ssa.FieldAddr:
			base = b.X
			continue
		case *ssa.Field:
			base = b.X
			continue
		}
		break
	}
	return base
}

// ParamArg: the argument bound to prm when its function has a single static call site (else nil).
func ParamArg(prm *ssa.Parameter) ssa.Value {
	deferMu.Lock()
	defer deferMu.Unlock()
	return paramArg[prm]
}

// paramArg: parameter of a single-call-site unexported function -> the argument at that site
// (filled by indexDeferred).
var paramArg = map[*ssa.Parameter]ssa.Value{}

func fieldVar(t types.Type, idx int) *types.Var {
	if p, ok := t.Underlying().(*types.Pointer); ok {
		t = p.Elem()
	}
	st, ok := t.Underlying().(*types.Struct)
	if !ok || idx >= st.NumFields() {
		return nil
	}
	return st.Field(idx)
}

// ConstInt extracts an integer constant.
func ConstInt(v ssa.Value) (int64, bool) {
	c, ok := Unwrap(v).(*ssa.Const)
	if ok && c.Value != nil && c.Value.Kind() == constant.Bool {
		// a 0/1 flag kept in an atomic.Bool: false/true play the roles of 0/1
		if constant.BoolVal(c.Value) {
			return 1, true
		}
		return 0, true
	}
	if !ok || c.Value == nil || c.Value.Kind() != constant.Int {
		if cv, ok2 := v.(*ssa.Convert); ok2 {
			return ConstInt(cv.X)
		}
		return 0, false
	}
	n, exact := constant.Int64Val(c.Value)
	return n, exact
}

// IsNilConst reports whether v is the nil constant.
func IsNilConst(v ssa.Value) bool {
	c, ok := v.(*ssa.Const)
	return ok && c.IsNil()
}

// ---------- call helpers ----------

// CallCommon returns the CallCommon of a call-like instruction (Call, Go, Defer).
func CallCommon(in ssa.Instruction) *ssa.CallCommon {
	if c, ok := in.(ssa.CallInstruction); ok {
		return c.Common()
	}
	return nil
}

// CalleeObj returns the types.Func called (static or interface method), or nil.
func CalleeObj(in ssa.Instruction) *types.Func {
	cc := CallCommon(in)
	if cc == nil {
		return nil
	}
	if cc.IsInvoke() {
		return cc.Method
	}
	if f := cc.StaticCallee(); f != nil {
		if o, ok := f.Object().(*types.Func); ok {
			return o
		}
		if f.Origin() != nil {
			if o, ok := f.Origin().Object().(*types.Func); ok {
				return o
			}
		}
	}
	return nil
}

// IsPkgFunc: in calls function pkgPath.name (package-level function).
func IsPkgFunc(in ssa.Instruction, pkgPath, name string) bool {
	o := CalleeObj(in)
	if o == nil || o.Pkg() == nil || o.Pkg().Path() != pkgPath || o.Name() != name {
		return false
	}
	sig := o.Type().(*types.Signature)
	return sig.Recv() == nil
}

// IsMethodCall: in calls a method named name whose receiver's named type is pkgPath.typeName
// (pointer or value receiver, static or invoke).
func IsMethodCall(in ssa.Instruction, pkgPath, typeName, name string) bool {
	o := CalleeObj(in)
	if o == nil || o.Name() != name {
		return false
	}
	sig := o.Type().(*types.Signature)
	if sig.Recv() == nil {
		return false
	}
	return NamedIs(sig.Recv().Type(), pkgPath, typeName)
}

// NamedIs reports whether t (or *t) is the named type pkgPath.name.
func NamedIs(t types.Type, pkgPath, name string) bool {
	if p, ok := t.(*types.Pointer); ok {
		t = p.Elem()
	}
	if a, ok := t.(*types.Alias); ok {
		t = types.Unalias(a)
	}
	n, ok := t.(*types.Named)
	if !ok {
		return false
	}
	o := n.Obj()
	if o.Name() != name {
		return false
	}
	if o.Pkg() == nil {
		return pkgPath == ""
	}
	return o.Pkg().Path() == pkgPath
}

// RecvNamed returns the receiver's named type object of a method, or nil.
func RecvNamed(o *types.Func) *types.TypeName {
	if o == nil {
		return nil
	}
	sig := o.Type().(*types.Signature)
	if sig.Recv() == nil {
		return nil
	}
	t := sig.Recv().Type()
	if p, ok := t.(*types.Pointer); ok {
		t = p.Elem()
	}
	if n, ok := types.Unalias(t).(*types.Named); ok {
		return n.Obj()
	}
	return nil
}

// IsBuiltinCall reports a call of builtin name and returns its args.
func IsBuiltinCall(in ssa.Instruction, name string) ([]ssa.Value, bool) {
	cc := CallCommon(in)
	if cc == nil {
		return nil, false
	}
	if b, ok := cc.Value.(*ssa.Builtin); ok && b.Name() == name {
		return cc.Args, true
	}
	return nil, false
}

// AtomicOp describes a sync/atomic operation on a struct field.
type AtomicOp struct {
	Kind  string // load, store, cas, add, swap
	Field *types.Var
	Base  ssa.Value
	Args  []ssa.Value // remaining args (cas: old,new; store: val)
}

// AsAtomic recognises sync/atomic functions and atomic.IntNN methods on a field.
func AsAtomic(in ssa.Instruction) *AtomicOp {
	cc := CallCommon(in)
	if cc == nil || cc.IsInvoke() {
		return nil
	}
	o := CalleeObj(in)
	if o == nil || o.Pkg() == nil || o.Pkg().Path() != "sync/atomic" || len(cc.Args) == 0 {
		return nil
	}
	name := o.Name()
	kind := ""
	switch {
	case hasPrefix(name, "CompareAndSwap"):
		kind = "cas"
	case hasPrefix(name, "Load"):
		kind = "load"
	case hasPrefix(name, "Store"):
		kind = "store"
	case hasPrefix(name, "Add"):
		kind = "add"
	case hasPrefix(name, "Swap"):
		kind = "swap"
	case hasPrefix(name, "And"), hasPrefix(name, "Or"):
		kind = "store"
	default:
		return nil
	}
	f, base := FieldOf(cc.Args[0])
	if f == nil {
		return &AtomicOp{Kind: kind, Args: cc.Args[1:]}
	}
	return &AtomicOp{Kind: kind, Field: f, Base: base, Args: cc.Args[1:]}
}

func hasPrefix(s, p string) bool { return len(s) >= len(p) && s[:len(p)] == p }

// ---------- select ----------

// SelState is one state of a select statement with its successor block.
type SelState struct {
	Index int
	Dir   types.ChanDir
	Chan  ssa.Value
	Send  ssa.Value
	Body  *ssa.BasicBlock // block entered when this state is chosen
	From  *ssa.BasicBlock // block holding the `index == k` test (edge From->Body is the state's edge)
}

// SelectInfo decomposes an ssa.Select.
type SelectInfo struct {
	Sel         *ssa.Select
	States      []*SelState
	Default     *ssa.BasicBlock // non-blocking only
	DefaultFrom *ssa.BasicBlock
}

// AnalyseSelect finds the body block of each state of sel.
func AnalyseSelect(sel *ssa.Select) *SelectInfo {
	si := &SelectInfo{Sel: sel}
	for i, st := range sel.States {
		si.States = append(si.States, &SelState{Index: i, Dir: st.Dir, Chan: st.Chan, Send: st.Send})
	}
	// find index extract
	var idx ssa.Value
	for _, r := range *sel.Referrers() {
		if e, ok := r.(*ssa.Extract); ok && e.Index == 0 {
			idx = e
		}
	}
	if idx == nil {
		return si
	}
	var lastIf *ssa.If
	for _, r := range *idx.Referrers() {
		b, ok := r.(*ssa.BinOp)
		if !ok || b.Op != token.EQL {
			continue
		}
		k, ok := ConstInt(b.Y)
		if !ok {
			continue
		}
		for _, rr := range *b.Referrers() {
			if ifi, ok := rr.(*ssa.If); ok {
				if int(k) < len(si.States) && k >= 0 {
					si.States[k].Body = ifi.Block().Succs[0]
					si.States[k].From = ifi.Block()
				}
				if lastIf == nil || int(k) == len(si.States)-1 {
					if int(k) == len(si.States)-1 {
						lastIf = ifi
					}
				}
			}
		}
	}
	if !sel.Blocking && lastIf != nil {
		si.Default = lastIf.Block().Succs[1]
		si.DefaultFrom = lastIf.Block()
	}
	return si
}

// ---------- positions & paths ----------

// InstrIndex returns the index of in within its block.
func InstrIndex(in ssa.Instruction) int {
	for i, x := range in.Block().Instrs {
		if x == in {
			return i
		}
	}
	return -1
}

// Dominates: a executes before b on every path to b.
func Dominates(a, b ssa.Instruction) bool {
	if a.Block() == b.Block() {
		return InstrIndex(a) < InstrIndex(b)
	}
	return a.Block().Dominates(b.Block())
}

// Action of a path visitor.
type Action int

const (
	Continue Action = iota
	Barrier         // do not continue past this instruction
	Target          // found
)

// Search explores all paths starting after instruction `from` (or at block
// start when from is nil and startBlock given). visit classifies each
// instruction. edgeOK (optional) filters CFG edges. Returns the target
// instruction and the list of blocks on a path to it, or nil.
func Search(from ssa.Instruction, startBlock *ssa.BasicBlock, visit func(ssa.Instruction) Action, edgeOK func(a, b *ssa.BasicBlock) bool) (ssa.Instruction, []*ssa.BasicBlock) {
	return SearchAssume(from, startBlock, visit, edgeOK, nil)
}

// SearchAssume is Search with an oracle for "this value is certainly not nil", consulted only for values
// flowing into φ-nodes. Rules pass the same non-nil standard they apply to returned error expressions.
//
// The search is path-sensitive in one respect: along each path it remembers, for the φ-nodes passed, whether
// the incoming value was the nil constant, certainly non-nil, or a boolean constant (a φ fed by another φ
// inherits). A branch whose condition is decided by that knowledge (`if ok`, `if err != nil` on such a φ) is
// followed only on the feasible side. This is the residue of `return x, true` / `return nil, false` helpers and
// of `err = a(); if err != nil { return err }` merges; without it every inlined helper with two exits looks
// like it can take both continuations from either exit. Pruning only removes infeasible paths.
func SearchAssume(from ssa.Instruction, startBlock *ssa.BasicBlock, visit func(ssa.Instruction) Action, edgeOK func(a, b *ssa.BasicBlock) bool, nonNil func(ssa.Value) bool) (ssa.Instruction, []*ssa.BasicBlock) {
	t, path, ok := searchPS(from, startBlock, visit, edgeOK, nonNil, true)
	if !ok {
		// state budget exhausted: fall back to the path-insensitive search (explores a superset of the paths)
		t, path, _ = searchPS(from, startBlock, visit, edgeOK, nonNil, false)
	}
	return t, path
}

const (
	clsNil int8 = iota + 1
	clsNonNil
	clsTrue
	clsFalse
)

type phiEnv map[*ssa.Phi]int8

func (e phiEnv) sig() string {
	if len(e) == 0 {
		return ""
	}
	type kv struct {
		p *ssa.Phi
		c int8
	}
	var l []kv
	for p, c := range e {
		l = append(l, kv{p, c})
	}
	sort.Slice(l, func(i, j int) bool {
		if l[i].p.Block().Index != l[j].p.Block().Index {
			return l[i].p.Block().Index < l[j].p.Block().Index
		}
		return InstrIndex(l[i].p) < InstrIndex(l[j].p)
	})
	var sb strings.Builder
	for _, x := range l {
		fmt.Fprintf(&sb, "%d.%d=%d;", x.p.Block().Index, InstrIndex(x.p), x.c)
	}
	return sb.String()
}

func classifyEdge(v ssa.Value, env phiEnv, oracle func(ssa.Value) bool) int8 {
	switch x := v.(type) {
	case *ssa.Const:
		if x.IsNil() {
			return clsNil
		}
		if x.Value != nil && x.Value.Kind() == constant.Bool {
			if constant.BoolVal(x.Value) {
				return clsTrue
			}
			return clsFalse
		}
		return 0
	case *ssa.Phi:
		return env[x]
	case *ssa.MakeInterface, *ssa.Alloc, *ssa.MakeSlice, *ssa.MakeMap, *ssa.MakeChan, *ssa.MakeClosure, *ssa.Function:
		return clsNonNil
	}
	if oracle != nil && oracle(v) {
		return clsNonNil
	}
	return 0
}

// evalCond: the value of a branch condition under env, if decided.
func evalCond(v ssa.Value, env phiEnv, d int) (bool, bool) {
	if d > 4 {
		return false, false
	}
	switch x := v.(type) {
	case *ssa.Const:
		if x.Value != nil && x.Value.Kind() == constant.Bool {
			return constant.BoolVal(x.Value), true
		}
	case *ssa.Phi:
		switch env[x] {
		case clsTrue:
			return true, true
		case clsFalse:
			return false, true
		}
	case *ssa.UnOp:
		if x.Op == token.NOT {
			if r, ok := evalCond(x.X, env, d+1); ok {
				return !r, true
			}
		}
	case *ssa.BinOp:
		if x.Op != token.EQL && x.Op != token.NEQ {
			return false, false
		}
		cls := func(o ssa.Value) int8 {
			switch y := o.(type) {
			case *ssa.Const:
				if y.IsNil() {
					return clsNil
				}
			case *ssa.Phi:
				if c := env[y]; c == clsNil || c == clsNonNil {
					return c
				}
			}
			return 0
		}
		a, b := cls(x.X), cls(x.Y)
		if a == 0 || b == 0 {
			return false, false
		}
		if a == clsNonNil && b == clsNonNil {
			return false, false
		}
		eq := a == b // both nil
		if x.Op == token.NEQ {
			return !eq, true
		}
		return eq, true
	}
	return false, false
}

// curEnv is the φ knowledge of the path on which the running search is calling its visit function
// (the checker is single-threaded per process).
var (
	curEnv    phiEnv
	curOracle func(ssa.Value) bool
)

// PathNil / PathNonNil: inside a visit callback, what the current path knows about v (a φ passed on this
// path, a constant, or a value the search's oracle vouches for).
func PathNil(v ssa.Value) bool    { return classifyEdge(v, curEnv, nil) == clsNil }
func PathNonNil(v ssa.Value) bool { return classifyEdge(v, curEnv, curOracle) == clsNonNil }

func searchPS(from ssa.Instruction, startBlock *ssa.BasicBlock, visit func(ssa.Instruction) Action, edgeOK func(a, b *ssa.BasicBlock) bool, oracle func(ssa.Value) bool, sensitive bool) (ssa.Instruction, []*ssa.BasicBlock, bool) {
	type item struct {
		b    *ssa.BasicBlock
		i    int
		env  phiEnv
		path []*ssa.BasicBlock
	}
	type key struct {
		b   *ssa.BasicBlock
		sig string
	}
	var stack []item
	seen := map[key]bool{}
	if from != nil {
		stack = append(stack, item{from.Block(), InstrIndex(from) + 1, nil, []*ssa.BasicBlock{from.Block()}})
	} else {
		stack = append(stack, item{startBlock, 0, nil, []*ssa.BasicBlock{startBlock}})
		seen[key{startBlock, ""}] = true
	}
	states := 0
	for len(stack) > 0 {
		it := stack[len(stack)-1]
		stack = stack[:len(stack)-1]
		states++
		if sensitive && states > 20000 {
			return nil, nil, false
		}
		blocked := false
		curEnv, curOracle = it.env, oracle
		for i := it.i; i < len(it.b.Instrs); i++ {
			switch visit(it.b.Instrs[i]) {
			case Target:
				return it.b.Instrs[i], it.path, true
			case Barrier:
				blocked = true
			}
			if blocked {
				break
			}
		}
		if blocked {
			continue
		}
		only := -1
		if sensitive && len(it.b.Instrs) > 0 {
			if ifi, ok := it.b.Instrs[len(it.b.Instrs)-1].(*ssa.If); ok {
				if v, known := evalCond(ifi.Cond, it.env, 0); known {
					only = 1
					if v {
						only = 0
					}
				}
			}
		}
		for si, s := range it.b.Succs {
			if only >= 0 && si != only {
				continue // infeasible on this path
			}
			if edgeOK != nil && !edgeOK(it.b, s) {
				continue
			}
			var env phiEnv
			if sensitive {
				// which predecessor slot of s is this edge? (ambiguous when it.b appears twice)
				pi, n := -1, 0
				for i, p := range s.Preds {
					if p == it.b {
						pi = i
						n++
					}
				}
				env = phiEnv{}
				for p, c := range it.env {
					env[p] = c
				}
				for _, in := range s.Instrs {
					phi, ok := in.(*ssa.Phi)
					if !ok {
						break
					}
					delete(env, phi)
					if n == 1 && pi < len(phi.Edges) {
						if c := classifyEdge(phi.Edges[pi], it.env, oracle); c != 0 {
							env[phi] = c
						}
					}
				}
			}
			k := key{s, env.sig()}
			if seen[k] || (sensitive && k.sig != "" && seen[key{s, ""}] && false) {
				continue
			}
			seen[k] = true
			np := append(append([]*ssa.BasicBlock{}, it.path...), s)
			stack = append(stack, item{s, 0, env, np})
		}
	}
	return nil, nil, true
}

// PathString renders a block path as file:line list.
func (p *Prog) PathString(path []*ssa.BasicBlock, end ssa.Instruction) []string {
	var out []string
	for _, b := range path {
		s := "-"
		for _, in := range b.Instrs {
			if in.Pos().IsValid() {
				s = p.Pos(in.Pos())
				break
			}
		}
		out = append(out, "block "+itoa(b.Index)+" ("+b.Comment+") "+s)
	}
	if end != nil {
		out = append(out, "-> "+p.InstrPos(end)+" "+end.String())
	}
	return out
}

func itoa(i int) string {
	if i == 0 {
		return "0"
	}
	neg := i < 0
	if neg {
		i = -i
	}
	var b []byte
	for i > 0 {
		b = append([]byte{byte('0' + i%10)}, b...)
		i /= 10
	}
	if neg {
		b = append([]byte{'-'}, b...)
	}
	return string(b)
}

// IsNormalReturn: a Return instruction.
func IsNormalReturn(in ssa.Instruction) bool {
	_, ok := in.(*ssa.Return)
	return ok
}

// AllInstrs iterates over all instructions of fn.
func AllInstrs(fn *ssa.Function, f func(ssa.Instruction)) {
	for _, b := range fn.Blocks {
		for _, in := range b.Instrs {
			f(in)
		}
	}
}

// deferOwner / deferredBy: an unexported named function whose only use in the repository is one static
// `defer f(...)` is, for every structural purpose, the deferred closure of that function written as a
// method (`defer c.senderFailed()` instead of `defer func() { ... }()`); recover() works in it the same way.
// Filled by (*Prog).indexDeferred for the program being analysed.
var (
	deferMu    sync.Mutex
	deferOwner = map[*ssa.Function]*ssa.Function{}
	deferredBy = map[*ssa.Function][]*ssa.Function{}
)

// WithAnon returns fn and all functions nested in it (closures, and named functions that only fn defers), recursively.
func WithAnon(fn *ssa.Function) []*ssa.Function {
	return withAnonD(fn, 0)
}

func withAnonD(fn *ssa.Function, d int) []*ssa.Function {
	out := []*ssa.Function{fn}
	if d > 8 {
		return out
	}
	for _, a := range fn.AnonFuncs {
		out = append(out, withAnonD(a, d+1)...)
	}
	deferMu.Lock()
	ds := deferredBy[fn]
	deferMu.Unlock()
	for _, a := range ds {
		out = append(out, withAnonD(a, d+1)...)
	}
	return out
}

// Outermost returns the top-level function enclosing fn (through closures and deferred-only named functions).
func Outermost(fn *ssa.Function) *ssa.Function {
	for i := 0; i < 16; i++ {
		if fn.Parent() != nil {
			fn = fn.Parent()
			continue
		}
		deferMu.Lock()
		o := deferOwner[fn]
		deferMu.Unlock()
		if o == nil {
			break
		}
		fn = o
	}
	return fn
}

// EnclosingFunc is the syntactic or deferred-only parent of fn (nil for a top-level function).
func EnclosingFunc(fn *ssa.Function) *ssa.Function {
	if fn.Parent() != nil {
		return fn.Parent()
	}
	deferMu.Lock()
	defer deferMu.Unlock()
	return deferOwner[fn]
}

func (p *Prog) indexDeferred() {
	type use struct {
		n      int
		defers []*ssa.Function
		calls  []*ssa.Call
	}
	uses := map[*ssa.Function]*use{}
	for _, fn := range p.Funcs {
		AllInstrs(fn, func(in ssa.Instruction) {
			for _, op := range in.Operands(nil) {
				if *op == nil {
					continue
				}
				g, ok := (*op).(*ssa.Function)
				if !ok {
					continue
				}
				u := uses[g]
				if u == nil {
					u = &use{}
					uses[g] = u
				}
				u.n++
				if d, ok := in.(*ssa.Defer); ok && !d.Call.IsInvoke() && d.Call.Value == ssa.Value(g) {
					u.defers = append(u.defers, fn)
				}
				if cl, ok := in.(*ssa.Call); ok && !cl.Call.IsInvoke() && cl.Call.Value == ssa.Value(g) {
					u.calls = append(u.calls, cl)
				}
			}
		})
	}
	// bound-method wrappers and other synthetic functions referencing g make it address-taken
	inFuncs := map[*ssa.Function]bool{}
	for _, fn := range p.Funcs {
		inFuncs[fn] = true
	}
	// bound-method wrappers: `x.m` used as a func value. A wrapper that is instantiated at exactly one place
	// makes m the closure of that place (c.invokeMethod(c.fireRead) instead of c.invokeMethod(func(){...})).
	wrapperOf := map[*ssa.Function]*ssa.Function{} // wrapper -> method
	for fn := range ssautilAll(p) {
		if fn.Synthetic == "" || fn.Blocks == nil || inFuncs[fn] {
			continue
		}
		isBound := strings.Contains(fn.Synthetic, "bound method wrapper")
		AllInstrs(fn, func(in ssa.Instruction) {
			for _, op := range in.Operands(nil) {
				if *op == nil {
					continue
				}
				if g, ok := (*op).(*ssa.Function); ok {
					if isBound {
						if cc := CallCommon(in); cc != nil && !cc.IsInvoke() && cc.Value == ssa.Value(g) {
							wrapperOf[fn] = g
							continue
						}
					}
					if u := uses[g]; u != nil {
						u.n += 100
					}
				}
			}
		})
	}
	boundSites := map[*ssa.Function][]*ssa.Function{} // method -> functions that instantiate its wrapper
	for w, g := range wrapperOf {
		if u := uses[w]; u != nil {
			// every use of the wrapper must be a MakeClosure (counted in uses[w].n by the first loop)
			n := 0
			var where []*ssa.Function
			for _, fn := range p.Funcs {
				AllInstrs(fn, func(in ssa.Instruction) {
					if mc, ok := in.(*ssa.MakeClosure); ok && mc.Fn == ssa.Value(w) {
						n++
						// closure-like only when handed to a function of the repository that is called here and
						// now; a method value given to an executor, a timer or `go` runs on its own and stays a
						// function in its own right (the sender, a timer callback)
						sync := mc.Referrers() != nil && len(*mc.Referrers()) > 0
						if sync {
							for _, ref := range *mc.Referrers() {
								call, isCall := ref.(*ssa.Call)
								if !isCall || call.Call.IsInvoke() || call.Call.StaticCallee() == nil || !inFuncs[call.Call.StaticCallee()] {
									sync = false
								}
							}
						}
						if sync {
							where = append(where, fn)
						} else {
							where = append(where, nil)
						}
					}
				})
			}
			if n == u.n {
				boundSites[g] = append(boundSites[g], where...)
			} else {
				boundSites[g] = append(boundSites[g], nil, nil) // used in some other way: not closure-like
			}
		}
	}
	deferMu.Lock()
	defer deferMu.Unlock()
	for _, g := range p.Funcs {
		u := uses[g]
		if u != nil && u.n == 1 && len(u.calls) == 1 && g.Parent() == nil && g.Name() != "" && !ast.IsExported(g.Name()) && u.calls[0].Parent() != g && len(u.calls[0].Call.Args) == len(g.Params) {
			for i, prm := range g.Params {
				paramArg[prm] = u.calls[0].Call.Args[i]
			}
		}
		if (u == nil || u.n == 0) && len(boundSites[g]) == 1 && boundSites[g][0] != nil && g.Parent() == nil && g.Name() != "" && !ast.IsExported(g.Name()) {
			owner := boundSites[g][0]
			if owner != g && owner.Parent() != g {
				deferOwner[g] = owner
				deferredBy[owner] = append(deferredBy[owner], g)
			}
			continue
		}
		if u == nil || u.n != 1 || len(u.defers) != 1 || g.Parent() != nil || u.defers[0] == g {
			continue
		}
		if n := g.Name(); n == "" || ast.IsExported(n) {
			continue
		}
		deferOwner[g] = u.defers[0]
		deferredBy[u.defers[0]] = append(deferredBy[u.defers[0]], g)
	}
}

// ---------- conditions ----------

// Cond is a normalised branch condition: Value Op Const/nil, with successor blocks.
type Cond struct {
	If    *ssa.If
	X, Y  ssa.Value
	Op    token.Token // EQL, NEQ, LSS, ... or ILLEGAL when X is a plain bool
	True  *ssa.BasicBlock
	False *ssa.BasicBlock
}

// CondOf normalises the condition of an If (stripping NOT).
func CondOf(ifi *ssa.If) *Cond {
	c := &Cond{If: ifi, True: ifi.Block().Succs[0], False: ifi.Block().Succs[1]}
	v := ifi.Cond
	for {
		if u, ok := v.(*ssa.UnOp); ok && u.Op == token.NOT {
			v = u.X
			c.True, c.False = c.False, c.True
			continue
		}
		break
	}
	if b, ok := v.(*ssa.BinOp); ok {
		switch b.Op {
		case token.EQL, token.NEQ, token.LSS, token.LEQ, token.GTR, token.GEQ:
			c.X, c.Y, c.Op = b.X, b.Y, b.Op
			return c
		}
	}
	// a 0/1 flag kept in an atomic.Bool: `if flag.Load()` reads as `Load(flag) != 0`
	if in, ok := v.(ssa.Instruction); ok {
		if a := AsAtomic(in); a != nil && a.Kind == "load" && a.Field != nil {
			if bt, ok := v.Type().Underlying().(*types.Basic); ok && bt.Kind() == types.Bool {
				c.X, c.Y, c.Op = v, falseConst, token.NEQ
				return c
			}
		}
	}
	c.X = v
	c.Op = token.ILLEGAL
	return c
}

var falseConst = ssa.NewConst(constant.MakeBool(false), types.Typ[types.Bool])

// EdgeDominates: every path to block b passes the CFG edge from->to.
func EdgeDominates(from, to, b *ssa.BasicBlock) bool {
	if !to.Dominates(b) {
		return false
	}
	// all preds of `to` other than `from` must be dominated by `to` (back edges)
	for _, p := range to.Preds {
		if p == from {
			continue
		}
		if !to.Dominates(p) {
			return false
		}
	}
	return true
}

// Ifs returns all If instructions of fn.
func Ifs(fn *ssa.Function) []*ssa.If {
	var out []*ssa.If
	for _, b := range fn.Blocks {
		if len(b.Instrs) == 0 {
			continue
		}
		if i, ok := b.Instrs[len(b.Instrs)-1].(*ssa.If); ok {
			out = append(out, i)
		}
	}
	return out
}

// ControlledBy reports whether `in` executes only when the If `ifi` took the given branch.
func ControlledBy(in ssa.Instruction, ifi *ssa.If, branch bool) bool {
	idx := 0
	if !branch {
		idx = 1
	}
	return EdgeDominates(ifi.Block(), ifi.Block().Succs[idx], in.Block())
}

// PathItoa exposes itoa.
func PathItoa(i int) string { return itoa(i) }

// AddrUses lists the instructions using address v, looking through pointer type changes
// ((*int32)(&x.flag) for a flag of a named integer type).
func AddrUses(v ssa.Value) []ssa.Instruction {
	var out []ssa.Instruction
	var walk func(x ssa.Value, d int)
	walk = func(x ssa.Value, d int) {
		if x.Referrers() == nil || d > 4 {
			return
		}
		for _, ref := range *x.Referrers() {
			switch y := ref.(type) {
			case *ssa.ChangeType:
				walk(y, d+1)
			case *ssa.Convert:
				if _, isPtr := y.Type().Underlying().(*types.Pointer); isPtr {
					walk(y, d+1)
				} else {
					out = append(out, ref)
				}
			case *ssa.Call:
				// the address handed to a function with a body: what that function does with its parameter
				if g := y.Call.StaticCallee(); g != nil && !y.Call.IsInvoke() && g.Blocks != nil && d < 3 {
					followed := false
					for i, a := range y.Call.Args {
						if a == x && i < len(g.Params) {
							walk(g.Params[i], d+1)
							followed = true
						}
					}
					if followed {
						continue
					}
				}
				out = append(out, ref)
			default:
				out = append(out, ref)
			}
		}
	}
	walk(v, 0)
	return out
}
