package core

import (
	"go/ast"
	"go/constant"
	"go/token"
	"go/types"
	"sync"

	"golang.org/x/tools/go/ssa"
)

// ---------- value helpers ----------

// Unwrap strips conversions that keep identity (ChangeType, ChangeInterface, MakeInterface, Convert between same underlying).
func Unwrap(v ssa.Value) ssa.Value {
	for {
		switch x := v.(type) {
		case *ssa.ChangeType:
			v = x.X
		case *ssa.ChangeInterface:
			v = x.X
		case *ssa.MakeInterface:
			v = x.X
		default:
			return v
		}
	}
}

// FieldOf returns the struct field a value denotes: a load of &x.f, the
// address &x.f itself, or a Field extraction x.f. Second result is the base x.
func FieldOf(v ssa.Value) (*types.Var, ssa.Value) {
	v = Unwrap(v)
	switch x := v.(type) {
	case *ssa.UnOp:
		if x.Op == token.MUL {
			if fa, ok := x.X.(*ssa.FieldAddr); ok {
				return fieldVar(fa.X.Type(), fa.Field), fa.X
			}
		}
	case *ssa.FieldAddr:
		return fieldVar(x.X.Type(), x.Field), x.X
	case *ssa.Field:
		return fieldVar(x.X.Type(), x.Field), x.X
	}
	return nil, nil
}

func fieldVar(t types.Type, idx int) *types.Var {
	if p, ok := t.Underlying().(*types.Pointer); ok {
		t = p.Elem()
	}
	st, ok := t.Underlying().(*types.Struct)
	if !ok || idx >= st.NumFields() {
		return nil
	}
	return st.Field(idx)
}

// ConstInt extracts an integer constant.
func ConstInt(v ssa.Value) (int64, bool) {
	c, ok := Unwrap(v).(*ssa.Const)
	if !ok || c.Value == nil || c.Value.Kind() != constant.Int {
		if cv, ok2 := v.(*ssa.Convert); ok2 {
			return ConstInt(cv.X)
		}
		return 0, false
	}
	n, exact := constant.Int64Val(c.Value)
	return n, exact
}

// IsNilConst reports whether v is the nil constant.
func IsNilConst(v ssa.Value) bool {
	c, ok := v.(*ssa.Const)
	return ok && c.IsNil()
}

// ---------- call helpers ----------

// CallCommon returns the CallCommon of a call-like instruction (Call, Go, Defer).
func CallCommon(in ssa.Instruction) *ssa.CallCommon {
	if c, ok := in.(ssa.CallInstruction); ok {
		return c.Common()
	}
	return nil
}

// CalleeObj returns the types.Func called (static or interface method), or nil.
func CalleeObj(in ssa.Instruction) *types.Func {
	cc := CallCommon(in)
	if cc == nil {
		return nil
	}
	if cc.IsInvoke() {
		return cc.Method
	}
	if f := cc.StaticCallee(); f != nil {
		if o, ok := f.Object().(*types.Func); ok {
			return o
		}
		if f.Origin() != nil {
			if o, ok := f.Origin().Object().(*types.Func); ok {
				return o
			}
		}
	}
	return nil
}

// IsPkgFunc: in calls function pkgPath.name (package-level function).
func IsPkgFunc(in ssa.Instruction, pkgPath, name string) bool {
	o := CalleeObj(in)
	if o == nil || o.Pkg() == nil || o.Pkg().Path() != pkgPath || o.Name() != name {
		return false
	}
	sig := o.Type().(*types.Signature)
	return sig.Recv() == nil
}

// IsMethodCall: in calls a method named name whose receiver's named type is pkgPath.typeName
// (pointer or value receiver, static or invoke).
func IsMethodCall(in ssa.Instruction, pkgPath, typeName, name string) bool {
	o := CalleeObj(in)
	if o == nil || o.Name() != name {
		return false
	}
	sig := o.Type().(*types.Signature)
	if sig.Recv() == nil {
		return false
	}
	return NamedIs(sig.Recv().Type(), pkgPath, typeName)
}

// NamedIs reports whether t (or *t) is the named type pkgPath.name.
func NamedIs(t types.Type, pkgPath, name string) bool {
	if p, ok := t.(*types.Pointer); ok {
		t = p.Elem()
	}
	if a, ok := t.(*types.Alias); ok {
		t = types.Unalias(a)
	}
	n, ok := t.(*types.Named)
	if !ok {
		return false
	}
	o := n.Obj()
	if o.Name() != name {
		return false
	}
	if o.Pkg() == nil {
		return pkgPath == ""
	}
	return o.Pkg().Path() == pkgPath
}

// RecvNamed returns the receiver's named type object of a method, or nil.
func RecvNamed(o *types.Func) *types.TypeName {
	if o == nil {
		return nil
	}
	sig := o.Type().(*types.Signature)
	if sig.Recv() == nil {
		return nil
	}
	t := sig.Recv().Type()
	if p, ok := t.(*types.Pointer); ok {
		t = p.Elem()
	}
	if n, ok := types.Unalias(t).(*types.Named); ok {
		return n.Obj()
	}
	return nil
}

// IsBuiltinCall reports a call of builtin name and returns its args.
func IsBuiltinCall(in ssa.Instruction, name string) ([]ssa.Value, bool) {
	cc := CallCommon(in)
	if cc == nil {
		return nil, false
	}
	if b, ok := cc.Value.(*ssa.Builtin); ok && b.Name() == name {
		return cc.Args, true
	}
	return nil, false
}

// AtomicOp describes a sync/atomic operation on a struct field.
type AtomicOp struct {
	Kind  string // load, store, cas, add, swap
	Field *types.Var
	Base  ssa.Value
	Args  []ssa.Value // remaining args (cas: old,new; store: val)
}

// AsAtomic recognises sync/atomic functions and atomic.IntNN methods on a field.
func AsAtomic(in ssa.Instruction) *AtomicOp {
	cc := CallCommon(in)
	if cc == nil || cc.IsInvoke() {
		return nil
	}
	o := CalleeObj(in)
	if o == nil || o.Pkg() == nil || o.Pkg().Path() != "sync/atomic" || len(cc.Args) == 0 {
		return nil
	}
	name := o.Name()
	kind := ""
	switch {
	case hasPrefix(name, "CompareAndSwap"):
		kind = "cas"
	case hasPrefix(name, "Load"):
		kind = "load"
	case hasPrefix(name, "Store"):
		kind = "store"
	case hasPrefix(name, "Add"):
		kind = "add"
	case hasPrefix(name, "Swap"):
		kind = "swap"
	case hasPrefix(name, "And"), hasPrefix(name, "Or"):
		kind = "store"
	default:
		return nil
	}
	f, base := FieldOf(cc.Args[0])
	if f == nil {
		return &AtomicOp{Kind: kind, Args: cc.Args[1:]}
	}
	return &AtomicOp{Kind: kind, Field: f, Base: base, Args: cc.Args[1:]}
}

func hasPrefix(s, p string) bool { return len(s) >= len(p) && s[:len(p)] == p }

// ---------- select ----------

// SelState is one state of a select statement with its successor block.
type SelState struct {
	Index int
	Dir   types.ChanDir
	Chan  ssa.Value
	Send  ssa.Value
	Body  *ssa.BasicBlock // block entered when this state is chosen
	From  *ssa.BasicBlock // block holding the `index == k` test (edge From->Body is the state's edge)
}

// SelectInfo decomposes an ssa.Select.
type SelectInfo struct {
	Sel         *ssa.Select
	States      []*SelState
	Default     *ssa.BasicBlock // non-blocking only
	DefaultFrom *ssa.BasicBlock
}

// AnalyseSelect finds the body block of each state of sel.
func AnalyseSelect(sel *ssa.Select) *SelectInfo {
	si := &SelectInfo{Sel: sel}
	for i, st := range sel.States {
		si.States = append(si.States, &SelState{Index: i, Dir: st.Dir, Chan: st.Chan, Send: st.Send})
	}
	// find index extract
	var idx ssa.Value
	for _, r := range *sel.Referrers() {
		if e, ok := r.(*ssa.Extract); ok && e.Index == 0 {
			idx = e
		}
	}
	if idx == nil {
		return si
	}
	var lastIf *ssa.If
	for _, r := range *idx.Referrers() {
		b, ok := r.(*ssa.BinOp)
		if !ok || b.Op != token.EQL {
			continue
		}
		k, ok := ConstInt(b.Y)
		if !ok {
			continue
		}
		for _, rr := range *b.Referrers() {
			if ifi, ok := rr.(*ssa.If); ok {
				if int(k) < len(si.States) && k >= 0 {
					si.States[k].Body = ifi.Block().Succs[0]
					si.States[k].From = ifi.Block()
				}
				if lastIf == nil || int(k) == len(si.States)-1 {
					if int(k) == len(si.States)-1 {
						lastIf = ifi
					}
				}
			}
		}
	}
	if !sel.Blocking && lastIf != nil {
		si.Default = lastIf.Block().Succs[1]
		si.DefaultFrom = lastIf.Block()
	}
	return si
}

// ---------- positions & paths ----------

// InstrIndex returns the index of in within its block.
func InstrIndex(in ssa.Instruction) int {
	for i, x := range in.Block().Instrs {
		if x == in {
			return i
		}
	}
	return -1
}

// Dominates: a executes before b on every path to b.
func Dominates(a, b ssa.Instruction) bool {
	if a.Block() == b.Block() {
		return InstrIndex(a) < InstrIndex(b)
	}
	return a.Block().Dominates(b.Block())
}

// Action of a path visitor.
type Action int

const (
	Continue Action = iota
	Barrier         // do not continue past this instruction
	Target          // found
)

// Search explores all paths starting after instruction `from` (or at block
// start when from is nil and startBlock given). visit classifies each
// instruction. edgeOK (optional) filters CFG edges. Returns the target
// instruction and the list of blocks on a path to it, or nil.
func Search(from ssa.Instruction, startBlock *ssa.BasicBlock, visit func(ssa.Instruction) Action, edgeOK func(a, b *ssa.BasicBlock) bool) (ssa.Instruction, []*ssa.BasicBlock) {
	type item struct {
		b    *ssa.BasicBlock
		i    int
		only int // -1: every successor; k: only successor k is feasible given the edge this block was entered by
		path []*ssa.BasicBlock
	}
	type key struct {
		b    *ssa.BasicBlock
		only int
	}
	var stack []item
	seen := map[key]bool{}
	if from != nil {
		stack = append(stack, item{from.Block(), InstrIndex(from) + 1, -1, []*ssa.BasicBlock{from.Block()}})
	} else {
		stack = append(stack, item{startBlock, 0, -1, []*ssa.BasicBlock{startBlock}})
		seen[key{startBlock, -1}] = true
	}
	for len(stack) > 0 {
		it := stack[len(stack)-1]
		stack = stack[:len(stack)-1]
		blocked := false
		for i := it.i; i < len(it.b.Instrs); i++ {
			switch visit(it.b.Instrs[i]) {
			case Target:
				return it.b.Instrs[i], it.path
			case Barrier:
				blocked = true
			}
			if blocked {
				break
			}
		}
		if blocked {
			continue
		}
		for si, s := range it.b.Succs {
			if it.only >= 0 && si != it.only {
				continue // infeasible: the branch condition is a φ whose value on the entering edge is a constant
			}
			if edgeOK != nil && !edgeOK(it.b, s) {
				continue
			}
			only := phiDecidedSucc(s, it.b)
			if seen[key{s, -1}] || seen[key{s, only}] {
				continue
			}
			seen[key{s, only}] = true
			np := append(append([]*ssa.BasicBlock{}, it.path...), s)
			stack = append(stack, item{s, 0, only, np})
		}
	}
	return nil, nil
}

// phiDecidedSucc: block b ends in an If whose condition, given that b was entered from pred, is a constant
// (a φ of b with a constant on that edge, possibly negated or compared with a constant / nil). Returns the
// index of the only feasible successor, or -1. This is the residue of an inlined `return x, true` /
// `return nil, false` helper and of `ok := false; if c { ok = true }; if ok {...}` code.
func phiDecidedSucc(b, pred *ssa.BasicBlock) int {
	if len(b.Instrs) == 0 {
		return -1
	}
	ifi, ok := b.Instrs[len(b.Instrs)-1].(*ssa.If)
	if !ok {
		return -1
	}
	pi := -1
	for i, p := range b.Preds {
		if p == pred {
			if pi >= 0 {
				return -1 // entered by two edges from the same block
			}
			pi = i
		}
	}
	if pi < 0 {
		return -1
	}
	v, known := evalOnEdge(ifi.Cond, b, pi, 0)
	if !known {
		return -1
	}
	if v {
		return 0
	}
	return 1
}

// constOnEdge: the value of v when block b is entered by predecessor #pi, if that is a constant or a
// value that is certainly not nil.
func constOnEdge(v ssa.Value, b *ssa.BasicBlock, pi int) (c *ssa.Const, nonNil bool, ok bool) {
	if phi, isPhi := v.(*ssa.Phi); isPhi && phi.Block() == b && pi < len(phi.Edges) {
		v = phi.Edges[pi]
	} else if _, isPhi := v.(*ssa.Phi); isPhi {
		return nil, false, false
	}
	switch x := v.(type) {
	case *ssa.Const:
		return x, false, true
	case *ssa.MakeInterface, *ssa.Alloc, *ssa.MakeSlice, *ssa.MakeMap, *ssa.MakeChan, *ssa.MakeClosure, *ssa.Function:
		return nil, true, true
	}
	return nil, false, false
}

func evalOnEdge(v ssa.Value, b *ssa.BasicBlock, pi int, d int) (val bool, known bool) {
	if d > 4 {
		return false, false
	}
	switch x := v.(type) {
	case *ssa.Const:
		if x.Value != nil && x.Value.Kind() == constant.Bool {
			return constant.BoolVal(x.Value), true
		}
	case *ssa.Phi:
		if x.Block() == b && pi < len(x.Edges) {
			if c, ok := x.Edges[pi].(*ssa.Const); ok && c.Value != nil && c.Value.Kind() == constant.Bool {
				return constant.BoolVal(c.Value), true
			}
		}
	case *ssa.UnOp:
		if x.Op == token.NOT && x.Block() == b {
			if r, ok := evalOnEdge(x.X, b, pi, d+1); ok {
				return !r, true
			}
		}
	case *ssa.BinOp:
		if x.Block() != b || (x.Op != token.EQL && x.Op != token.NEQ) {
			return false, false
		}
		cx, nnx, okx := constOnEdge(x.X, b, pi)
		cy, nny, oky := constOnEdge(x.Y, b, pi)
		if !okx || !oky {
			return false, false
		}
		eq, decided := false, false
		switch {
		case cx != nil && cy != nil:
			if cx.IsNil() || cy.IsNil() {
				eq, decided = cx.IsNil() && cy.IsNil(), true
			} else if cx.Value != nil && cy.Value != nil && cx.Value.Kind() == cy.Value.Kind() {
				eq, decided = constant.Compare(cx.Value, token.EQL, cy.Value), true
			}
		case nnx && cy != nil && cy.IsNil(), nny && cx != nil && cx.IsNil():
			eq, decided = false, true
		}
		if !decided {
			return false, false
		}
		if x.Op == token.NEQ {
			return !eq, true
		}
		return eq, true
	}
	return false, false
}

// PathString renders a block path as file:line list.
func (p *Prog) PathString(path []*ssa.BasicBlock, end ssa.Instruction) []string {
	var out []string
	for _, b := range path {
		s := "-"
		for _, in := range b.Instrs {
			if in.Pos().IsValid() {
				s = p.Pos(in.Pos())
				break
			}
		}
		out = append(out, "block "+itoa(b.Index)+" ("+b.Comment+") "+s)
	}
	if end != nil {
		out = append(out, "-> "+p.InstrPos(end)+" "+end.String())
	}
	return out
}

func itoa(i int) string {
	if i == 0 {
		return "0"
	}
	neg := i < 0
	if neg {
		i = -i
	}
	var b []byte
	for i > 0 {
		b = append([]byte{byte('0' + i%10)}, b...)
		i /= 10
	}
	if neg {
		b = append([]byte{'-'}, b...)
	}
	return string(b)
}

// IsNormalReturn: a Return instruction.
func IsNormalReturn(in ssa.Instruction) bool {
	_, ok := in.(*ssa.Return)
	return ok
}

// AllInstrs iterates over all instructions of fn.
func AllInstrs(fn *ssa.Function, f func(ssa.Instruction)) {
	for _, b := range fn.Blocks {
		for _, in := range b.Instrs {
			f(in)
		}
	}
}

// deferOwner / deferredBy: an unexported named function whose only use in the repository is one static
// `defer f(...)` is, for every structural purpose, the deferred closure of that function written as a
// method (`defer c.senderFailed()` instead of `defer func() { ... }()`); recover() works in it the same way.
// Filled by (*Prog).indexDeferred for the program being analysed.
var (
	deferMu    sync.Mutex
	deferOwner = map[*ssa.Function]*ssa.Function{}
	deferredBy = map[*ssa.Function][]*ssa.Function{}
)

// WithAnon returns fn and all functions nested in it (closures, and named functions that only fn defers), recursively.
func WithAnon(fn *ssa.Function) []*ssa.Function {
	return withAnonD(fn, 0)
}

func withAnonD(fn *ssa.Function, d int) []*ssa.Function {
	out := []*ssa.Function{fn}
	if d > 8 {
		return out
	}
	for _, a := range fn.AnonFuncs {
		out = append(out, withAnonD(a, d+1)...)
	}
	deferMu.Lock()
	ds := deferredBy[fn]
	deferMu.Unlock()
	for _, a := range ds {
		out = append(out, withAnonD(a, d+1)...)
	}
	return out
}

// Outermost returns the top-level function enclosing fn (through closures and deferred-only named functions).
func Outermost(fn *ssa.Function) *ssa.Function {
	for i := 0; i < 16; i++ {
		if fn.Parent() != nil {
			fn = fn.Parent()
			continue
		}
		deferMu.Lock()
		o := deferOwner[fn]
		deferMu.Unlock()
		if o == nil {
			break
		}
		fn = o
	}
	return fn
}

// EnclosingFunc is the syntactic or deferred-only parent of fn (nil for a top-level function).
func EnclosingFunc(fn *ssa.Function) *ssa.Function {
	if fn.Parent() != nil {
		return fn.Parent()
	}
	deferMu.Lock()
	defer deferMu.Unlock()
	return deferOwner[fn]
}

func (p *Prog) indexDeferred() {
	type use struct {
		n      int
		defers []*ssa.Function
	}
	uses := map[*ssa.Function]*use{}
	for _, fn := range p.Funcs {
		AllInstrs(fn, func(in ssa.Instruction) {
			for _, op := range in.Operands(nil) {
				if *op == nil {
					continue
				}
				g, ok := (*op).(*ssa.Function)
				if !ok {
					continue
				}
				u := uses[g]
				if u == nil {
					u = &use{}
					uses[g] = u
				}
				u.n++
				if d, ok := in.(*ssa.Defer); ok && !d.Call.IsInvoke() && d.Call.Value == ssa.Value(g) {
					u.defers = append(u.defers, fn)
				}
			}
		})
	}
	// bound-method wrappers and other synthetic functions referencing g make it address-taken
	inFuncs := map[*ssa.Function]bool{}
	for _, fn := range p.Funcs {
		inFuncs[fn] = true
	}
	for fn := range ssautilAll(p) {
		if fn.Synthetic == "" || fn.Blocks == nil || inFuncs[fn] {
			continue
		}
		AllInstrs(fn, func(in ssa.Instruction) {
			for _, op := range in.Operands(nil) {
				if *op == nil {
					continue
				}
				if g, ok := (*op).(*ssa.Function); ok {
					if u := uses[g]; u != nil {
						u.n += 100
					}
				}
			}
		})
	}
	deferMu.Lock()
	defer deferMu.Unlock()
	for _, g := range p.Funcs {
		u := uses[g]
		if u == nil || u.n != 1 || len(u.defers) != 1 || g.Parent() != nil || u.defers[0] == g {
			continue
		}
		if n := g.Name(); n == "" || ast.IsExported(n) {
			continue
		}
		deferOwner[g] = u.defers[0]
		deferredBy[u.defers[0]] = append(deferredBy[u.defers[0]], g)
	}
}

// ---------- conditions ----------

// Cond is a normalised branch condition: Value Op Const/nil, with successor blocks.
type Cond struct {
	If    *ssa.If
	X, Y  ssa.Value
	Op    token.Token // EQL, NEQ, LSS, ... or ILLEGAL when X is a plain bool
	True  *ssa.BasicBlock
	False *ssa.BasicBlock
}

// CondOf normalises the condition of an If (stripping NOT).
func CondOf(ifi *ssa.If) *Cond {
	c := &Cond{If: ifi, True: ifi.Block().Succs[0], False: ifi.Block().Succs[1]}
	v := ifi.Cond
	for {
		if u, ok := v.(*ssa.UnOp); ok && u.Op == token.NOT {
			v = u.X
			c.True, c.False = c.False, c.True
			continue
		}
		break
	}
	if b, ok := v.(*ssa.BinOp); ok {
		switch b.Op {
		case token.EQL, token.NEQ, token.LSS, token.LEQ, token.GTR, token.GEQ:
			c.X, c.Y, c.Op = b.X, b.Y, b.Op
			return c
		}
	}
	c.X = v
	c.Op = token.ILLEGAL
	return c
}

// EdgeDominates: every path to block b passes the CFG edge from->to.
func EdgeDominates(from, to, b *ssa.BasicBlock) bool {
	if !to.Dominates(b) {
		return false
	}
	// all preds of `to` other than `from` must be dominated by `to` (back edges)
	for _, p := range to.Preds {
		if p == from {
			continue
		}
		if !to.Dominates(p) {
			return false
		}
	}
	return true
}

// Ifs returns all If instructions of fn.
func Ifs(fn *ssa.Function) []*ssa.If {
	var out []*ssa.If
	for _, b := range fn.Blocks {
		if len(b.Instrs) == 0 {
			continue
		}
		if i, ok := b.Instrs[len(b.Instrs)-1].(*ssa.If); ok {
			out = append(out, i)
		}
	}
	return out
}

// ControlledBy reports whether `in` executes only when the If `ifi` took the given branch.
func ControlledBy(in ssa.Instruction, ifi *ssa.If, branch bool) bool {
	idx := 0
	if !branch {
		idx = 1
	}
	return EdgeDominates(ifi.Block(), ifi.Block().Succs[idx], in.Block())
}

// PathItoa exposes itoa.
func PathItoa(i int) string { return itoa(i) }

// AddrUses lists the instructions using address v, looking through pointer type changes
// ((*int32)(&x.flag) for a flag of a named integer type).
func AddrUses(v ssa.Value) []ssa.Instruction {
	var out []ssa.Instruction
	var walk func(x ssa.Value, d int)
	walk = func(x ssa.Value, d int) {
		if x.Referrers() == nil || d > 4 {
			return
		}
		for _, ref := range *x.Referrers() {
			switch y := ref.(type) {
			case *ssa.ChangeType:
				walk(y, d+1)
			case *ssa.Convert:
				if _, isPtr := y.Type().Underlying().(*types.Pointer); isPtr {
					walk(y, d+1)
				} else {
					out = append(out, ref)
				}
			default:
				out = append(out, ref)
			}
		}
	}
	walk(v, 0)
	return out
}
