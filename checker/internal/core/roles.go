package core

import (
	"fmt"
	"go/token"
	"go/types"

	"golang.org/x/tools/go/ssa"
)

// Roles are the structurally resolved anchors of the channel write/close protocol.
type Roles struct {
	Root *types.Package

	ChannelIface   *types.Named
	PipelineIface  *types.Named
	ExecutorIface  *types.Named
	TransportIface *types.Named

	Chan *types.Named // struct implementing Channel

	WriteQueue, Transport, Executor, Pipeline, Ctx, Cancel *types.Var
	WriteLock, CloseErr, Closed, Running, UntilWrite       *types.Var

	Sender    *ssa.Function   // drains the write queue
	Closer    *ssa.Function   // (*channel).Close
	Enqueuers []*ssa.Function // functions that send on the write queue

	Errs []string
}

func (r *Roles) errf(format string, a ...interface{}) {
	r.Errs = append(r.Errs, fmt.Sprintf(format, a...))
}

func lookupNamed(pkg *types.Package, name string) *types.Named {
	if pkg == nil {
		return nil
	}
	o := pkg.Scope().Lookup(name)
	if o == nil {
		return nil
	}
	n, _ := types.Unalias(o.Type()).(*types.Named)
	return n
}

// Method returns the SSA function for method `name` of named type n (pointer receiver set).
func (p *Prog) Method(n *types.Named, name string) *ssa.Function {
	if n == nil {
		return nil
	}
	if f := p.DeclMethod(n, name); f != nil {
		return f
	}
	for _, t := range []types.Type{n, types.NewPointer(n)} {
		ms := p.SSA.MethodSets.MethodSet(t)
		for i := 0; i < ms.Len(); i++ {
			if ms.At(i).Obj().Name() == name {
				if f := p.SSA.MethodValue(ms.At(i)); f != nil {
					return f
				}
			}
		}
	}
	return nil
}

// DeclMethod returns the method declared directly on n (not promoted), or nil.
func (p *Prog) DeclMethod(n *types.Named, name string) *ssa.Function {
	if n == nil {
		return nil
	}
	for i := 0; i < n.NumMethods(); i++ {
		if m := n.Method(i); m.Name() == name {
			return p.FuncOf(m)
		}
	}
	return nil
}

// PkgFunc returns the package-level function rel:name.
func (p *Prog) PkgFunc(rel, name string) *ssa.Function {
	sp := p.Pkg(rel)
	if sp == nil {
		return nil
	}
	return sp.Func(name)
}

// StructTypes lists the named struct types declared in package rel, sorted by name.
func (p *Prog) StructTypes(rel string) []*types.Named {
	tp := p.TPkg(rel)
	if tp == nil {
		return nil
	}
	var out []*types.Named
	for _, name := range tp.Scope().Names() {
		if tn, ok := tp.Scope().Lookup(name).(*types.TypeName); ok && !tn.IsAlias() {
			if n, ok := tn.Type().(*types.Named); ok {
				if _, ok := n.Underlying().(*types.Struct); ok {
					out = append(out, n)
				}
			}
		}
	}
	return out
}

// Implements: *n or n implements iface.
func Implements(n *types.Named, iface *types.Named) bool {
	if n == nil || iface == nil {
		return false
	}
	it, ok := iface.Underlying().(*types.Interface)
	if !ok {
		return false
	}
	return types.Implements(types.NewPointer(n), it) || types.Implements(n, it)
}

// FlatFields lists the fields of struct type n, with the fields of nested by-value structs of the same
// package (or anonymous struct types) flattened in.
func FlatFields(n *types.Named) []*types.Var { return fieldsOf(n) }

func fieldsOf(n *types.Named) []*types.Var {
	st, ok := n.Underlying().(*types.Struct)
	if !ok {
		return nil
	}
	var out []*types.Var
	var walk func(st *types.Struct, d int)
	walk = func(st *types.Struct, d int) {
		for i := 0; i < st.NumFields(); i++ {
			f := st.Field(i)
			// state grouped into a nested struct held BY VALUE (declared in the same package) is still state
			// of this object: its fields are flattened in
			if inner, ok := f.Type().Underlying().(*types.Struct); ok && d < 3 {
				same := false
				if nt, ok := types.Unalias(f.Type()).(*types.Named); ok {
					same = nt.Obj().Pkg() == n.Obj().Pkg()
				} else {
					same = true // anonymous struct type
				}
				if same {
					walk(inner, d+1)
					continue
				}
			}
			out = append(out, f)
		}
	}
	walk(st, 0)
	return out
}

// Roles resolves (once) the channel protocol roles.
func (p *Prog) Roles() *Roles {
	if p.roles != nil {
		return p.roles
	}
	r := &Roles{}
	p.roles = r
	r.Root = p.TPkg("")
	if r.Root == nil {
		r.errf("root package %s not loaded", p.Module)
		return r
	}
	r.ChannelIface = lookupNamed(r.Root, "Channel")
	r.PipelineIface = lookupNamed(r.Root, "Pipeline")
	r.ExecutorIface = lookupNamed(r.Root, "Executor")
	r.TransportIface = lookupNamed(p.TPkg("transport"), "Transport")
	for name, n := range map[string]*types.Named{"Channel": r.ChannelIface, "Pipeline": r.PipelineIface, "Executor": r.ExecutorIface, "transport.Transport": r.TransportIface} {
		if n == nil {
			r.errf("public interface %s not found", name)
		}
	}
	if len(r.Errs) > 0 {
		return r
	}
	var impls []*types.Named
	for _, st := range p.StructTypes("") {
		if Implements(st, r.ChannelIface) {
			impls = append(impls, st)
		}
	}
	if len(impls) != 1 {
		r.errf("expected exactly one struct implementing Channel in the root package, found %d", len(impls))
		return r
	}
	r.Chan = impls[0]
	var int32s []*types.Var
	for _, f := range fieldsOf(r.Chan) {
		t := f.Type()
		switch {
		case isChanOfBytes(t):
			r.WriteQueue = pick(r, "writeQueue", r.WriteQueue, f)
		case types.Identical(t, r.TransportIface):
			r.Transport = pick(r, "transport", r.Transport, f)
		case types.Identical(t, r.ExecutorIface):
			r.Executor = pick(r, "executor", r.Executor, f)
		case types.Identical(t, r.PipelineIface):
			r.Pipeline = pick(r, "pipeline", r.Pipeline, f)
		case NamedIs(t, "context", "Context"):
			r.Ctx = pick(r, "ctx", r.Ctx, f)
		case NamedIs(t, "context", "CancelFunc"):
			r.Cancel = pick(r, "cancel", r.Cancel, f)
		case NamedIs(t, "sync", "Mutex"):
			r.WriteLock = pick(r, "writeLock", r.WriteLock, f)
		case isErrorType(t):
			r.CloseErr = pick(r, "closeErr", r.CloseErr, f)
		case isAtomicErrHolder(t):
			r.CloseErr = pick(r, "closeErr", r.CloseErr, f)
		case isInt32Like(t):
			int32s = append(int32s, f)
		case isBool(t):
			r.UntilWrite = pick(r, "untilWrite", r.UntilWrite, f)
		}
	}
	for name, f := range map[string]*types.Var{"writeQueue(chan []byte)": r.WriteQueue, "transport": r.Transport, "executor": r.Executor,
		"pipeline": r.Pipeline, "ctx": r.Ctx, "cancel": r.Cancel, "writeLock(sync.Mutex)": r.WriteLock} {
		if f == nil {
			r.errf("channel field role %s not resolved", name)
		}
	}
	if len(r.Errs) > 0 {
		return r
	}
	// functions
	r.Closer = p.DeclMethod(r.Chan, "Close")
	if r.Closer == nil {
		r.errf("(*channel).Close not found")
	}
	for _, fn := range p.Funcs {
		if fn.Parent() != nil {
			continue
		}
		sends, recvs := false, false
		for _, f := range WithAnon(fn) {
			AllInstrs(f, func(in ssa.Instruction) {
				switch x := in.(type) {
				case *ssa.Send:
					if fv, _ := FieldOf(x.Chan); fv == r.WriteQueue {
						sends = true
					}
				case *ssa.Select:
					for _, st := range x.States {
						if fv, _ := FieldOf(st.Chan); fv == r.WriteQueue {
							if st.Dir == types.SendOnly {
								sends = true
							} else {
								recvs = true
							}
						}
					}
				case *ssa.UnOp:
					if x.Op.String() == "<-" {
						if fv, _ := FieldOf(x.X); fv == r.WriteQueue {
							recvs = true
						}
					}
				}
			})
		}
		if sends {
			r.Enqueuers = append(r.Enqueuers, fn)
		}
		if recvs {
			if r.Sender != nil && r.Sender != fn {
				r.errf("more than one function receives from the write queue: %s and %s", FName(r.Sender), FName(fn))
			}
			r.Sender = fn
		}
	}
	if r.Sender == nil {
		r.errf("no function receives from the write queue (sender role)")
	}
	if len(r.Enqueuers) == 0 {
		r.errf("no function sends on the write queue (enqueuer role)")
	}
	// flags: closed = int32 CAS'd in Close; running = int32 CAS'd in an enqueuer
	casIn := func(fn *ssa.Function) map[*types.Var]bool {
		m := map[*types.Var]bool{}
		if fn == nil {
			return m
		}
		for _, f := range WithAnon(fn) {
			AllInstrs(f, func(in ssa.Instruction) {
				if a := AsAtomic(in); a != nil && a.Kind == "cas" && a.Field != nil {
					m[a.Field] = true
				}
			})
		}
		return m
	}
	inCloser := casIn(r.Closer)
	inEnq := map[*types.Var]bool{}
	for _, e := range r.Enqueuers {
		for f := range casIn(e) {
			inEnq[f] = true
		}
	}
	// helpers called by enqueuers (tryStartSender-style refactor): look one level down
	if len(inEnq) == 0 {
		for _, e := range r.Enqueuers {
			AllInstrs(e, func(in ssa.Instruction) {
				for _, c := range p.Callees(in, nil) {
					if p.InRepo(c) {
						for f := range casIn(c) {
							inEnq[f] = true
						}
					}
				}
			})
		}
	}
	// enqueue helper (the select extracted into its own function): the CAS is in its callers
	if len(inEnq) == 0 {
		for _, e := range r.Enqueuers {
			for _, fn := range p.Funcs {
				AllInstrs(fn, func(in ssa.Instruction) {
					if cc := CallCommon(in); cc != nil && !cc.IsInvoke() && cc.StaticCallee() == e {
						for f := range casIn(Outermost(fn)) {
							inEnq[f] = true
						}
					}
				})
			}
		}
	}
	// wherever the code lives: the running flag is the one whose successful CAS is followed by starting the
	// sender (executor.Exec(sender) / go sender() on the success side of the test)
	if len(inEnq) == 0 && r.Sender != nil {
		refersToSender := func(v ssa.Value) bool {
			switch x := Unwrap(v).(type) {
			case *ssa.Function:
				return x == r.Sender
			case *ssa.MakeClosure:
				w, ok := x.Fn.(*ssa.Function)
				if !ok {
					return false
				}
				if w == r.Sender {
					return true
				}
				hit := false
				if w.Synthetic != "" {
					AllInstrs(w, func(in ssa.Instruction) {
						if cc := CallCommon(in); cc != nil && !cc.IsInvoke() && cc.StaticCallee() == r.Sender {
							hit = true
						}
					})
				}
				return hit
			}
			return false
		}
		for _, fn := range p.Funcs {
			for _, ifi := range Ifs(fn) {
				cd := CondOf(ifi)
				in, ok := cd.X.(ssa.Instruction)
				if !ok || cd.Op != token.ILLEGAL {
					continue
				}
				a := AsAtomic(in)
				if a == nil || a.Kind != "cas" || a.Field == nil {
					continue
				}
				starts := false
				for _, b := range fn.Blocks {
					if !EdgeDominates(ifi.Block(), cd.True, b) {
						continue
					}
					for _, x := range b.Instrs {
						cc := CallCommon(x)
						if cc == nil {
							continue
						}
						if refersToSender(cc.Value) {
							starts = true
						}
						for _, arg := range cc.Args {
							if refersToSender(arg) {
								starts = true
							}
						}
					}
				}
				if starts {
					inEnq[a.Field] = true
				}
			}
		}
	}
	for _, f := range int32s {
		if inEnq[f] {
			r.Running = pick(r, "running", r.Running, f)
		} else if inCloser[f] {
			r.Closed = pick(r, "closed", r.Closed, f)
		}
	}
	if r.Running == nil {
		r.errf("sender-running flag not resolved (no int32 field CAS'd by an enqueuer)")
	}
	if r.Closed == nil {
		r.errf("closed flag not resolved (no int32 field CAS'd by Close)")
	}
	return r
}

func pick(r *Roles, role string, old, f *types.Var) *types.Var {
	if old != nil && old != f {
		r.errf("role %s ambiguous: fields %s and %s", role, old.Name(), f.Name())
		return old
	}
	return f
}

func isChanOfBytes(t types.Type) bool {
	c, ok := t.Underlying().(*types.Chan)
	if !ok {
		return false
	}
	s, ok := c.Elem().Underlying().(*types.Slice)
	if !ok {
		return false
	}
	b, ok := s.Elem().Underlying().(*types.Basic)
	return ok && b.Kind() == types.Byte
}

func isErrorType(t types.Type) bool {
	return types.Identical(t, types.Universe.Lookup("error").Type())
}

func isAtomicErrHolder(t types.Type) bool {
	return NamedIs(t, "sync/atomic", "Value") || NamedIs(t, "sync/atomic", "Pointer")
}

func isInt32Like(t types.Type) bool {
	if NamedIs(t, "sync/atomic", "Int32") || NamedIs(t, "sync/atomic", "Bool") || NamedIs(t, "sync/atomic", "Uint32") {
		return true
	}
	b, ok := t.Underlying().(*types.Basic)
	return ok && (b.Kind() == types.Int32 || b.Kind() == types.Uint32)
}

func isBool(t types.Type) bool {
	b, ok := t.Underlying().(*types.Basic)
	return ok && b.Kind() == types.Bool
}
