// Package core holds the shared machinery of nettylint: loading the
// type-checked program, SSA construction, role resolution, path queries,
// call summaries and the obligation/evidence protocol.
package core

import (
	"fmt"
	"go/ast"
	"go/build"
	"go/token"
	"go/types"
	"os"
	"path/filepath"
	"sort"
	"strings"
	"sync"

	"golang.org/x/tools/go/packages"
	"golang.org/x/tools/go/ssa"
	"golang.org/x/tools/go/ssa/ssautil"
)

// Prog is the loaded, type-checked and SSA-lowered repository.
type Prog struct {
	// Memo caches, per lowered program, the result of evaluating a whole rule set on behalf of another property
	// (rules.importObligations): the evaluation depends on the program only
	Memo sync.Map

	Dir     string
	Module  string
	Fset    *token.FileSet
	Pkgs    []*packages.Package
	ByPath  map[string]*packages.Package
	SSA     *ssa.Program
	SSAPkgs map[string]*ssa.Package
	// Funcs: every source function (incl. anonymous ones) of the repo.
	Funcs []*ssa.Function
	// decl index for AST rules
	FuncDecl map[*types.Func]*ast.FuncDecl
	Files    int

	// InlineLevel > 0: helper calls were inlined before analysis (normal form, see inline.go)
	InlineLevel int
	Inlined     []string
	listOnly    bool
	InlineOnly  map[string]bool // the helper selection this normal form was built with (nil = all eligible)
	// files excluded by build constraints under the loaded configuration, and the GOOS/GOARCH settings
	// ("GOOS=windows GOARCH=amd64") under which they would be built
	ExcludedFiles []string
	AltConfigs    []string
	dropped       map[*ssa.Function]bool

	roles *Roles
	sums  map[sumKey]bool
}

// MinPackages is the floor on the number of loaded packages (12 on the pinned
// tree); fewer means the loader no longer sees the whole repository.
const MinPackages = 12

// Load type-checks dir/... and builds SSA for the repository's packages.
func Load(dir string, extraEnv ...string) (*Prog, error) {
	env := []string{}
	for _, kv := range os.Environ() {
		if strings.HasPrefix(kv, "GOWORK=") || strings.HasPrefix(kv, "GOFLAGS=") {
			continue
		}
		env = append(env, kv)
	}
	env = append(env, "GOFLAGS=-mod=mod", "GOPROXY=off", "GOSUMDB=off", "GOTOOLCHAIN=local", "GOWORK=off")
	env = append(env, extraEnv...)
	cfg := &packages.Config{
		Mode:  packages.LoadSyntax | packages.NeedModule,
		Dir:   dir,
		Tests: false,
		Env:   env,
	}
	pkgs, err := packages.Load(cfg, "./...")
	if err != nil {
		return nil, fmt.Errorf("load %s: %v", dir, err)
	}
	if len(pkgs) < MinPackages {
		return nil, fmt.Errorf("load %s: only %d packages loaded, expected at least %d", dir, len(pkgs), MinPackages)
	}
	var errs []string
	packages.Visit(pkgs, nil, func(p *packages.Package) {
		for _, e := range p.Errors {
			errs = append(errs, e.Error())
		}
	})
	if len(errs) > 0 {
		sort.Strings(errs)
		return nil, fmt.Errorf("load %s: %d package errors, first: %s", dir, len(errs), errs[0])
	}
	p := &Prog{Dir: dir, Pkgs: pkgs, ByPath: map[string]*packages.Package{}, SSAPkgs: map[string]*ssa.Package{},
		FuncDecl: map[*types.Func]*ast.FuncDecl{}, sums: map[sumKey]bool{}}
	sort.Slice(pkgs, func(i, j int) bool { return pkgs[i].PkgPath < pkgs[j].PkgPath })
	loaded := map[string]bool{}
	for _, pk := range pkgs {
		p.ByPath[pk.PkgPath] = pk
		p.Fset = pk.Fset
		if pk.Module != nil && (p.Module == "" || len(pk.Module.Path) < len(p.Module)) {
			p.Module = pk.Module.Path
		}
		for i, f := range pk.Syntax {
			_ = i
			fn := pk.Fset.Position(f.Pos()).Filename
			loaded[filepath.Clean(fn)] = true
			p.Files++
			for _, d := range f.Decls {
				if fd, ok := d.(*ast.FuncDecl); ok {
					if obj, ok := pk.TypesInfo.Defs[fd.Name].(*types.Func); ok {
						p.FuncDecl[obj] = fd
					}
				}
			}
		}
	}
	if p.Module == "" {
		return nil, fmt.Errorf("load %s: module path not resolved", dir)
	}
	// every non-test .go file of the repository must be in some loaded package
	var missing []string
	filepath.Walk(dir, func(path string, info os.FileInfo, err error) error {
		if err != nil {
			return nil
		}
		if info.IsDir() {
			n := info.Name()
			if path != dir && (strings.HasPrefix(n, ".") || n == "vendor" || n == "testdata") {
				return filepath.SkipDir
			}
			return nil
		}
		if strings.HasSuffix(path, ".go") && !strings.HasSuffix(path, "_test.go") {
			abs, _ := filepath.Abs(path)
			if !loaded[filepath.Clean(abs)] && !loaded[filepath.Clean(path)] {
				missing = append(missing, path)
			}
		}
		return nil
	})
	if len(missing) > 0 {
		// a file excluded by build constraints under this configuration is not part of this build. If another
		// GOOS/GOARCH would include it, remember that configuration (the thorough tier analyses it as well);
		// if no configuration without extra tags includes it (`//go:build ignore`, a custom tag), it is never built.
		var unexplained []string
		for _, f := range missing {
			cfg, constrained := altConfigFor(f, extraEnv)
			switch {
			case !constrained:
				unexplained = append(unexplained, f)
			case cfg != "":
				p.ExcludedFiles = append(p.ExcludedFiles, f+" (built under "+cfg+")")
				seen := false
				for _, c := range p.AltConfigs {
					if c == cfg {
						seen = true
					}
				}
				if !seen {
					p.AltConfigs = append(p.AltConfigs, cfg)
				}
			default:
				p.ExcludedFiles = append(p.ExcludedFiles, f+" (needs a custom build tag: never part of a default build)")
			}
		}
		if len(unexplained) > 0 {
			return nil, fmt.Errorf("load %s: %d source files are in no loaded package although no build constraint excludes them: %v", dir, len(unexplained), unexplained)
		}
	}

	if err := p.buildSSA(); err != nil {
		return nil, err
	}
	return p, nil
}

// WithInlining returns a copy of p whose SSA was rebuilt from the same type-checked packages and
// normalised by inlining helper calls (see inline.go). Level 0 returns p itself.
func (p *Prog) WithInlining(level int) (*Prog, error) { return p.WithInlinedSet(level, nil) }

// WithInlinedSet is WithInlining restricted to the helpers named in only (all eligible ones when nil).
func (p *Prog) WithInlinedSet(level int, only map[string]bool) (*Prog, error) {
	if level == 0 {
		return p, nil
	}
	if only != nil {
		cp := map[string]bool{}
		for k, v := range only {
			if v {
				cp[k] = true
			}
		}
		only = cp
	}
	q := &Prog{Dir: p.Dir, Module: p.Module, Fset: p.Fset, Pkgs: p.Pkgs, ByPath: p.ByPath, SSAPkgs: map[string]*ssa.Package{},
		FuncDecl: p.FuncDecl, Files: p.Files, sums: map[sumKey]bool{}, InlineLevel: level, InlineOnly: only}
	if err := q.buildSSA(); err != nil {
		return nil, err
	}
	if err := q.inlineSet(level, only); err != nil {
		return nil, err
	}
	q.indexOnceBound() // instructions were cloned into their callers
	return q, nil
}

func (p *Prog) buildSSA() error {
	pkgs := p.Pkgs
	prog, spkgs := ssautil.Packages(pkgs, ssa.InstantiateGenerics)
	prog.Build()
	p.SSA = prog
	for i, sp := range spkgs {
		if sp == nil {
			return fmt.Errorf("no SSA for %s", pkgs[i].PkgPath)
		}
		p.SSAPkgs[pkgs[i].PkgPath] = sp
	}
	for fn := range ssautil.AllFunctions(prog) {
		if fn.Pkg != nil && p.SSAPkgs[fn.Pkg.Pkg.Path()] == fn.Pkg && fn.Blocks != nil {
			p.Funcs = append(p.Funcs, fn)
		} else if fn.Blocks != nil && fn.Origin() != nil && fn.Origin().Pkg != nil && p.SSAPkgs[fn.Origin().Pkg.Pkg.Path()] != nil {
			// instantiation of a repo generic
			p.Funcs = append(p.Funcs, fn)
		}
	}
	sort.Slice(p.Funcs, func(i, j int) bool {
		a, b := p.Funcs[i], p.Funcs[j]
		if a.Pos() != b.Pos() {
			return a.Pos() < b.Pos()
		}
		return a.String() < b.String()
	})
	for _, fn := range p.Funcs {
		stripCompareConversions(fn)
	}
	p.indexDeferred()
	p.indexOnceBound()
	return nil
}

func ssautilAll(p *Prog) map[*ssa.Function]bool { return ssautil.AllFunctions(p.SSA) }

// InRepo reports whether fn is a function with a body defined in the repository.
func (p *Prog) InRepo(fn *ssa.Function) bool {
	if fn == nil || fn.Blocks == nil {
		return false
	}
	pk := fn.Pkg
	if pk == nil && fn.Origin() != nil {
		pk = fn.Origin().Pkg
	}
	if pk == nil {
		// bound / thunk wrappers have no package; attribute by object
		if fn.Object() != nil && fn.Object().Pkg() != nil {
			return p.SSAPkgs[fn.Object().Pkg().Path()] != nil
		}
		if fn.Parent() != nil {
			return p.InRepo(fn.Parent())
		}
		return false
	}
	return p.SSAPkgs[pk.Pkg.Path()] == pk
}

// Pos renders a position relative to the repo root.
func (p *Prog) Pos(pos token.Pos) string {
	if !pos.IsValid() {
		return "-"
	}
	ps := p.Fset.Position(pos)
	rel, err := filepath.Rel(p.Dir, ps.Filename)
	if err != nil {
		rel = ps.Filename
	}
	return fmt.Sprintf("%s:%d", rel, ps.Line)
}

// InstrPos gives the best available position for an instruction.
func (p *Prog) InstrPos(in ssa.Instruction) string {
	if in == nil {
		return "-"
	}
	if in.Pos().IsValid() {
		return p.Pos(in.Pos())
	}
	if c, ok := in.(ssa.CallInstruction); ok && c.Common().Pos().IsValid() {
		return p.Pos(c.Common().Pos())
	}
	// fall back to nearest positioned instruction in block, then the function
	b := in.Block()
	if b != nil {
		for _, x := range b.Instrs {
			if x.Pos().IsValid() {
				return p.Pos(x.Pos()) + "~"
			}
		}
		if b.Parent() != nil {
			return p.Pos(b.Parent().Pos()) + "~"
		}
	}
	return "-"
}

// Pkg returns the package at module-relative path rel ("" = root).
func (p *Prog) Pkg(rel string) *ssa.Package {
	path := p.Module
	if rel != "" {
		path += "/" + rel
	}
	return p.SSAPkgs[path]
}

// TPkg returns the types.Package at module-relative path.
func (p *Prog) TPkg(rel string) *types.Package {
	if sp := p.Pkg(rel); sp != nil {
		return sp.Pkg
	}
	return nil
}

// FuncName is a stable, human-readable name: "(*channel).writeOnce", "asyncWrite$1".
func FuncName(fn *ssa.Function) string {
	if fn == nil {
		return "<nil>"
	}
	s := fn.RelString(fn.Package().Pkg)
	if fn.Package() == nil {
		s = fn.String()
	}
	return s
}

// FName is FuncName tolerant of package-less synthetic functions.
func FName(fn *ssa.Function) string {
	if fn == nil {
		return "<nil>"
	}
	if fn.Pkg != nil {
		return fn.RelString(fn.Pkg.Pkg)
	}
	if fn.Parent() != nil {
		return FName(fn.Parent()) + "$" + strings.TrimPrefix(fn.Name(), fn.Parent().Name()+"$")
	}
	return fn.String()
}

// PkgRel gives the module-relative package path of fn ("." for root).
func (p *Prog) PkgRel(fn *ssa.Function) string {
	for fn != nil && fn.Pkg == nil && fn.Parent() != nil {
		fn = fn.Parent()
	}
	// an instantiation of a generic function belongs to the package of its origin
	if fn != nil && fn.Pkg == nil && fn.Origin() != nil {
		fn = fn.Origin()
	}
	if fn == nil || fn.Pkg == nil {
		return "?"
	}
	r := strings.TrimPrefix(fn.Pkg.Pkg.Path(), p.Module)
	r = strings.TrimPrefix(r, "/")
	if r == "" {
		return "."
	}
	return r
}

// QName = pkgrel:funcname
func (p *Prog) QName(fn *ssa.Function) string {
	return p.PkgRel(fn) + ":" + FName(fn)
}

// FuncOf is SSA.FuncValue for the program under analysis: a helper that exists only inlined into its
// callers in this normal form is not a function of the program any more.
func (p *Prog) FuncOf(obj *types.Func) *ssa.Function {
	fn := p.SSA.FuncValue(obj)
	if fn != nil && p.dropped[fn] {
		return nil
	}
	return fn
}

// altConfigFor: is file excluded by a build constraint under the current configuration (constrained), and
// if so under which plain GOOS/GOARCH configuration would it be built ("" if none).
func altConfigFor(file string, extraEnv []string) (cfg string, constrained bool) {
	dir, name := filepath.Split(file)
	cur := build.Default
	cur.CgoEnabled = true
	for _, kv := range extraEnv {
		if strings.HasPrefix(kv, "GOARCH=") {
			cur.GOARCH = strings.TrimPrefix(kv, "GOARCH=")
		}
		if strings.HasPrefix(kv, "GOOS=") {
			cur.GOOS = strings.TrimPrefix(kv, "GOOS=")
		}
	}
	if ok, err := cur.MatchFile(dir, name); err != nil || ok {
		return "", false // not excluded by constraints: the loader should have seen it
	}
	for _, goos := range []string{"linux", "windows", "darwin", "freebsd"} {
		for _, arch := range []string{"amd64", "386", "arm64"} {
			c := build.Default
			c.GOOS, c.GOARCH = goos, arch
			c.CgoEnabled = false
			if ok, err := c.MatchFile(dir, name); err == nil && ok {
				return "GOOS=" + goos + " GOARCH=" + arch, true
			}
			c.CgoEnabled = true
			if ok, err := c.MatchFile(dir, name); err == nil && ok {
				return "GOOS=" + goos + " GOARCH=" + arch + " CGO_ENABLED=1", true
			}
		}
	}
	return "", true
}
