package core

import (
	"go/types"
	"strings"
	"sync"

	"golang.org/x/tools/go/ssa"
)

// Once-bound func fields. A struct field of func type that every construction site of the struct sets to a
// method value of the object under construction (`ch.task = ch.run`, before the constructor returns) and that
// nothing else writes or takes the address of is an alias of that method: a later `x.task` is `x.run`. (The
// "replace a method value by a func field initialised once in the constructor" refactoring.) The table is
// computed per lowered program, because normal forms re-lower the functions.

var onceBound sync.Map // *ssa.Program -> map[*types.Var]*ssa.Function (the bound-method wrapper)

func (p *Prog) indexOnceBound() {
	if len(p.Funcs) == 0 {
		return
	}
	type info struct {
		bad    bool
		target *ssa.Function
		stores []*ssa.Store
	}
	fields := map[*types.Var]*info{}
	get := func(v *types.Var) *info {
		if fields[v] == nil {
			fields[v] = &info{}
		}
		return fields[v]
	}
	var all []*ssa.Function
	for _, fn := range p.Funcs {
		all = append(all, fn)
	}
	seenFn := map[*ssa.Function]bool{}
	var collect func(fn *ssa.Function)
	var fns []*ssa.Function
	collect = func(fn *ssa.Function) {
		if seenFn[fn] {
			return
		}
		seenFn[fn] = true
		fns = append(fns, fn)
		for _, a := range fn.AnonFuncs {
			collect(a)
		}
	}
	for _, fn := range all {
		collect(fn)
	}
	for _, fn := range fns {
		for _, b := range fn.Blocks {
			for _, in := range b.Instrs {
				fa, ok := in.(*ssa.FieldAddr)
				if !ok {
					continue
				}
				fv := fieldVar(fa.X.Type(), fa.Field)
				if fv == nil {
					continue
				}
				if _, isFunc := fv.Type().Underlying().(*types.Signature); !isFunc {
					continue
				}
				inf := get(fv)
				if fa.Referrers() == nil {
					continue
				}
				for _, ref := range *fa.Referrers() {
					switch r := ref.(type) {
					case *ssa.UnOp:
						// load
					case *ssa.Store:
						if r.Addr != ssa.Value(fa) {
							inf.bad = true
							continue
						}
						mc, ok := r.Val.(*ssa.MakeClosure)
						if !ok || len(mc.Bindings) != 1 {
							inf.bad = true
							continue
						}
						w, _ := mc.Fn.(*ssa.Function)
						if w == nil || !strings.Contains(w.Synthetic, "bound method wrapper") || Unwrap(mc.Bindings[0]) != Unwrap(fa.X) {
							inf.bad = true
							continue
						}
						al, isAlloc := Unwrap(fa.X).(*ssa.Alloc)
						if !isAlloc {
							inf.bad = true
							continue
						}
						_ = al
						if inf.target != nil && inf.target != w {
							inf.bad = true
						}
						inf.target = w
						inf.stores = append(inf.stores, r)
					case *ssa.DebugRef:
					default:
						inf.bad = true
					}
				}
			}
		}
	}
	out := map[*types.Var]*ssa.Function{}
	for fv, inf := range fields {
		if inf.bad || inf.target == nil {
			continue
		}
		// every construction site of the struct sets the field before it returns
		ok := true
		for _, fn := range fns {
			for _, b := range fn.Blocks {
				for _, in := range b.Instrs {
					al, isAlloc := in.(*ssa.Alloc)
					if !isAlloc || !hasField(al.Type(), fv) {
						continue
					}
					set := false
					for _, st := range inf.stores {
						if fa, _ := st.Addr.(*ssa.FieldAddr); fa != nil && Unwrap(fa.X) == ssa.Value(al) && st.Parent() == fn {
							dominatesAll := true
							for _, rb := range fn.Blocks {
								if len(rb.Instrs) == 0 {
									continue
								}
								if _, isRet := rb.Instrs[len(rb.Instrs)-1].(*ssa.Return); isRet && !st.Block().Dominates(rb) {
									dominatesAll = false
								}
							}
							if dominatesAll {
								set = true
							}
						}
					}
					if !set {
						ok = false
					}
				}
			}
		}
		if ok {
			out[fv] = inf.target
		}
	}
	onceBound.Store(p.Funcs[0].Prog, out)
}

// hasField: t is *S (or S) for the struct S that declares field fv directly.
func hasField(t types.Type, fv *types.Var) bool {
	if pt, ok := t.Underlying().(*types.Pointer); ok {
		t = pt.Elem()
	}
	st, ok := t.Underlying().(*types.Struct)
	if !ok {
		return false
	}
	for i := 0; i < st.NumFields(); i++ {
		if st.Field(i) == fv {
			return true
		}
	}
	return false
}

// OnceBoundField: v is a load of a once-bound func field; returns the bound-method wrapper it always holds.
func OnceBoundField(v ssa.Value) *ssa.Function {
	ld, ok := v.(*ssa.UnOp)
	if !ok {
		return nil
	}
	fa, ok := ld.X.(*ssa.FieldAddr)
	if !ok || fa.Parent() == nil {
		return nil
	}
	m, ok := onceBound.Load(fa.Parent().Prog)
	if !ok {
		return nil
	}
	return m.(map[*types.Var]*ssa.Function)[fieldVar(fa.X.Type(), fa.Field)]
}

// IsOnceBoundStore: in stores a method value into a once-bound func field (its one initialisation).
func IsOnceBoundStore(in ssa.Instruction) bool {
	st, ok := in.(*ssa.Store)
	if !ok {
		return false
	}
	fa, ok := st.Addr.(*ssa.FieldAddr)
	if !ok || fa.Parent() == nil {
		return false
	}
	m, ok := onceBound.Load(fa.Parent().Prog)
	if !ok {
		return false
	}
	return m.(map[*types.Var]*ssa.Function)[fieldVar(fa.X.Type(), fa.Field)] != nil
}

// stripCompareConversions: in `senderIdle == senderState(atomic.LoadInt32(&c.running))` the conversion between
// a named basic type and its underlying type is a no-op on the value; the comparison (or arithmetic) is made
// to refer to the converted operand directly, so that rules looking at what is compared see the load, the
// field or the parameter itself. The conversion instruction stays for its other uses (boxing into an
// interface, call arguments), where the type matters.
func stripCompareConversions(fn *ssa.Function) {
	for _, b := range fn.Blocks {
		for _, in := range b.Instrs {
			bo, ok := in.(*ssa.BinOp)
			if !ok {
				continue
			}
			for _, op := range []*ssa.Value{&bo.X, &bo.Y} {
				for {
					ct, ok := (*op).(*ssa.ChangeType)
					if !ok {
						break
					}
					a, ok1 := ct.X.Type().Underlying().(*types.Basic)
					r, ok2 := ct.Type().Underlying().(*types.Basic)
					if !ok1 || !ok2 || a.Kind() != r.Kind() {
						break
					}
					// move the use from the conversion to its operand
					if refs := ct.Referrers(); refs != nil {
						for i, u := range *refs {
							if u == ssa.Instruction(bo) {
								*refs = append((*refs)[:i:i], (*refs)[i+1:]...)
								break
							}
						}
					}
					*op = ct.X
					if refs := ct.X.Referrers(); refs != nil {
						*refs = append(*refs, bo)
					}
				}
			}
		}
	}
}

// PublicName names a method of an unexported type by the one exported function of its package that constructs
// the type (`codec/frame:DelimiterCodec.HandleWrite` for `(*delimiterCodec).HandleWrite`), so that the name
// survives a rename of the unexported type; QName when there is no unique constructor.
func (p *Prog) PublicName(fn *ssa.Function) string {
	fn = Outermost(fn)
	recv := fn.Signature.Recv()
	if recv == nil {
		return p.QName(fn)
	}
	t := recv.Type()
	if pt, ok := t.(*types.Pointer); ok {
		t = pt.Elem()
	}
	n, ok := types.Unalias(t).(*types.Named)
	if !ok || n.Obj().Exported() || n.Obj().Pkg() == nil {
		return p.QName(fn)
	}
	var ctors []string
	for _, g := range p.Funcs {
		if g.Parent() != nil || g.Signature.Recv() != nil || g.Object() == nil || !g.Object().Exported() || g.Pkg == nil || g.Pkg.Pkg != n.Obj().Pkg() {
			continue
		}
		makes := false
		AllInstrs(g, func(in ssa.Instruction) {
			ret, ok := in.(*ssa.Return)
			if !ok {
				return
			}
			for _, r := range ret.Results {
				rt := Unwrap(r).Type()
				if pt, ok := rt.(*types.Pointer); ok {
					rt = pt.Elem()
				}
				if types.Identical(rt, n) {
					makes = true
				}
			}
		})
		if makes {
			ctors = append(ctors, g.Name())
		}
	}
	if len(ctors) != 1 {
		return p.QName(fn)
	}
	return p.PkgRel(fn) + ":" + ctors[0] + "." + fn.Name()
}
