package core

import (
	"bytes"
	"fmt"
	"go/ast"
	"go/types"
	"sort"
	"strings"

	"golang.org/x/tools/go/ssa"
	"golang.org/x/tools/go/ssa/ssautil"
)

// Inlining normal forms.
//
// The structural rules look at one function at a time (plus bounded summaries). A behaviour-preserving
// "extract helper" refactoring moves the construct a rule looks for into a callee. Instead of teaching
// every rule about every possible helper, the checker can analyse a normal form of the program in which
// helper calls were replaced by the helper's body. Inlining is semantics-preserving, so a rule set that is
// discharged on the normal form holds for the program as written.
//
//	level 1: unexported, defer-free, closure-free named functions with exactly one static call site
//	level 2: level 1 plus unexported helpers of at most smallHelper instructions at every static call site
//	level 3: level 2 plus exported callees of the caller's own package (never removed from the function list)
//
// A helper whose every use was inlined (no method value, go/defer, interface dispatch) is dropped from
// Prog.Funcs, so rules that enumerate functions see its body only where it executes.
const smallHelper = 60

// MaxInlineLevel is the deepest normal form tried.
const MaxInlineLevel = 3

func instrCount(fn *ssa.Function) int {
	n := 0
	for _, b := range fn.Blocks {
		n += len(b.Instrs)
	}
	return n
}

func (p *Prog) inlineHelpers(level int) error { return p.inlineSet(level, nil) }

// inlineSet inlines the helpers eligible at level; when only != nil just those named in it (QName).
// With dry set nothing is changed and the names of the eligible helpers are returned in p.Inlined.
func (p *Prog) inlineSet(level int, only map[string]bool) error {
	inRepo := map[*ssa.Function]bool{}
	for _, fn := range p.Funcs {
		inRepo[fn] = true
	}
	// interface method names per package: methods with these names may be reached by dynamic dispatch
	ifaceMeth := map[string]bool{}
	for _, pk := range p.Pkgs {
		for e, tv := range pk.TypesInfo.Types {
			_ = e
			if tv.Type == nil {
				continue
			}
			if it, ok := tv.Type.Underlying().(*types.Interface); ok {
				for i := 0; i < it.NumMethods(); i++ {
					ifaceMeth[it.Method(i).Name()] = true
				}
			}
		}
		for _, f := range pk.Syntax {
			ast.Inspect(f, func(n ast.Node) bool {
				if it, ok := n.(*ast.InterfaceType); ok && it.Methods != nil {
					for _, m := range it.Methods.List {
						for _, nm := range m.Names {
							ifaceMeth[nm.Name] = true
						}
					}
				}
				return true
			})
		}
	}
	sites := map[*ssa.Function][]*ssa.Call{}
	addrTaken := map[*ssa.Function]bool{}
	allFns := ssautil.AllFunctions(p.SSA)
	// bound-method wrappers that some method value of the program still refers to
	liveWrappers := func() map[*ssa.Function]bool {
		live := map[*ssa.Function]bool{}
		for fn := range allFns {
			for _, b := range fn.Blocks {
				for _, in := range b.Instrs {
					if mc, ok := in.(*ssa.MakeClosure); ok {
						if w, ok := mc.Fn.(*ssa.Function); ok && strings.Contains(w.Synthetic, "bound method wrapper") {
							live[w] = true
						}
					}
				}
			}
		}
		return live
	}
	for fn := range allFns {
		if fn.Blocks == nil {
			continue
		}
		synthetic := fn.Synthetic != "" && !inRepo[fn]
		for _, b := range fn.Blocks {
			for _, in := range b.Instrs {
				var callee *ssa.Function
				if cc := CallCommon(in); cc != nil && !cc.IsInvoke() {
					if g, ok := cc.Value.(*ssa.Function); ok {
						callee = g
					}
				}
				for _, op := range in.Operands(nil) {
					if *op == nil {
						continue
					}
					g, ok := (*op).(*ssa.Function)
					if !ok {
						continue
					}
					call, isCall := in.(*ssa.Call)
					if isCall && g == callee && call.Call.Value == ssa.Value(g) && !synthetic && inRepo[fn] {
						// is this operand the callee slot (and not also an argument)?
						asArg := false
						for _, a := range call.Call.Args {
							if a == ssa.Value(g) {
								asArg = true
							}
						}
						if !asArg {
							continue
						}
					}
					// a promotion wrapper (method of an embedded struct seen through the outer type) can only be
					// reached through an interface that lists the method: an unexported method name that no
					// interface of the repository declares is never dispatched to
					if synthetic && strings.HasPrefix(fn.Synthetic, "wrapper for") && g.Signature.Recv() != nil && !ast.IsExported(g.Name()) && !ifaceMeth[g.Name()] {
						continue
					}
					addrTaken[g] = true
				}
				if call, ok := in.(*ssa.Call); ok && callee != nil && !synthetic && inRepo[fn] {
					sites[callee] = append(sites[callee], call)
				}
			}
		}
	}
	unexported := func(g *ssa.Function) bool {
		n := g.Name()
		return n != "" && !ast.IsExported(n)
	}
	eligible := func(g *ssa.Function, caller *ssa.Function) bool {
		if !inRepo[g] || g.Parent() != nil || (g.Synthetic != "" && g.Origin() == nil) || g.Name() == "init" || !ssa.CanInline(g) {
			return false
		}
		if only != nil && !only[p.QName(g)] && !only[p.QName(g)+"@"+p.QName(caller)] {
			return false
		}
		if g.Signature.Variadic() {
			// fine: variadic args are already packed at the call site
		}
		if !unexported(g) {
			if level < 3 || g.Pkg == nil || caller.Package() != g.Pkg {
				return false
			}
			return instrCount(g) <= smallHelper
		}
		n := len(sites[g])
		if n == 1 {
			return true
		}
		if (only != nil || p.listOnly) && level >= 2 {
			return instrCount(g) <= 8*smallHelper // explicitly selected helper: size is no reason not to look inside
		}
		return level >= 2 && instrCount(g) <= smallHelper
	}
	devirtualised := map[*ssa.Function]bool{}
	state := map[*ssa.Function]int{} // 1 = in progress, 2 = done
	inlinedAll := map[*ssa.Function]bool{}
	remaining := map[*ssa.Function]int{}
	for g, ss := range sites {
		remaining[g] = len(ss)
	}
	var firstErr error
	var process func(F *ssa.Function)
	process = func(F *ssa.Function) {
		if state[F] != 0 {
			return
		}
		state[F] = 1
		defer func() { state[F] = 2 }()
		changed := false
		// iterate until no eligible static call is left (cloned bodies may bring new sites of multi-site helpers)
		for round := 0; round < 8; round++ {
			var todo []*ssa.Call
			for _, b := range F.Blocks {
				for _, in := range b.Instrs {
					call, ok := in.(*ssa.Call)
					if !ok || call.Call.IsInvoke() {
						continue
					}
					if mc, isClo := call.Call.Value.(*ssa.MakeClosure); isClo && changed {
						// a method value invoked directly (`withLock(r.rearm)` after withLock was inlined): call the method
						if tgt := boundTarget(mc); tgt != nil && len(*mc.Referrers()) == 1 && len(mc.Bindings) == 1 {
							refs := mc.Referrers()
							*refs = (*refs)[:0]
							recv := mc.Bindings[0]
							call.Call.Value = tgt
							call.Call.Args = append([]ssa.Value{recv}, call.Call.Args...)
							if rr := recv.Referrers(); rr != nil {
								*rr = append(*rr, call)
								// the method value itself is dead now: take it out of its block
								for i, u := range *rr {
									if u == ssa.Instruction(mc) {
										*rr = append((*rr)[:i:i], (*rr)[i+1:]...)
										break
									}
								}
							}
							mb := mc.Block()
							for i, x := range mb.Instrs {
								if x == ssa.Instruction(mc) {
									mb.Instrs = append(mb.Instrs[:i:i], mb.Instrs[i+1:]...)
									break
								}
							}
							devirtualised[tgt] = true
							sites[tgt] = append(sites[tgt], call)
							if eligible(tgt, F) && state[tgt] != 1 {
								todo = append(todo, call)
							}
							continue
						}
						// a closure invoked directly (after its lock helper / wrapper was inlined), used nowhere else
						if g, ok := mc.Fn.(*ssa.Function); ok && len(*mc.Referrers()) == 1 && state[g] != 1 && inRepo[g] {
							todo = append(todo, call)
						}
						continue
					}
					g, ok := call.Call.Value.(*ssa.Function)
					if !ok || g == F || !eligible(g, F) {
						continue
					}
					if state[g] == 1 {
						continue // recursion
					}
					todo = append(todo, call)
				}
			}
			if len(todo) == 0 {
				break
			}
			for _, call := range todo {
				if mc, isClo := call.Call.Value.(*ssa.MakeClosure); isClo {
					g := mc.Fn.(*ssa.Function)
					process(g)
					if ssa.InlineCall(call, true) {
						p.Inlined = append(p.Inlined, FName(g)+" -> "+FName(F))
						// referrers are stale until FinishInline: refresh now so that the single-use test stays exact
						var buf bytes.Buffer
						if err := ssa.FinishInline(F, false, &buf); err != nil && firstErr == nil {
							firstErr = fmt.Errorf("%v: %s", err, buf.String())
						}
					}
					continue
				}
				g := call.Call.Value.(*ssa.Function)
				process(g)
				single := len(sites[g]) == 1 && !addrTaken[g]
				if ssa.InlineCall(call, single) {
					changed = true
					remaining[g]--
					p.Inlined = append(p.Inlined, FName(g)+" -> "+FName(F))
				}
			}
			if changed {
				var buf bytes.Buffer
				if err := ssa.FinishInline(F, false, &buf); err != nil && firstErr == nil {
					firstErr = fmt.Errorf("%v: %s", err, buf.String())
				}
			}
		}
		if changed {
			var buf bytes.Buffer
			if err := ssa.FinishInline(F, true, &buf); err != nil && firstErr == nil {
				firstErr = fmt.Errorf("%v: %s", err, buf.String())
			}
		}
	}
	if p.listOnly {
		seen := map[string]bool{}
		for _, F := range p.Funcs {
			AllInstrs(F, func(in ssa.Instruction) {
				call, ok := in.(*ssa.Call)
				if !ok || call.Call.IsInvoke() {
					return
				}
				if g, ok := call.Call.Value.(*ssa.Function); ok && g != F && eligible(g, F) {
					name := p.QName(g)
					if !unexported(g) {
						name += "@" + p.QName(F) // exported callees are chosen per call site
					}
					if !seen[name] {
						seen[name] = true
						p.Inlined = append(p.Inlined, name)
					}
				}
			})
		}
		sort.Strings(p.Inlined)
		return nil
	}
	funcs := append([]*ssa.Function{}, p.Funcs...)
	for _, fn := range funcs {
		process(fn)
	}
	if firstErr != nil {
		return firstErr
	}
	// a method whose only method value was turned into a direct call (and inlined) is no longer address-taken
	if len(devirtualised) > 0 {
		live := liveWrappers()
		for g := range devirtualised {
			other := false
			for fn := range allFns {
				if fn.Blocks == nil || (strings.Contains(fn.Synthetic, "bound method wrapper") && !live[fn]) {
					continue
				}
				for _, b := range fn.Blocks {
					for _, in := range b.Instrs {
						_, isCall := in.(*ssa.Call)
						for _, op := range in.Operands(nil) {
							if *op == ssa.Value(g) {
								if cc := CallCommon(in); isCall && cc != nil && cc.Value == ssa.Value(g) && inRepo[fn] {
									asArg := false
									for _, a := range cc.Args {
										if a == ssa.Value(g) {
											asArg = true
										}
									}
									if !asArg {
										continue
									}
								}
								other = true
							}
						}
					}
				}
			}
			if !other {
				delete(addrTaken, g)
			}
		}
	}
	// drop helpers that no longer execute on their own
	var keep []*ssa.Function
	for _, fn := range p.Funcs {
		drop := false
		if n, had := sites[fn]; had && len(n) > 0 && remaining[fn] <= 0 && !addrTaken[fn] && unexported(fn) && fn.Parent() == nil {
			if fn.Signature.Recv() == nil || !ifaceMeth[fn.Name()] {
				drop = true
			}
		}
		// cloned call sites inside other inlined bodies: make sure no static call to fn is left anywhere
		if drop {
			inlinedAll[fn] = true
		}
		keep = append(keep, fn)
	}
	if len(inlinedAll) > 0 {
		still := map[*ssa.Function]bool{}
		for _, fn := range p.Funcs {
			if inlinedAll[fn] {
				continue
			}
			AllInstrs(fn, func(in ssa.Instruction) {
				if cc := CallCommon(in); cc != nil && !cc.IsInvoke() {
					if g, ok := cc.Value.(*ssa.Function); ok && inlinedAll[g] {
						still[g] = true
					}
				}
			})
		}
		keep = keep[:0]
		for _, fn := range p.Funcs {
			if inlinedAll[fn] && !still[fn] {
				continue
			}
			// anonymous functions of a dropped helper that were not moved stay (they were moved when single-site)
			keep = append(keep, fn)
		}
	}
	// closures whose only MakeClosure was inlined away no longer exist as functions
	refd := map[*ssa.Function]bool{}
	for _, fn := range keep {
		AllInstrs(fn, func(in ssa.Instruction) {
			for _, op := range in.Operands(nil) {
				if *op == nil {
					continue
				}
				if g, ok := (*op).(*ssa.Function); ok {
					refd[g] = true
				}
			}
		})
	}
	var keep2 []*ssa.Function
	for _, fn := range keep {
		if fn.Parent() != nil && !refd[fn] && fn.Synthetic == "" {
			gone := true
			// nested closures of a dropped closure were re-parented; keep those that are still referenced
			if gone {
				ssa.RemoveAnon(fn)
				continue
			}
		}
		keep2 = append(keep2, fn)
	}
	p.dropped = map[*ssa.Function]bool{}
	kept := map[*ssa.Function]bool{}
	for _, fn := range keep2 {
		kept[fn] = true
	}
	for _, fn := range p.Funcs {
		if !kept[fn] {
			p.dropped[fn] = true
		}
	}
	p.Funcs = keep2
	sort.Strings(p.Inlined)
	return nil
}

// Helpers lists (by QName) the functions eligible for inlining at level.
func (p *Prog) Helpers(level int) []string {
	q := *p
	q.listOnly = true
	q.Inlined = nil
	q.sums = map[sumKey]bool{}
	if err := q.inlineSet(level, nil); err != nil {
		return nil
	}
	return q.Inlined
}

// HelperCallees maps each helper name (as listed by Helpers) to the helper names its body calls statically.
func (p *Prog) HelperCallees(helpers []string) map[string][]string {
	isHelper := map[string]bool{}
	for _, h := range helpers {
		isHelper[h] = true
	}
	out := map[string][]string{}
	for _, fn := range p.Funcs {
		if fn.Parent() != nil {
			continue
		}
		name := p.QName(fn)
		for _, f := range WithAnon(fn) {
			AllInstrs(f, func(in ssa.Instruction) {
				call, ok := in.(*ssa.Call)
				if !ok || call.Call.IsInvoke() {
					return
				}
				g, ok := call.Call.Value.(*ssa.Function)
				if !ok {
					return
				}
				gn := p.QName(g)
				for _, cand := range []string{gn, gn + "@" + name} {
					if isHelper[cand] {
						out[name] = append(out[name], cand)
					}
				}
			})
		}
	}
	return out
}

// boundTarget: mc is a method value of a concrete receiver (closure over a bound-method wrapper): the method.
func boundTarget(mc *ssa.MakeClosure) *ssa.Function {
	w, ok := mc.Fn.(*ssa.Function)
	if !ok || !strings.Contains(w.Synthetic, "bound method wrapper") {
		return nil
	}
	var tgt *ssa.Function
	n := 0
	for _, b := range w.Blocks {
		for _, in := range b.Instrs {
			if c, ok := in.(*ssa.Call); ok {
				n++
				if !c.Call.IsInvoke() {
					tgt = c.Call.StaticCallee()
				}
			}
		}
	}
	if n != 1 {
		return nil
	}
	return tgt
}
