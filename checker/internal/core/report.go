package core

import (
	"encoding/json"
	"fmt"
	"os"
	"path/filepath"
	"sort"
	"strings"
	"time"
)

// Status of an obligation.
type Status string

const (
	Discharged Status = "discharged"
	Violated   Status = "violated"
	Undecided  Status = "undecided"
)

// Obligation is one instance of a rule on one construct.
type Obligation struct {
	Key    string   `json:"key"` // property/rule/function/construct - never a line number
	Rule   string   `json:"rule"`
	Status Status   `json:"status"`
	Pos    string   `json:"pos,omitempty"`
	Detail string   `json:"detail,omitempty"`
	Path   []string `json:"path,omitempty"`
	// NonTrivial: the decision required a path / flow / call-graph query.
	NonTrivial bool `json:"nontrivial,omitempty"`
	// Known: text of the matching entry of known_findings.json, if any.
	Known string `json:"known_finding,omitempty"`
}

// Ctx collects obligations for one property on one program.
type Ctx struct {
	P         *Prog
	Property  string
	Obs       []*Obligation
	Instances map[string]int // rule -> instances found
	Floors    map[string]int
	RuleText  map[string]string
	Notes     []string
	FuncsSeen map[string]bool
	CallSites int
	keys      map[string]int
	// Importing: the rule sets being evaluated on behalf of this context's property (importObligations); a rule
	// set that imports from one that imports from it is evaluated without that inner import
	Importing map[uintptr]bool
	// SkippedImport: an import inside this evaluation was left out because of a mutual import (the result then
	// depends on who asked and is not cached)
	SkippedImport bool
}

func NewCtx(p *Prog, property string) *Ctx {
	return &Ctx{P: p, Property: property, Instances: map[string]int{}, Floors: map[string]int{},
		RuleText: map[string]string{}, FuncsSeen: map[string]bool{}, keys: map[string]int{}}
}

// Rule registers the text of a rule (for evidence) and its vacuity floor.
func (c *Ctx) Rule(rule, text string, floor int) {
	c.RuleText[rule] = text
	c.Floors[rule] = floor
	if _, ok := c.Instances[rule]; !ok {
		c.Instances[rule] = 0
	}
}

// Instance counts one matched instance of a rule (for vacuity floors).
func (c *Ctx) Instance(rule string) { c.Instances[rule]++ }

func (c *Ctx) key(rule, construct string) string {
	k := c.Property + "/" + rule + "/" + construct
	c.keys[k]++
	if n := c.keys[k]; n > 1 {
		k = fmt.Sprintf("%s#%d", k, n)
	}
	return k
}

func (c *Ctx) add(rule, construct string, st Status, pos, detail string, path []string) *Obligation {
	o := &Obligation{Key: c.key(rule, construct), Rule: rule, Status: st, Pos: pos, Detail: detail, Path: path, NonTrivial: true}
	c.Obs = append(c.Obs, o)
	return o
}

// OK records a discharged obligation.
func (c *Ctx) OK(rule, construct, pos, detail string) *Obligation {
	return c.add(rule, construct, Discharged, pos, detail, nil)
}

// Bad records a violated obligation.
func (c *Ctx) Bad(rule, construct, pos, detail string, path ...string) *Obligation {
	return c.add(rule, construct, Violated, pos, detail, path)
}

// Unk records an undecided obligation (fails the check).
func (c *Ctx) Unk(rule, construct, pos, detail string) *Obligation {
	return c.add(rule, construct, Undecided, pos, detail, nil)
}

// Check is OK/Bad on a boolean.
func (c *Ctx) Check(ok bool, rule, construct, pos, okDetail, badDetail string, path ...string) bool {
	if ok {
		c.OK(rule, construct, pos, okDetail)
	} else {
		c.Bad(rule, construct, pos, badDetail, path...)
	}
	return ok
}

func (c *Ctx) Note(format string, a ...interface{}) {
	c.Notes = append(c.Notes, fmt.Sprintf(format, a...))
}

// KnownFindings is /verif/known_findings.json (read-only at run time).
type KnownFindings struct {
	Findings []struct {
		Property string `json:"property"`
		Key      string `json:"key"`
		What     string `json:"what"`
	} `json:"findings"`
	Fixed []struct {
		Property string `json:"property"`
		Commit   string `json:"commit"`
		What     string `json:"what"`
	} `json:"fixed"`
}

func LoadKnown(path string) (*KnownFindings, error) {
	kf := &KnownFindings{}
	b, err := os.ReadFile(path)
	if err != nil {
		if os.IsNotExist(err) {
			return kf, nil
		}
		return nil, err
	}
	if err := json.Unmarshal(b, kf); err != nil {
		return nil, fmt.Errorf("%s: %v", path, err)
	}
	return kf, nil
}

// Outcome of finishing a property run.
type Outcome struct {
	Violations []*Obligation
	Known      []*Obligation
	Vacuous    []string
}

// Finish applies floors and known findings.
func (c *Ctx) Finish(kf *KnownFindings) *Outcome {
	out := &Outcome{}
	rules := make([]string, 0, len(c.Floors))
	for r := range c.Floors {
		rules = append(rules, r)
	}
	sort.Strings(rules)
	for _, r := range rules {
		if c.Instances[r] < c.Floors[r] {
			msg := fmt.Sprintf("rule %s matched %d instance(s) < floor %d (vacuous)", r, c.Instances[r], c.Floors[r])
			out.Vacuous = append(out.Vacuous, msg)
			c.Obs = append(c.Obs, &Obligation{Key: c.Property + "/" + r + "/<floor>", Rule: r, Status: Violated, Detail: msg})
		}
	}
	known := map[string]string{}
	if kf != nil {
		for _, f := range kf.Findings {
			if f.Property == c.Property {
				known[f.Key] = f.What
			}
		}
	}
	for _, o := range c.Obs {
		if o.Status == Discharged {
			continue
		}
		if what, ok := known[o.Key]; ok && o.Status == Violated {
			o.Known = what
			out.Known = append(out.Known, o)
			continue
		}
		out.Violations = append(out.Violations, o)
	}
	return out
}

// Evidence is the schema-conformant evidence document.
type Evidence struct {
	PropertyID  string                 `json:"property_id"`
	Tier        string                 `json:"tier"`
	Seed        int                    `json:"seed"`
	Level       string                 `json:"level"`
	Coverage    map[string]interface{} `json:"coverage"`
	Assumptions []string               `json:"assumptions"`
	WallS       float64                `json:"wall_s"`
	Violations  int                    `json:"violations"`
}

// WriteEvidence writes evidence/<id>.json (and <id>.violations.json when needed).
func (c *Ctx) WriteEvidence(dir, tier string, seed int, out *Outcome, extra map[string]interface{}, explanation string, assumptions, trusted []string, start time.Time, cmd string) (string, error) {
	if err := os.MkdirAll(dir, 0o755); err != nil {
		return "", err
	}
	total, discharged, nontriv := 0, 0, 0
	distinct := map[string]bool{}
	for _, o := range c.Obs {
		total++
		if o.Status == Discharged {
			discharged++
		}
		if o.NonTrivial && !distinct[o.Key] {
			distinct[o.Key] = true
			nontriv++
		}
	}
	var samples []interface{}
	// sample: first obligation of every rule, plus all non-discharged
	seen := map[string]int{}
	for _, o := range c.Obs {
		if o.Status != Discharged || seen[o.Rule] < 2 {
			seen[o.Rule]++
			samples = append(samples, o)
		}
	}
	funcs := make([]string, 0, len(c.FuncsSeen))
	for f := range c.FuncsSeen {
		funcs = append(funcs, f)
	}
	sort.Strings(funcs)
	cov := map[string]interface{}{
		"explanation":            explanation,
		"obligations":            total,
		"discharged":             discharged,
		"evaluations":            total,
		"distinct_nontrivial":    nontriv,
		"rule":                   "one obligation per (rule, function, construct) instance found by role resolution over the type-checked SSA program; an obligation is non-trivial when deciding it needed a path, dominance, value-flow or call-graph query (all are; pure existence floors are reported separately under instances_per_rule)",
		"samples":                samples,
		"checker_cmd":            cmd,
		"trusted_base":           trusted,
		"instances_per_rule":     c.Instances,
		"floors":                 c.Floors,
		"rules":                  c.RuleText,
		"functions_analysed":     funcs,
		"functions_in_repo":      len(c.P.Funcs),
		"functions_note":         "every rule scans all functions_in_repo source functions (closures and generic instantiations included) for instances of its roles; functions_analysed lists the role-bearing functions whose paths were then searched",
		"packages_loaded":        len(c.P.Pkgs),
		"files_loaded":           c.P.Files,
		"call_sites":             c.CallSites,
		"known_findings_matched": keysOf(out.Known),
		"notes":                  c.Notes,
		"exhaustive":             true,
	}
	for k, v := range extra {
		cov[k] = v
	}
	ev := &Evidence{PropertyID: c.Property, Tier: tier, Seed: seed, Level: "other", Coverage: cov,
		Assumptions: assumptions, WallS: time.Since(start).Seconds(), Violations: len(out.Violations)}
	b, _ := json.MarshalIndent(ev, "", " ")
	file := filepath.Join(dir, c.Property+".json")
	if err := os.WriteFile(file, b, 0o644); err != nil {
		return "", err
	}
	vfile := filepath.Join(dir, c.Property+".violations.json")
	if len(out.Violations) > 0 {
		vb, _ := json.MarshalIndent(map[string]interface{}{"property": c.Property, "repo": c.P.Dir, "violations": out.Violations}, "", " ")
		os.WriteFile(vfile, vb, 0o644)
	} else {
		os.Remove(vfile)
	}
	return vfile, nil
}

func keysOf(obs []*Obligation) []string {
	r := []string{}
	for _, o := range obs {
		r = append(r, o.Key)
	}
	return r
}

// Summary prints one line per rule.
func (c *Ctx) Summary() string {
	type agg struct{ ok, bad, unk int }
	m := map[string]*agg{}
	var rules []string
	for _, o := range c.Obs {
		a := m[o.Rule]
		if a == nil {
			a = &agg{}
			m[o.Rule] = a
			rules = append(rules, o.Rule)
		}
		switch o.Status {
		case Discharged:
			a.ok++
		case Violated:
			a.bad++
		default:
			a.unk++
		}
	}
	sort.Strings(rules)
	var sb strings.Builder
	for _, r := range rules {
		a := m[r]
		fmt.Fprintf(&sb, "  %s %-4s instances=%d floor=%d discharged=%d violated=%d undecided=%d\n", c.Property, r, c.Instances[r], c.Floors[r], a.ok, a.bad, a.unk)
	}
	return sb.String()
}
