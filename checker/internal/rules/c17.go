package rules

import (
	"fmt"
	"go/token"
	"go/types"
	"sort"
	"strings"

	"golang.org/x/tools/go/ssa"
	"verif/checker/internal/core"
)

func init() {
	register(&Property{
		ID:    "C17",
		Title: "Transport wrappers preserve the byte stream for every buffering configuration",
		Explanation: "DECIDES (sibling agreement of the wrapper variants returned by NewTransport, for every buffer size because the rule is per type): " +
			"R1 one write sink per variant: a variant that owns a bufio.Writer sends Write, Writev (Buffers.WriteTo) and Flush to that same writer on every path, returns Flush's error, and never touches the raw connection in its write-side methods (also not through helpers or promoted methods of an embedded variant); a variant without one writes straight to the connection; " +
			"R2 one read source per variant: a variant that owns a bufio.Reader reads only from it; R3 NewTransport builds for (readSize>0, writeSize>0) the variant with exactly those buffers, each wrapping the conn parameter with the matching size parameter; " +
			"R4 (evidence only) which variants flush on Close; R5 the TCP transport embeds the wrapper and overrides none of Read/Write/Writev/Flush/Close. " +
			"DOES NOT DECIDE: bufio's own ordering (trusted), partial-write/error paths of the connection, deadlines.",
		Assumptions: []string{"bufio.Writer/Reader preserve order; net.Buffers.WriteTo(w) writes its elements in order"},
		Run:         runC17,
	})
}

// fieldPath: access path of a value from the method receiver, as field names ("rw.Writer").
func fieldPath(v ssa.Value, recv ssa.Value) (string, bool) {
	v = core.Unwrap(v)
	if v == recv {
		return "", true
	}
	var f *types.Var
	var base ssa.Value
	switch x := v.(type) {
	case *ssa.UnOp:
		if x.Op != token.MUL {
			return "", false
		}
		fa, ok := x.X.(*ssa.FieldAddr)
		if !ok {
			// load of spilled receiver
			if fl := core.ForwardLoad(x); fl != ssa.Value(x) {
				return fieldPath(fl, recv)
			}
			return "", false
		}
		f, base = core.FieldOf(fa)
	case *ssa.FieldAddr:
		f, base = core.FieldOf(x)
	case *ssa.Field:
		f, base = core.FieldOf(x)
	default:
		return "", false
	}
	if f == nil {
		return "", false
	}
	bp, ok := fieldPath(base, recv)
	if !ok {
		return "", false
	}
	if bp == "" {
		return f.Name(), true
	}
	return bp + "." + f.Name(), true
}

// bufPaths: field paths inside struct type t (following embedded structs and *bufio.ReadWriter) that hold
// a *bufio.Writer / *bufio.Reader.
func bufPaths(t types.Type, prefix string, depth int, writers, readers *[]string, conns *[]string) {
	if depth > 3 {
		return
	}
	if p, ok := t.(*types.Pointer); ok {
		t = p.Elem()
	}
	st, ok := t.Underlying().(*types.Struct)
	if !ok {
		return
	}
	for i := 0; i < st.NumFields(); i++ {
		f := st.Field(i)
		name := f.Name()
		if prefix != "" {
			name = prefix + "." + name
		}
		ft := f.Type()
		switch {
		case core.NamedIs(ft, "bufio", "Writer"):
			*writers = append(*writers, name)
		case core.NamedIs(ft, "bufio", "Reader"):
			*readers = append(*readers, name)
		case core.NamedIs(ft, "bufio", "ReadWriter"):
			*writers = append(*writers, name+".Writer")
			*readers = append(*readers, name+".Reader")
		case core.NamedIs(ft, "net", "Conn"):
			*conns = append(*conns, name)
		default:
			if f.Embedded() {
				bufPaths(ft, name, depth+1, writers, readers, conns)
			}
		}
	}
}

type wrapUse struct {
	kind string // bufw.Write, bufw.Flush, writeto.bufw, writeto.conn, conn.Write, conn.Read, bufr.Read, conn.load
	path string
	in   ssa.Instruction
}

func runC17(c *core.Ctx) {
	p := c.P
	c.Rule("R1", "one write sink per variant (Write, Writev, Flush agree; raw conn untouched when a bufio.Writer exists)", 4)
	c.Rule("R2", "one read source per variant", 4)
	c.Rule("R3", "NewTransport wires buffers to (readSize>0, writeSize>0) and to the conn/size parameters", 4)
	c.Rule("R5", "tcp transport overrides none of Read/Write/Writev/Flush/Close", 1)
	nt := p.PkgFunc("transport", "NewTransport")
	if nt == nil {
		c.Unk("anchors", "ANCHOR-UNRESOLVED", "", "transport.NewTransport not found")
		return
	}
	c.FuncsSeen[p.QName(nt)] = true
	// variants: concrete types returned
	type variant struct {
		t     *types.Named
		alloc *ssa.Alloc
		ret   *ssa.Return
	}
	var variants []variant
	core.AllInstrs(nt, func(in ssa.Instruction) {
		ret, ok := in.(*ssa.Return)
		if !ok || len(ret.Results) != 1 {
			return
		}
		mi, ok := ret.Results[0].(*ssa.MakeInterface)
		if !ok {
			c.Unk("R3", "NewTransport/return", p.InstrPos(ret), "returned value is not a freshly wrapped concrete variant")
			return
		}
		pt, ok := mi.X.Type().(*types.Pointer)
		if !ok {
			return
		}
		n, ok := types.Unalias(pt.Elem()).(*types.Named)
		if !ok {
			return
		}
		al, _ := mi.X.(*ssa.Alloc)
		variants = append(variants, variant{n, al, ret})
	})
	sort.Slice(variants, func(i, j int) bool { return variants[i].t.Obj().Name() < variants[j].t.Obj().Name() })

	for _, v := range variants {
		var ws, rs, cs []string
		bufPaths(v.t, "", 0, &ws, &rs, &cs)
		name := v.t.Obj().Name()
		if len(ws) > 1 || len(rs) > 1 {
			c.Unk("R1", "variant/"+name, "", fmt.Sprintf("variant owns more than one bufio writer/reader (%v / %v): sink not unique", ws, rs))
			continue
		}
		hasW, hasR := len(ws) == 1, len(rs) == 1
		c.Note("variant %s: writers=%v readers=%v conns=%v", name, ws, rs, cs)

		uses := func(m string) (fn *ssa.Function, promotedFromConn bool, us []wrapUse, embedPrefix string) {
			sel := types.NewMethodSet(types.NewPointer(v.t)).Lookup(v.t.Obj().Pkg(), m)
			if sel == nil {
				return nil, false, nil, ""
			}
			obj := sel.Obj().(*types.Func)
			// embedding prefix from T to the type declaring the method
			idx := sel.Index()
			t := types.Type(v.t)
			var parts []string
			for _, i := range idx[:len(idx)-1] {
				if pt, ok := t.(*types.Pointer); ok {
					t = pt.Elem()
				}
				f := t.Underlying().(*types.Struct).Field(i)
				parts = append(parts, f.Name())
				t = f.Type()
			}
			embedPrefix = strings.Join(parts, ".")
			fn = p.FuncOf(obj)
			if fn == nil || fn.Blocks == nil {
				return nil, true, nil, embedPrefix // interface method promoted from embedded net.Conn
			}
			c.FuncsSeen[p.QName(fn)] = true
			us = collectWrapUses(p, fn, fn.Params[0], embedPrefix, 0)
			return
		}
		full := func(path, prefix string) string {
			if prefix == "" {
				return path
			}
			if path == "" {
				return prefix
			}
			return prefix + "." + path
		}
		_ = full

		// ---- R1 write side
		c.Instance("R1")
		for _, m := range []string{"Write", "Writev", "Flush"} {
			fn, promoted, us, _ := uses(m)
			nm := "variant/" + name + "/" + m
			if hasW {
				if promoted || fn == nil {
					c.Bad("R1", nm, "", m+" of a variant that owns a bufio.Writer is promoted from the raw connection (bypasses / never flushes the buffered writer)")
					continue
				}
				// raw conn untouched
				rawTouched := ""
				sinkOK := false
				for _, u := range us {
					switch u.kind {
					case "conn.load", "conn.Write", "writeto.conn", "conn.ReadFrom":
						rawTouched = u.kind + " at " + p.InstrPos(u.in)
					}
				}
				wantKinds := map[string][]string{"Write": {"bufw.Write"}, "Writev": {"writeto.bufw", "bufw.Write", "bufw.ReadFrom"}, "Flush": {"bufw.Flush"}}[m]
				pred := func(x ssa.Instruction) bool {
					for _, u := range us {
						if u.in == x {
							for _, k := range wantKinds {
								if u.kind == k && (u.path == ws[0] || u.path == "?") {
									return true
								}
							}
						}
					}
					return false
				}
				q := &core.Query{P: p, Pred: func(x ssa.Instruction) bool { return pred(x) || wrapperHelperMust(p, x, wantKinds) }}
				bad, path := q.MustPassBetween(nil, fn.Blocks[0], nil, core.IsNormalReturn, nil)
				sinkOK = bad == nil
				c.Check(rawTouched == "", "R1", nm+"/raw-conn-untouched", p.Pos(fn.Pos()), "write-side method does not touch the raw connection", "a variant that owns a bufio.Writer touches the raw connection in "+m+" ("+rawTouched+"): buffered and direct writes can be reordered")
				c.Check(sinkOK, "R1", nm+"/same-sink", p.Pos(fn.Pos()), m+" goes to "+ws[0]+" on every path", m+" does not reach the variant's bufio.Writer ("+ws[0]+") on every path", p.PathString(path, bad)...)
				if m == "Flush" {
					// returns the flush error
					retOK := false
					core.AllInstrs(fn, func(x ssa.Instruction) {
						if ret, ok := x.(*ssa.Return); ok && len(ret.Results) == 1 {
							if call, ok := core.Unwrap(ret.Results[0]).(*ssa.Call); ok && pred(call) {
								retOK = true
							}
							if ld := core.ForwardLoad(ret.Results[0]); ld != nil {
								if call, ok := core.Unwrap(ld).(*ssa.Call); ok && pred(call) {
									retOK = true
								}
							}
						}
					})
					c.Check(retOK, "R1", nm+"/returns-error", p.Pos(fn.Pos()), "Flush returns the bufio.Writer's error", "Flush does not return the error of the buffered writer's Flush")
				}
			} else {
				// unbuffered write side: goes to the raw connection
				if m == "Flush" {
					continue
				}
				if promoted {
					c.OK("R1", nm, "", m+" promoted from the embedded connection")
					continue
				}
				if fn == nil {
					c.Bad("R1", nm, "", m+" not found on the variant")
					continue
				}
				good := false
				for _, u := range us {
					if (m == "Writev" && u.kind == "writeto.conn") || (m == "Write" && u.kind == "conn.Write") {
						good = true
					}
				}
				c.Check(good, "R1", nm, p.Pos(fn.Pos()), m+" goes straight to the connection", m+" of an unbuffered variant does not write to the connection")
			}
		}
		// ---- R2 read side
		c.Instance("R2")
		{
			fn, promoted, us, _ := uses("Read")
			nm := "variant/" + name + "/Read"
			if hasR {
				if promoted || fn == nil {
					c.Bad("R2", nm, "", "Read of a variant that owns a bufio.Reader is promoted from the raw connection (buffered bytes are skipped)")
				} else {
					raw := ""
					for _, u := range us {
						if u.kind == "conn.load" || u.kind == "conn.Read" {
							raw = u.kind + " at " + p.InstrPos(u.in)
						}
					}
					q := &core.Query{P: p, Pred: func(x ssa.Instruction) bool {
						for _, u := range us {
							if u.in == x && u.kind == "bufr.Read" && u.path == rs[0] {
								return true
							}
						}
						return false
					}}
					bad, path := q.MustPassBetween(nil, fn.Blocks[0], nil, core.IsNormalReturn, nil)
					c.Check(raw == "", "R2", nm+"/raw-conn-untouched", p.Pos(fn.Pos()), "Read does not touch the raw connection", "a variant that owns a bufio.Reader reads the raw connection ("+raw+"): bytes already buffered are overtaken or lost")
					c.Check(bad == nil, "R2", nm+"/same-source", p.Pos(fn.Pos()), "Read reads from "+rs[0]+" on every path", "Read does not read from the variant's bufio.Reader on every path", p.PathString(path, bad)...)
				}
			} else {
				if promoted {
					c.OK("R2", nm, "", "Read promoted from the embedded connection")
				} else if fn != nil {
					good := false
					for _, u := range us {
						if u.kind == "conn.Read" {
							good = true
						}
					}
					c.Check(good, "R2", nm, p.Pos(fn.Pos()), "Read goes to the connection", "Read of an unbuffered-read variant does not read the connection")
				}
			}
		}
		// ---- R3 wiring
		c.Instance("R3")
		rKnown, rVal := condKnown(nt, v.ret, 1)
		wKnown, wVal := condKnown(nt, v.ret, 2)
		nm := "NewTransport/arm/" + name
		okArm := true
		why := ""
		if rKnown && rVal != hasR {
			okArm, why = false, fmt.Sprintf("arm taken when readSize>0 is %v builds a variant whose buffered reader presence is %v", rVal, hasR)
		}
		if wKnown && wVal != hasW {
			okArm, why = false, fmt.Sprintf("arm taken when writeSize>0 is %v builds a variant whose buffered writer presence is %v", wVal, hasW)
		}
		if !rKnown && !wKnown {
			okArm, why = false, "arm conditions not recognised"
		}
		c.Check(okArm, "R3", nm+"/buffers-match-sizes", p.InstrPos(v.ret), fmt.Sprintf("reader=%v writer=%v matches the size tests (read known=%v, write known=%v)", hasR, hasW, rKnown, wKnown), "constructor wiring: "+why)
		// constructor arguments: bufio.NewReaderSize(conn, readSize) / NewWriterSize(conn, writeSize) reachable from this allocation
		if v.alloc != nil {
			argsOK, whyA := ctorArgsOK(nt, v.alloc, hasR, hasW)
			c.Check(argsOK, "R3", nm+"/ctor-args", p.InstrPos(v.ret), "buffers wrap the conn parameter with the matching size parameter; Conn field is the conn parameter", "constructor arguments: "+whyA)
		}
	}
	// all four combinations covered
	c.Instance("R3")
	// ---- R7 the wrappers treat the caller's batch as read-only and write it whole
	c.Rule("R7", "transport code neither re-slices the batch it is asked to write nor writes/appends into the caller's buffers", 1)
	nBatch := 0
	for _, fn := range p.Funcs {
		rel := p.PkgRel(fn)
		if rel != "transport" && !strings.HasPrefix(rel, "transport/") {
			continue
		}
		// parameters that are byte slices or batches of byte slices
		var batches, bufs []*ssa.Parameter
		for _, prm := range fn.Params {
			if sl, ok := prm.Type().Underlying().(*types.Slice); ok {
				if inner, ok := sl.Elem().Underlying().(*types.Slice); ok {
					if b, ok := inner.Elem().Underlying().(*types.Basic); ok && b.Kind() == types.Byte {
						batches = append(batches, prm)
					}
				} else if b, ok := sl.Elem().Underlying().(*types.Basic); ok && b.Kind() == types.Byte {
					bufs = append(bufs, prm)
				}
			}
		}
		if len(batches) == 0 && len(bufs) == 0 {
			continue
		}
		isRead := fn.Name() == "Read" // Read(p) fills p by contract
		nBatch++
		c.Instance("R7")
		bad, badAt := "", ssa.Instruction(nil)
		// the cell a parameter was spilled into (its address is taken for a pointer-receiver method)
		spillOf := func(o ssa.Value, prm *ssa.Parameter) bool {
			ld, ok := o.(*ssa.UnOp)
			if !ok || ld.Op != token.MUL {
				return false
			}
			al, ok := ld.X.(*ssa.Alloc)
			if !ok {
				return false
			}
			for _, ref := range *al.Referrers() {
				if st, ok := ref.(*ssa.Store); ok && st.Addr == ssa.Value(al) && core.Unwrap(st.Val) == ssa.Value(prm) {
					return true
				}
			}
			return false
		}
		fromBatch := func(v ssa.Value) bool {
			for _, o := range sliceOrigins(v) {
				for _, b := range batches {
					if core.Unwrap(core.ForwardLoad(o)) == ssa.Value(b) || spillOf(o, b) {
						return true
					}
				}
			}
			return false
		}
		// element of a batch: load of &batch[i], or the range value
		elemOfBatch := func(v ssa.Value) bool {
			for _, o := range sliceOrigins(v) {
				if ld, ok := o.(*ssa.UnOp); ok && ld.Op == token.MUL {
					if ia, ok := ld.X.(*ssa.IndexAddr); ok && fromBatch(ia.X) {
						return true
					}
				}
			}
			return false
		}
		fromBuf := func(v ssa.Value) bool {
			if isRead {
				return false
			}
			for _, o := range sliceOrigins(v) {
				for _, b := range bufs {
					if core.Unwrap(core.ForwardLoad(o)) == ssa.Value(b) || spillOf(o, b) {
						return true
					}
				}
			}
			return false
		}
		core.AllInstrs(fn, func(in ssa.Instruction) {
			switch x := in.(type) {
			case *ssa.Slice:
				if fromBatch(x.X) && (x.Low != nil || x.High != nil) {
					bad, badAt = "the batch is re-sliced: only part of it is written although no error is reported", in
				}
			case *ssa.Store:
				if ia, ok := x.Addr.(*ssa.IndexAddr); ok && (elemOfBatch(ia.X) || fromBuf(ia.X) || fromBatch(ia.X)) {
					bad, badAt = "a store into the caller's buffer / batch", in
				}
			}
			if args, ok := core.IsBuiltinCall(in, "append"); ok && len(args) > 0 && (elemOfBatch(args[0]) || fromBuf(args[0])) {
				bad, badAt = "append to a caller-owned slice (writes into its spare capacity)", in
			}
			if args, ok := core.IsBuiltinCall(in, "copy"); ok && len(args) > 0 && (elemOfBatch(args[0]) || fromBuf(args[0])) {
				bad, badAt = "copy into a caller-owned slice", in
			}
		})
		c.Check(bad == "", "R7", "batch-read-only/"+p.QName(fn), p.Pos(fn.Pos()), "the caller's buffers are only read, the batch is passed on whole", "transport code modifies or truncates what it was asked to write ("+bad+" at "+p.InstrPos(badAt)+"): the bytes on the wire differ from the payload, or part of an accepted batch is dropped silently")
	}
	if nBatch == 0 {
		c.Instance("R7")
		c.Unk("R7", "batch-read-only", "", "no transport function takes a byte slice or a batch (wrappers not recognised)")
	}

	// ---- R6 a variant's own Close always closes the connection it wraps
	c.Rule("R6", "a wrapper variant that declares Close closes the wrapped connection on every path (whatever its final flush returned)", 1)
	nClose := 0
	for _, v := range variants {
		sel := types.NewMethodSet(types.NewPointer(v.t)).Lookup(v.t.Obj().Pkg(), "Close")
		if sel == nil {
			continue
		}
		obj, _ := sel.Obj().(*types.Func)
		var cl *ssa.Function
		if obj != nil {
			cl = p.FuncOf(obj)
		}
		if cl == nil || cl.Blocks == nil || !p.InRepo(cl) {
			continue // promoted from the connection itself
		}
		nClose++
		c.Instance("R6")
		c.FuncsSeen[p.QName(cl)] = true
		q := &core.Query{P: p, MaxDepth: 2, Pred: func(x ssa.Instruction) bool {
			cc := core.CallCommon(x)
			if cc == nil || !cc.IsInvoke() || cc.Method.Name() != "Close" {
				return false
			}
			return core.NamedIs(cc.Value.Type(), "net", "Conn")
		}}
		bad, path := q.MustPassBetween(nil, cl.Blocks[0], nil, core.IsNormalReturn, nil)
		c.Check(bad == nil, "R6", "variant/"+v.t.Obj().Name()+"/Close/closes-conn", p.Pos(cl.Pos()), "every path of Close closes the wrapped connection", "the wrapper's Close can return without closing the wrapped connection (a failed final flush leaves the socket open: the read loop never ends, the peer is never told)", p.PathString(path, bad)...)
	}
	if nClose == 0 {
		c.Instance("R6")
		c.OK("R6", "variant/Close", "", "no variant declares its own Close")
	}
	c.Check(len(variants) >= 4, "R3", "NewTransport/variants", p.Pos(nt.Pos()), fmt.Sprintf("%d variants returned", len(variants)), fmt.Sprintf("NewTransport returns only %d variants (want one per buffering combination)", len(variants)))

	// ---- R5
	tr := p.Roles().TransportIface
	for _, st := range p.StructTypes("transport/tcp") {
		s := st.Underlying().(*types.Struct)
		embeds := false
		for i := 0; i < s.NumFields(); i++ {
			if s.Field(i).Embedded() && tr != nil && types.Identical(s.Field(i).Type(), tr) {
				embeds = true
			}
		}
		if !embeds {
			continue
		}
		c.Instance("R5")
		var over []string
		for i := 0; i < st.NumMethods(); i++ {
			switch st.Method(i).Name() {
			case "Read", "Write", "Writev", "Flush", "Close":
				over = append(over, st.Method(i).Name())
			}
		}
		c.Check(len(over) == 0, "R5", "tcp/"+st.Obj().Name(), "", "embeds the wrapper and overrides no stream method", fmt.Sprintf("tcp transport overrides %v of the embedded wrapper (R1-R3 no longer carry over)", over))
	}
}

// collectWrapUses classifies the stream-relevant calls in fn (and repo helpers it calls with the receiver's parts).
func collectWrapUses(p *core.Prog, fn *ssa.Function, recv ssa.Value, prefix string, depth int) []wrapUse {
	var out []wrapUse
	pathOf := func(v ssa.Value) string {
		pa, ok := fieldPath(v, recv)
		if !ok {
			return "?"
		}
		if prefix != "" {
			if pa == "" {
				return prefix
			}
			return prefix + "." + pa
		}
		return pa
	}
	core.AllInstrs(fn, func(in ssa.Instruction) {
		// loads of a net.Conn field of the receiver
		if ld, ok := in.(*ssa.UnOp); ok && ld.Op == token.MUL {
			if f, _ := core.FieldOf(ld); f != nil && core.NamedIs(f.Type(), "net", "Conn") {
				out = append(out, wrapUse{"conn.load", pathOf(ld), in})
			}
		}
		cc := core.CallCommon(in)
		if cc == nil {
			return
		}
		if cc.IsInvoke() {
			if core.NamedIs(cc.Value.Type(), "net", "Conn") || isConnLike(cc.Value.Type()) {
				switch cc.Method.Name() {
				case "Write", "Read", "ReadFrom":
					out = append(out, wrapUse{"conn." + cc.Method.Name(), pathOf(cc.Value), in})
				}
			}
			return
		}
		o := core.CalleeObj(in)
		if o == nil {
			return
		}
		rn := core.RecvNamed(o)
		switch {
		case rn != nil && rn.Pkg() != nil && rn.Pkg().Path() == "bufio" && rn.Name() == "Writer":
			out = append(out, wrapUse{"bufw." + o.Name(), pathOf(cc.Args[0]), in})
		case rn != nil && rn.Pkg() != nil && rn.Pkg().Path() == "bufio" && rn.Name() == "Reader":
			out = append(out, wrapUse{"bufr." + o.Name(), pathOf(cc.Args[0]), in})
		case rn != nil && rn.Pkg() != nil && rn.Pkg().Path() == "net" && rn.Name() == "Buffers" && o.Name() == "WriteTo":
			dst := core.Unwrap(cc.Args[1])
			switch {
			case core.NamedIs(dst.Type(), "bufio", "Writer"):
				out = append(out, wrapUse{"writeto.bufw", pathOf(dst), in})
			default:
				out = append(out, wrapUse{"writeto.conn", pathOf(dst), in})
			}
		}
	})
	return out
}

func isConnLike(t types.Type) bool {
	it, ok := t.Underlying().(*types.Interface)
	if !ok {
		return false
	}
	for i := 0; i < it.NumMethods(); i++ {
		if it.Method(i).Name() == "SetReadDeadline" {
			return true
		}
	}
	return false
}

// wrapperHelperMust: x calls a repo helper that on every path performs one of the wanted buffered-writer
// operations and never writes to a raw connection (helpers receive the writer as a parameter).
func wrapperHelperMust(p *core.Prog, x ssa.Instruction, want []string) bool {
	cc := core.CallCommon(x)
	if cc == nil || cc.IsInvoke() {
		return false
	}
	f := cc.StaticCallee()
	if f == nil || !p.InRepo(f) || f.Blocks == nil {
		return false
	}
	us := collectWrapUses(p, f, nil, "", 0)
	for _, u := range us {
		if strings.HasPrefix(u.kind, "conn.") || u.kind == "writeto.conn" {
			return false
		}
	}
	q := &core.Query{P: p, Pred: func(y ssa.Instruction) bool {
		for _, u := range us {
			if u.in == y {
				for _, k := range want {
					if u.kind == k {
						return true
					}
				}
			}
		}
		return false
	}}
	return q.Must(f, nil)
}

// paramPositive: v is the comparison `param#idx > 0` (normalised); returns (isCmp, trueMeansPositive).
func paramPositive(fn *ssa.Function, v ssa.Value, idx int) (bool, bool) {
	neg := false
	for {
		if u, ok := v.(*ssa.UnOp); ok && u.Op == token.NOT {
			v = u.X
			neg = !neg
			continue
		}
		break
	}
	b, ok := v.(*ssa.BinOp)
	if !ok {
		return false, false
	}
	x, y, op := b.X, b.Y, b.Op
	if core.ParamOf(fn, y) == idx {
		x, y = y, x
		switch op {
		case token.GTR:
			op = token.LSS
		case token.LSS:
			op = token.GTR
		case token.GEQ:
			op = token.LEQ
		case token.LEQ:
			op = token.GEQ
		}
	}
	if core.ParamOf(fn, x) != idx {
		return false, false
	}
	k, isC := core.ConstInt(y)
	if !isC {
		return false, false
	}
	switch {
	case op == token.GTR && k == 0, op == token.GEQ && k == 1, op == token.NEQ && k == 0:
		return true, !neg
	case op == token.LEQ && k == 0, op == token.LSS && k == 1, op == token.EQL && k == 0:
		return true, neg
	}
	return false, false
}

// condKnown: at block `at`, is `param#idx > 0` known true/false? Follows branch dominance and the
// phi form of short-circuit && / || conditions.
func condKnown(fn *ssa.Function, ret *ssa.Return, idx int) (known, val bool) {
	return condKnownAt(fn, ret.Block(), idx, 0)
}

func condKnownAt(fn *ssa.Function, at *ssa.BasicBlock, idx int, depth int) (bool, bool) {
	if depth > 4 {
		return false, false
	}
	for _, ifi := range core.Ifs(fn) {
		for bi, succ := range ifi.Block().Succs {
			if !core.EdgeDominates(ifi.Block(), succ, at) {
				continue
			}
			taken := bi == 0 // condition value on this edge
			cond := ifi.Cond
			if isCmp, truePos := paramPositive(fn, cond, idx); isCmp {
				return true, truePos == taken
			}
			// short-circuit phi
			if phi, ok := cond.(*ssa.Phi); ok {
				var live []int
				for i, e := range phi.Edges {
					if c, ok := e.(*ssa.Const); ok && c.Value != nil && (c.Value.String() == "true") != taken {
						continue // this incoming edge cannot produce `taken`
					}
					live = append(live, i)
				}
				if len(live) == 1 {
					i := live[0]
					if isCmp, truePos := paramPositive(fn, phi.Edges[i], idx); isCmp {
						if _, isConst := phi.Edges[i].(*ssa.Const); !isConst {
							return true, truePos == taken
						}
					}
					if k, v := condKnownAt(fn, phi.Block().Preds[i], idx, depth+1); k {
						return k, v
					}
				}
			}
		}
	}
	return false, false
}

// ctorArgsOK: in the block(s) initialising alloc, bufio.New{Reader,Writer}Size take (conn param, matching size param)
// and every net.Conn field is set from the conn parameter.
func ctorArgsOK(fn *ssa.Function, alloc *ssa.Alloc, hasR, hasW bool) (bool, string) {
	okR, okW, okConn := !hasR, !hasW, false
	why := ""
	// values stored into the fields of this literal, wherever they were computed
	var check func(v ssa.Value, d int)
	check = func(v ssa.Value, d int) {
		if d > 4 {
			return
		}
		call, ok := core.Unwrap(v).(*ssa.Call)
		if !ok || call.Call.IsInvoke() {
			return
		}
		cc := &call.Call
		switch {
		case core.IsPkgFunc(call, "bufio", "NewReadWriter"):
			check(cc.Args[0], d+1)
			check(cc.Args[1], d+1)
		case core.IsPkgFunc(call, "bufio", "NewReaderSize") || core.IsPkgFunc(call, "bufio", "NewReader"):
			if core.ParamOf(fn, cc.Args[0]) != 0 {
				why = "buffered reader does not wrap the conn parameter"
			} else if len(cc.Args) == 2 && core.ParamOf(fn, cc.Args[1]) != 1 {
				why = "buffered reader is not sized by readSize"
			} else {
				okR = true
			}
		case core.IsPkgFunc(call, "bufio", "NewWriterSize") || core.IsPkgFunc(call, "bufio", "NewWriter"):
			if core.ParamOf(fn, cc.Args[0]) != 0 {
				why = "buffered writer does not wrap the conn parameter"
			} else if len(cc.Args) == 2 && core.ParamOf(fn, cc.Args[1]) != 2 {
				why = "buffered writer is not sized by writeSize"
			} else {
				okW = true
			}
		}
	}
	// the literal and the local struct values copied into its (embedded) struct fields: `base := connBase{Conn: conn}`
	roots := map[ssa.Value]bool{alloc: true}
	for round := 0; round < 3; round++ {
		core.AllInstrs(fn, func(in ssa.Instruction) {
			st, ok := in.(*ssa.Store)
			if !ok {
				return
			}
			_, base := core.FieldOf(st.Addr)
			if base == nil {
				return
			}
			root := core.Unwrap(base)
			for d := 0; d < 4; d++ {
				fa, ok := root.(*ssa.FieldAddr)
				if !ok {
					break
				}
				root = core.Unwrap(fa.X)
			}
			if !roots[root] {
				return
			}
			if _, isStruct := st.Val.Type().Underlying().(*types.Struct); !isStruct {
				return
			}
			if ld, ok := core.Unwrap(st.Val).(*ssa.UnOp); ok && ld.Op == token.MUL {
				if b, ok := ld.X.(*ssa.Alloc); ok {
					roots[b] = true
				}
			}
		})
	}
	core.AllInstrs(fn, func(in ssa.Instruction) {
		st, ok := in.(*ssa.Store)
		if !ok {
			return
		}
		f, base := core.FieldOf(st.Addr)
		if f == nil {
			return
		}
		// fields of embedded (by value) structs belong to the same literal
		root := core.Unwrap(base)
		for d := 0; d < 4; d++ {
			fa, ok := root.(*ssa.FieldAddr)
			if !ok {
				break
			}
			root = core.Unwrap(fa.X)
		}
		if !roots[root] {
			return
		}
		if core.NamedIs(f.Type(), "net", "Conn") {
			if core.ParamOf(fn, st.Val) == 0 {
				okConn = true
			} else {
				why = "Conn field is not the conn parameter"
			}
			return
		}
		check(st.Val, 0)
	})
	if why != "" {
		return false, why
	}
	if !okR || !okW || !okConn {
		return false, fmt.Sprintf("reader wired=%v writer wired=%v conn wired=%v", okR, okW, okConn)
	}
	return true, ""
}
