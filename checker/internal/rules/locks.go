package rules

import (
	"go/ast"
	"go/types"

	"golang.org/x/tools/go/ssa"
	"verif/checker/internal/core"
)

// Lock context of an instruction, across the function boundaries that lock helpers introduce.
//
// lockKind(p, in, mu) is "W" (write lock), "R" (read lock) or "" for the mutex field mu:
//   - a Lock/RLock on mu in the same function dominates `in` with no Unlock on a path in between;
//   - `in` is inside a closure (or a method used as a method value) whose every use is being passed to a
//     lock helper - a function that calls its function parameter while holding mu - or being called at a
//     site that itself runs under the lock;
//   - `in` is inside an unexported function whose every use is a static call under the lock.

type fnUse struct {
	in   ssa.Instruction // the call / the instruction holding the closure
	kind string          // "call": static call of fn; "closure": v is a closure value of fn; "other"
	v    ssa.Value
}

var useIndex = map[*core.Prog]map[*ssa.Function][]fnUse{}

func usesOf(p *core.Prog, fn *ssa.Function) []fnUse {
	idx, ok := useIndex[p]
	if !ok {
		idx = map[*ssa.Function][]fnUse{}
		for _, f := range p.Funcs {
			core.AllInstrs(f, func(in ssa.Instruction) {
				if mc, ok := in.(*ssa.MakeClosure); ok {
					if g, ok := mc.Fn.(*ssa.Function); ok {
						t := unbound(g)
						idx[t] = append(idx[t], fnUse{in, "closure", mc})
					}
					return
				}
				cc := core.CallCommon(in)
				for _, op := range in.Operands(nil) {
					g, ok := (*op).(*ssa.Function)
					if !ok {
						continue
					}
					if cc != nil && !cc.IsInvoke() && cc.Value == ssa.Value(g) {
						if _, isCall := in.(*ssa.Call); isCall {
							idx[g] = append(idx[g], fnUse{in, "call", nil})
						} else {
							idx[g] = append(idx[g], fnUse{in, "other", nil}) // go / defer
						}
						continue
					}
					idx[g] = append(idx[g], fnUse{in, "closure", g})
				}
			})
		}
		useIndex[p] = idx
	}
	return idx[fn]
}

// intraLock: lock on mu held at in by an explicit Lock/RLock in in's own function.
func intraLock(in ssa.Instruction, mu *types.Var) string {
	fn := in.Parent()
	kind := ""
	core.AllInstrs(fn, func(x ssa.Instruction) {
		if _, isDefer := x.(*ssa.Defer); isDefer {
			return
		}
		k := ""
		if mutexCall(x, mu, "Lock") {
			k = "W"
		} else if mutexCall(x, mu, "RLock") {
			k = "R"
		}
		if k == "" || !core.Dominates(x, in) {
			return
		}
		t, _ := core.Search(x, nil, func(y ssa.Instruction) core.Action {
			if y == in {
				return core.Barrier
			}
			if _, isDefer := y.(*ssa.Defer); !isDefer && mutexCall(y, mu, "Unlock", "RUnlock") {
				t2, _ := core.Search(y, nil, func(z ssa.Instruction) core.Action {
					if z == in {
						return core.Target
					}
					if mutexCall(z, mu, "Lock", "RLock") {
						return core.Barrier
					}
					return core.Continue
				}, nil)
				if t2 != nil {
					return core.Target
				}
			}
			return core.Continue
		}, nil)
		if t == nil && (kind == "" || k == "W") {
			kind = k
		}
	})
	return kind
}

// lockHelperKind: callee calls its parameter #pi (a func value) only while holding mu.
func lockHelperKind(p *core.Prog, callee *ssa.Function, pi int, mu *types.Var, depth int) string {
	if callee == nil || callee.Blocks == nil || pi >= len(callee.Params) {
		return ""
	}
	prm := callee.Params[pi]
	res := ""
	n := 0
	bad := false
	for _, f := range core.WithAnon(callee) {
		core.AllInstrs(f, func(in ssa.Instruction) {
			cc := core.CallCommon(in)
			if cc == nil {
				return
			}
			if core.Unwrap(core.ForwardLoad(cc.Value)) != ssa.Value(prm) {
				// parameter forwarded to another helper
				for ai, a := range cc.Args {
					if core.Unwrap(core.ForwardLoad(a)) == ssa.Value(prm) {
						n++
						k := ""
						if g := cc.StaticCallee(); g != nil && depth < 3 {
							k = lockHelperKind(p, g, ai, mu, depth+1)
						}
						if k == "" {
							k = lockKindD(p, in, mu, depth+1)
						}
						if k == "" {
							bad = true
						} else if res == "" || k == "R" {
							res = k
						}
					}
				}
				return
			}
			n++
			if _, isCall := in.(*ssa.Call); !isCall {
				bad = true // go / defer of the parameter
				return
			}
			k := lockKindD(p, in, mu, depth+1)
			if k == "" {
				bad = true
			} else if res == "" || k == "R" {
				res = k
			}
		})
	}
	if n == 0 || bad {
		return ""
	}
	return res
}

func lockKind(p *core.Prog, in ssa.Instruction, mu *types.Var) string {
	if mu == nil || in == nil {
		return ""
	}
	return lockKindD(p, in, mu, 0)
}

func lockKindD(p *core.Prog, in ssa.Instruction, mu *types.Var, depth int) string {
	if k := intraLock(in, mu); k != "" {
		return k
	}
	if depth > 4 {
		return ""
	}
	fn := in.Parent()
	// named exported functions can be called by anyone
	if fn.Parent() == nil && (ast.IsExported(fn.Name()) || fn.Name() == "init" || fn.Name() == "main") {
		return ""
	}
	uses := usesOf(p, fn)
	if len(uses) == 0 {
		return ""
	}
	res := ""
	merge := func(k string) bool {
		if k == "" {
			return false
		}
		if res == "" || k == "R" {
			res = k
		}
		return true
	}
	for _, u := range uses {
		switch u.kind {
		case "call":
			if !merge(lockKindD(p, u.in, mu, depth+1)) {
				return ""
			}
		case "closure":
			refs := u.v.Referrers()
			if _, isFn := u.v.(*ssa.Function); isFn || refs == nil {
				// bare function value as an operand of u.in
				if !merge(closureUseKind(p, u.in, u.v, mu, depth)) {
					return ""
				}
				continue
			}
			if len(*refs) == 0 {
				return ""
			}
			for _, ref := range *refs {
				if !merge(closureUseKind(p, ref, u.v, mu, depth)) {
					return ""
				}
			}
		default:
			return ""
		}
	}
	return res
}

// closureUseKind: the closure value v is used by instruction ref; under which lock will its body run?
func closureUseKind(p *core.Prog, ref ssa.Instruction, v ssa.Value, mu *types.Var, depth int) string {
	cc := core.CallCommon(ref)
	if cc == nil {
		return ""
	}
	if _, isCall := ref.(*ssa.Call); !isCall {
		return "" // go / defer: runs later, outside the critical section
	}
	if cc.Value == v {
		return lockKindD(p, ref, mu, depth+1) // immediately invoked
	}
	for ai, a := range cc.Args {
		if a != v {
			continue
		}
		if g := cc.StaticCallee(); g != nil {
			if k := lockHelperKind(p, g, ai, mu, 0); k != "" {
				return k
			}
		}
	}
	return ""
}
