package rules

import (
	"fmt"
	"go/token"
	"go/types"
	"sort"
	"strings"

	"golang.org/x/tools/go/ssa"
	"verif/checker/internal/core"
)

func init() {
	register(&Property{
		ID:    "C12",
		Title: "No data races in the concurrently usable API",
		Explanation: "DECIDES a repository-specific field discipline (may-race analysis; a report is an access with no recognised protection): R1 for every field of the structs behind the concurrently usable API (channel, listener, bootstrap, holder, idle handlers, pool, tcp acceptor) that is written after construction, every access is atomic, or made with the struct's mutex held (directly or inside a closure run by a lock helper; writes need the write lock), or the field is itself a concurrency-safe type, or all plain accesses are confined to one owner (the sender for its batch slices; a single function); the fields the property excludes (attachment, pipeline links) are listed with that reason; " +
			"R3 every Lock is released on all exits (defer or on every path); R4 the wrappers' unsynchronised bufio writer is touched only under write-side exclusion (write lock / sender ownership) - a wrapper Close that flushes it is reported; " +
			"R5-R7 imports the structural rules whose violation is a race: sender writes only while owning the flag (C01/C06), idle-handler lock discipline (C20-R6), holder map swap under lock (C13-R3). " +
			"ALSO: variadic parameter slices are only read; fields written by a plain function on a struct it receives as an argument are not owner-confined. " +
			"ALSO (round 6): Structs holding a mutex or atomic state have pointer-receiver methods only. " +
			"DOES NOT DECIDE: races inside user handlers/transports or the std lib, feasibility in time of a reported pair, element-level races in maps/slices guarded at field level, captured-variable races of closures (none present; not analysed).",
		Assumptions: []string{"Go memory model; sync/atomic, sync.Mutex, sync.Map, sync.Pool, channels and context are race-free by contract"},
		Run:         runC12,
	})
}

// c12ExcludedReason: exclusions the property text itself makes, resolved structurally (not by identifier):
// the pipeline implementation and its handler contexts (mutating a pipeline while events flow is outside the
// contract) and the channel's attachment field (unsynchronised attachment access is outside the contract).
func c12ExcludedReason(p *core.Prog, n *types.Named, f *types.Var) string {
	r := p.Roles()
	if r.PipelineIface != nil && core.Implements(n, r.PipelineIface) {
		return "property text: mutating a pipeline while events flow is outside this contract"
	}
	if hc := lookupNamedT(r.Root, "HandlerContext"); hc != nil && core.Implements(n, hc) {
		return "property text: mutating a pipeline while events flow is outside this contract"
	}
	if f != nil && n == r.Chan {
		if att := lookupNamedT(r.Root, "Attachment"); att != nil && types.Identical(f.Type(), att) {
			return "property text: unsynchronised attachment access is outside this contract"
		}
	}
	return ""
}

func isSafeFieldType(t types.Type) bool {
	switch {
	case core.NamedIs(t, "sync", "Map"), core.NamedIs(t, "sync", "Pool"), core.NamedIs(t, "sync", "Mutex"), core.NamedIs(t, "sync", "RWMutex"), core.NamedIs(t, "sync", "Once"), core.NamedIs(t, "sync", "WaitGroup"):
		return true
	case core.NamedIs(t, "sync/atomic", "Value"), core.NamedIs(t, "sync/atomic", "Int32"), core.NamedIs(t, "sync/atomic", "Int64"), core.NamedIs(t, "sync/atomic", "Bool"), core.NamedIs(t, "sync/atomic", "Uint32"), core.NamedIs(t, "sync/atomic", "Pointer"):
		return true
	}
	if _, ok := t.Underlying().(*types.Chan); ok {
		return true
	}
	if s, ok := t.Underlying().(*types.Slice); ok {
		if core.NamedIs(s.Elem(), "sync", "Pool") {
			return true
		}
	}
	return false
}

type fieldAccess struct {
	in    ssa.Instruction
	fn    *ssa.Function
	write bool
	kind  string // plain, atomic, call(addr passed to a method)
}

func runC12(c *core.Ctx) {
	e, ok := newEv(c)
	if !ok {
		return
	}
	p := c.P
	c.Rule("R1", "field discipline: atomic, under the struct's mutex, concurrency-safe type, or owner-confined", 10)
	c.Rule("R3", "every Lock released on all exits", 3)
	c.Rule("R4", "wrappers' bufio writer only touched under write-side exclusion", 1)
	c.Rule("R5", "sender touches the transport / queue only while owning the flag (shared with C01/C06)", 1)
	c.Rule("R6", "idle-handler lock discipline (shared with C20-R6)", 2)
	c.Rule("R7", "holder map swapped and iterated race-free (shared with C13-R3)", 1)

	// target struct types
	type target struct {
		n   *types.Named
		rel string
	}
	var targets []target
	idle := map[*types.Named]*idleRoles{}
	for _, ir := range resolveIdle(p) {
		idle[ir.t] = ir
	}
	for _, rel := range []string{"", "transport/tcp", "utils/pool"} {
		for _, st := range p.StructTypes(rel) {
			targets = append(targets, target{st, rel})
		}
	}
	sort.Slice(targets, func(i, j int) bool { return targets[i].n.Obj().Name() < targets[j].n.Obj().Name() })

	for _, tg := range targets {
		tn := tg.n.Obj().Name()
		if why := c12ExcludedReason(p, tg.n, nil); why != "" {
			c.Note("type %s excluded: %s", tn, why)
			continue
		}
		var mu *types.Var
		for _, f := range fieldsOfNamed(tg.n) {
			if core.NamedIs(f.Type(), "sync", "Mutex") || core.NamedIs(f.Type(), "sync", "RWMutex") {
				if tg.n == p.Roles().Chan {
					continue // the write lock serialises synchronous writes, it guards no field
				}
				mu = f
			}
		}
		for _, f := range fieldsOfNamed(tg.n) {
			if why := c12ExcludedReason(p, tg.n, f); why != "" {
				c.Note("field %s.%s excluded: %s", tn, f.Name(), why)
				continue
			}
			if isSafeFieldType(f.Type()) {
				continue
			}
			acc := collectAccesses(p, f)
			writes := 0
			for _, a := range acc {
				if a.write {
					writes++
				}
			}
			if writes == 0 {
				continue // immutable after construction
			}
			c.Instance("R1")
			name := tn + "." + f.Name()
			// classify
			var unprotected []fieldAccess
			owners := map[*ssa.Function]bool{}
			nAtomic, nLocked, nPlain := 0, 0, 0
			for _, a := range acc {
				c.FuncsSeen[p.QName(core.Outermost(a.fn))] = true
				switch {
				case a.kind == "atomic":
					nAtomic++
				case a.kind == "plain":
					nPlain++
					lk := ""
					if ir, ok := idle[tg.n]; ok {
						lk = ir.lockOf(p, a.in)
					} else if mu != nil {
						lk = lockKind(p, a.in, mu)
					}
					if lk == "W" || (lk == "R" && !a.write) {
						nLocked++
						continue
					}
					owners[core.Outermost(a.fn)] = true
					unprotected = append(unprotected, a)
				default:
					unprotected = append(unprotected, a)
					owners[core.Outermost(a.fn)] = true
				}
			}
			switch {
			case len(unprotected) == 0 && nAtomic > 0 && nPlain == 0:
				c.OK("R1", name, "", fmt.Sprintf("all %d accesses atomic", nAtomic))
			case len(unprotected) == 0 && nAtomic == 0:
				c.OK("R1", name, "", fmt.Sprintf("all %d accesses under the struct's mutex", nLocked))
			case len(unprotected) == 0:
				c.Bad("R1", name, p.InstrPos(acc[0].in), fmt.Sprintf("field accessed both atomically (%d) and under a lock (%d): mixed protection does not order the accesses", nAtomic, nLocked))
			case nAtomic > 0:
				u := unprotected[0]
				c.Bad("R1", name, p.InstrPos(u.in), fmt.Sprintf("field is accessed atomically elsewhere but %s non-atomically in %s", rw(u.write), core.FName(u.fn)))
			case nLocked == 0 && singleShotOwners(p, tg.n, owners) != nil:
				o := singleShotOwners(p, tg.n, owners)
				c.OK("R1", name, "", "all post-construction accesses confined to "+core.FName(o)+" and helpers only it calls")
			case len(owners) == 1 && nLocked == 0:
				var o *ssa.Function
				for k := range owners {
					o = k
				}
				// single owner function: fine if that function is not itself run by several goroutines concurrently
				if o == e.r.Sender || !c12ConcurrentEntry(e, tg.n, o) {
					c.OK("R1", name, "", "all post-construction accesses confined to "+core.FName(o))
				} else {
					c.Bad("R1", name, p.InstrPos(unprotected[0].in), "field written without synchronisation in "+core.FName(o)+", which callers may run concurrently")
				}
			default:
				u := unprotected[0]
				var os []string
				for k := range owners {
					os = append(os, core.FName(k))
				}
				sort.Strings(os)
				c.Bad("R1", name, p.InstrPos(u.in), fmt.Sprintf("field %s without synchronisation in %s; unsynchronised accesses in %v, %d access(es) under the mutex", rw(u.write), core.FName(u.fn), os, nLocked))
			}
		}
	}

	// ---- R3 lock hygiene
	for _, fn := range p.Funcs {
		core.AllInstrs(fn, func(in ssa.Instruction) {
			if _, isDefer := in.(*ssa.Defer); isDefer {
				return
			}
			if !mutexCall(in, nil, "Lock", "RLock") {
				return
			}
			if rel := p.PkgRel(fn); rel != "." && rel != "transport/tcp" && rel != "utils/pool" {
				return
			}
			c.Instance("R3")
			fv, _ := core.FieldOf(core.CallCommon(in).Args[0])
			deferred := false
			core.AllInstrs(fn, func(x ssa.Instruction) {
				if _, isDefer := x.(*ssa.Defer); isDefer && mutexCall(x, fv, "Unlock", "RUnlock") {
					deferred = true
				}
				if ssa.WasDeferred(x) && mutexCall(x, fv, "Unlock", "RUnlock") {
					deferred = true // unlock of an inlined lock helper (deferred in the program as written)
				}
			})
			okr := deferred
			if !deferred {
				q := &core.Query{P: p, Pred: func(x ssa.Instruction) bool { return mutexCall(x, fv, "Unlock", "RUnlock") }}
				bad, _ := q.MustPassBetween(in, nil, nil, core.IsNormalReturn, nil)
				okr = bad == nil
				// nothing between Lock and Unlock may panic past the unlock: only plain loads/stores/map ops allowed
				if okr {
					core.Search(in, nil, func(x ssa.Instruction) core.Action {
						if mutexCall(x, fv, "Unlock", "RUnlock") {
							return core.Barrier
						}
						if cc := core.CallCommon(x); cc != nil {
							if _, isB := cc.Value.(*ssa.Builtin); !isB && cc.IsInvoke() {
								okr = false // call-out to user code while holding the lock without defer
							}
						}
						return core.Continue
					}, nil)
				}
			}
			c.Check(okr, "R3", "lock-released/"+core.FName(fn), p.InstrPos(in), "the lock is released on every exit", "a Lock is not released on every exit (return path without Unlock, or an interface call-out under a non-deferred lock)")
		})
	}

	// ---- R4 wrappers: Close touching the buffered writer
	nt := p.PkgFunc("transport", "NewTransport")
	if nt != nil {
		core.AllInstrs(nt, func(in ssa.Instruction) {
			ret, ok := in.(*ssa.Return)
			if !ok || len(ret.Results) != 1 {
				return
			}
			mi, ok := ret.Results[0].(*ssa.MakeInterface)
			if !ok {
				return
			}
			pt, ok := mi.X.Type().(*types.Pointer)
			if !ok {
				return
			}
			n, ok := types.Unalias(pt.Elem()).(*types.Named)
			if !ok {
				return
			}
			var ws, rs, cs []string
			bufPaths(n, "", 0, &ws, &rs, &cs)
			if len(ws) == 0 {
				return
			}
			c.Instance("R4")
			sel := types.NewMethodSet(types.NewPointer(n)).Lookup(n.Obj().Pkg(), "Close")
			// named by what the variant buffers, not by its (unexported, renameable) type name
			class := "write-buffered"
			if len(rs) > 0 {
				class = "read+write-buffered"
			}
			name := "wrapper-close-touches-write-sink/" + class
			if sel == nil {
				c.OK("R4", name, "", "no Close")
				return
			}
			fn := p.FuncOf(sel.Obj().(*types.Func))
			if fn == nil || fn.Blocks == nil {
				c.OK("R4", name, "", "Close promoted from the connection: does not touch the buffered writer")
				return
			}
			c.FuncsSeen[p.QName(fn)] = true
			touch := &core.Query{P: p, MaxDepth: 3, Pred: func(x ssa.Instruction) bool {
				o := core.CalleeObj(x)
				rn := core.RecvNamed(o)
				return rn != nil && rn.Pkg() != nil && rn.Pkg().Path() == "bufio" && rn.Name() == "Writer"
			}}
			c.Check(!touch.May(fn, nil), "R4", name, p.Pos(fn.Pos()), "Close does not touch the unsynchronised bufio.Writer",
				"the wrapper's Close uses the bufio.Writer; Channel.Close calls transport.Close without the write lock / sender ownership, so it races with a concurrent Write/Writev/Flush on the same writer")
		})
	}

	// ---- imports
	importObligations(c, runC06, "R5", func(o *core.Obligation) bool { return strings.Contains(o.Key, "sender-owns-flag") })
	importObligations(c, runC20, "R6", func(o *core.Obligation) bool { return o.Rule == "R6" })
	importObligations(c, runC13, "R7", func(o *core.Obligation) bool { return strings.Contains(o.Key, "holder/closeall") })
	importObligations(c, runC05, "R1", func(o *core.Obligation) bool { return strings.Contains(o.Key, "closed-access/") })
	importObligations(c, runC02, "R1", func(o *core.Obligation) bool { return strings.Contains(o.Key, "flag-access/") })
	// two senders at once share the batch and the unsynchronised transport writer
	importObligations(c, runC02, "R5", func(o *core.Obligation) bool { return o.Rule == "R8" })
	// the synchronous write path: write AND flush inside the write lock (the bufio writer is not safe otherwise)
	c.Rule("R8", "synchronous transport writes and their flush run under the write lock (shared with C01-R5)", 1)
	importObligations(c, runC01, "R8", func(o *core.Obligation) bool { return o.Rule == "R5" })
	// one pooled buffer handed to two owners is written by both
	c.Rule("R9", "a pooled buffer has one owner: not recycled while queued, not recycled twice (shared with C10-R1/R4/R6)", 2)
	importObligations(c, runC10, "R9", func(o *core.Obligation) bool {
		return o.Rule == "R1" || o.Rule == "R3" || o.Rule == "R4" || o.Rule == "R6"
	})
	importObligations(c, runC06, "R5", func(o *core.Obligation) bool { return o.Rule == "R2" })
	// a method with a value receiver works on a copy of the struct: its Lock locks nothing, its CAS elects nobody
	c.Rule("R11", "structs that hold a mutex or atomically accessed state have pointer-receiver methods only", 3)
	atomicField := map[*types.Var]bool{}
	for _, fn := range p.Funcs {
		core.AllInstrs(fn, func(in ssa.Instruction) {
			if a := core.AsAtomic(in); a != nil && a.Field != nil {
				atomicField[a.Field] = true
			}
		})
	}
	for _, tg := range targets {
		needs := ""
		for _, f := range fieldsOfNamed(tg.n) {
			switch {
			case core.NamedIs(f.Type(), "sync", "Mutex"), core.NamedIs(f.Type(), "sync", "RWMutex"), core.NamedIs(f.Type(), "sync", "Once"), core.NamedIs(f.Type(), "sync", "WaitGroup"):
				needs = "field " + f.Name() + " is a " + f.Type().String()
			case atomicField[f]:
				needs = "field " + f.Name() + " is accessed atomically"
			case strings.HasPrefix(f.Type().String(), "sync/atomic."):
				needs = "field " + f.Name() + " is a " + f.Type().String()
			}
		}
		if needs == "" || tg.n.NumMethods() == 0 {
			continue
		}
		c.Instance("R11")
		bad := ""
		for i := 0; i < tg.n.NumMethods(); i++ {
			m := tg.n.Method(i)
			sig, _ := m.Type().(*types.Signature)
			if sig == nil || sig.Recv() == nil {
				continue
			}
			if _, isPtr := sig.Recv().Type().(*types.Pointer); !isPtr {
				bad = m.Name()
			}
		}
		name := "pointer-receivers/" + tg.n.Obj().Name()
		if bad != "" {
			c.Bad("R11", name, p.Pos(tg.n.Method(0).Pos()), "method "+bad+" has a value receiver although "+needs+": every call works on its own copy of the lock / flag (no mutual exclusion, no single sender)")
		} else {
			c.OK("R11", name, "", "all methods have pointer receivers ("+needs+")")
		}
	}
	// concurrent calls of one operation may share their argument slices (`opts := ...; go Connect(url, opts...)`)
	c.Rule("R10", "a variadic parameter is the caller's slice: never appended to in place or written through", 5)
	for _, fn := range p.Funcs {
		if fn.Parent() != nil || !fn.Signature.Variadic() || len(fn.Params) == 0 {
			continue
		}
		vp := fn.Params[len(fn.Params)-1]
		c.Instance("R10")
		derives := func(v ssa.Value) bool {
			for d := 0; d < 6; d++ {
				v = core.Unwrap(v)
				if v == ssa.Value(vp) {
					return true
				}
				switch x := v.(type) {
				case *ssa.Slice:
					v = x.X
				case *ssa.Convert:
					v = x.X
				default:
					return false
				}
			}
			return false
		}
		var bad ssa.Instruction
		why := ""
		for _, f := range core.WithAnon(fn) {
			core.AllInstrs(f, func(in ssa.Instruction) {
				if bad != nil {
					return
				}
				if args, ok := core.IsBuiltinCall(in, "append"); ok && len(args) > 0 && derives(args[0]) {
					bad, why = in, "appends to it in place (spare capacity of the caller's backing array is written: two concurrent calls sharing one argument slice race and see each other's element)"
				}
				if st, ok := in.(*ssa.Store); ok {
					if ia, ok := st.Addr.(*ssa.IndexAddr); ok && derives(ia.X) {
						bad, why = in, "writes an element of it"
					}
				}
			})
		}
		name := "variadic/" + p.QName(fn)
		if bad != nil {
			c.Bad("R10", name, p.InstrPos(bad), "the function receives its variadic arguments as the caller's slice and "+why)
		} else {
			c.OK("R10", name, p.Pos(fn.Pos()), "the variadic slice is only read")
		}
	}
}

func rw(w bool) string {
	if w {
		return "written"
	}
	return "read"
}

// c12ConcurrentEntry: may fn (a method of type n) be run by several goroutines at once? Exported methods of
// the API types can; unexported helpers reached only from one function inherit that function's answer.
// isSingleShot: methods that are not meant to run twice on one receiver: Listener.Sync runs the accept loop once
// per listener; a duplicate call is rejected before it touches any field (resolved through the public interface).
func isSingleShot(p *core.Prog, n *types.Named, fn *ssa.Function) bool {
	li := lookupNamedT(p.TPkg(""), "Listener")
	return li != nil && core.Implements(n, li) && fn.Name() == "Sync"
}

func c12ConcurrentEntry(e *ev, n *types.Named, fn *ssa.Function) bool {
	if fn.Object() == nil {
		return true
	}
	if isSingleShot(e.p, n, fn) {
		return false
	}
	// the object reaches fn as a plain argument (fn is not a method of n): it belongs to fn's callers, and the
	// library calls such helpers from every Connect / accept goroutine with the one options struct the user gave
	recvIsN := false
	if rv := fn.Signature.Recv(); rv != nil {
		t := rv.Type()
		if pt, ok := t.(*types.Pointer); ok {
			t = pt.Elem()
		}
		recvIsN = types.Identical(t, n)
	}
	if !recvIsN {
		return true
	}
	if fn.Object().Exported() {
		// listener.Sync is documented single-shot ("duplicate call" guard) - still reachable concurrently with Close
		return true
	}
	return false
}

// collectAccesses: all loads/stores/address-uses of field f outside construction.
func collectAccesses(p *core.Prog, f *types.Var) []fieldAccess {
	var out []fieldAccess
	for _, fn := range p.Funcs {
		core.AllInstrs(fn, func(in ssa.Instruction) {
			switch x := in.(type) {
			case *ssa.FieldAddr:
				if fv, _ := core.FieldOf(x); fv != f {
					return
				}
				// (fields of nested by-value structs of) an object under construction
				root := x.X
				for d := 0; d < 4; d++ {
					fa, ok := root.(*ssa.FieldAddr)
					if !ok {
						break
					}
					root = fa.X
				}
				if al, ok := root.(*ssa.Alloc); ok && isConstructionAlloc(al) {
					return
				}
				if isOptionClosureParam(fn, x.X) {
					return // configuration applied by the constructor before the object is published
				}
				for _, ref := range core.AddrUses(x) {
					switch r := ref.(type) {
					case *ssa.Store:
						if r.Addr == ssa.Value(x) {
							out = append(out, fieldAccess{ref, fn, true, "plain"})
						} else {
							out = append(out, fieldAccess{ref, fn, true, "escape"})
						}
					case *ssa.UnOp:
						if r.Op == token.MUL {
							out = append(out, fieldAccess{ref, fn, false, "plain"})
						}
					case *ssa.DebugRef:
					default:
						if core.AsAtomic(ref) != nil {
							a := core.AsAtomic(ref)
							out = append(out, fieldAccess{ref, fn, a.Kind != "load", "atomic"})
						} else if cc := core.CallCommon(ref); cc != nil {
							o := core.CalleeObj(ref)
							if o != nil && o.Pkg() != nil && (o.Pkg().Path() == "sync" || o.Pkg().Path() == "sync/atomic") {
								out = append(out, fieldAccess{ref, fn, false, "atomic"})
							} else {
								out = append(out, fieldAccess{ref, fn, true, "escape"})
							}
						} else if _, isFA := ref.(*ssa.FieldAddr); isFA {
							// nested struct field: treat as plain read of the outer field
						} else if _, isIA := ref.(*ssa.IndexAddr); isIA {
							out = append(out, fieldAccess{ref, fn, false, "plain"})
						} else {
							out = append(out, fieldAccess{ref, fn, true, "escape"})
						}
					}
				}
			case *ssa.Field:
				if fv, _ := core.FieldOf(x); fv == f {
					out = append(out, fieldAccess{in, fn, false, "plain"})
				}
			}
		})
	}
	return out
}

// isConstructionAlloc: a composite literal / new(T) being initialised before it is published.
func isConstructionAlloc(al *ssa.Alloc) bool {
	if !al.Heap {
		return true // a local variable whose address does not escape: private to this activation
	}
	return al.Comment == "complit" || strings.HasPrefix(al.Comment, "new")
}

// isOptionClosureParam: base is the parameter of an anonymous function returned by a package-level
// function whose result type is a named func type ("functional option"), applied during construction.
func isOptionClosureParam(fn *ssa.Function, base ssa.Value) bool {
	if fn.Parent() == nil || fn.Parent().Parent() != nil {
		return false
	}
	if _, ok := base.(*ssa.Parameter); !ok {
		return false
	}
	res := fn.Parent().Signature.Results()
	if res.Len() != 1 {
		return false
	}
	n, ok := types.Unalias(res.At(0).Type()).(*types.Named)
	if !ok {
		return false
	}
	_, isFunc := n.Underlying().(*types.Signature)
	return isFunc
}

// singleShotOwners: all owner functions are a single-shot method of n or helpers called only from it.
func singleShotOwners(p *core.Prog, n *types.Named, owners map[*ssa.Function]bool) *ssa.Function {
	var root *ssa.Function
	for o := range owners {
		if isSingleShot(p, n, o) && o.Signature.Recv() != nil {
			root = o
		}
	}
	if root == nil {
		// the single-shot method may only delegate to the owners (Sync -> listen + acceptLoop)
		for i := 0; i < n.NumMethods(); i++ {
			if m := p.FuncOf(n.Method(i)); m != nil && m.Blocks != nil && isSingleShot(p, n, m) {
				root = m
			}
		}
	}
	if root == nil {
		return nil
	}
	for o := range owners {
		if o == root {
			continue
		}
		// every static call of o is in root
		n, okc := 0, true
		for _, fn := range p.Funcs {
			core.AllInstrs(fn, func(in ssa.Instruction) {
				if cc := core.CallCommon(in); cc != nil && !cc.IsInvoke() && cc.StaticCallee() == o {
					n++
					if core.Outermost(fn) != root {
						okc = false
					}
					if _, isGo := in.(*ssa.Go); isGo {
						okc = false
					}
				}
			})
		}
		if n == 0 || !okc {
			return nil
		}
	}
	return root
}
