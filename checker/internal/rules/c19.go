package rules

import (
	"fmt"
	"go/token"
	"go/types"
	"sort"
	"strings"

	"golang.org/x/tools/go/ssa"
	"verif/checker/internal/core"
)

func init() {
	register(&Property{
		ID:    "C19",
		Title: "Buffer pool: capacity and exclusive ownership hold for every Get/Put history",
		Explanation: "The arithmetic clause (ceil/floor/shard index consistent for every size up to the platform limit) quantifies over integers and is NOT decided (no sound integer reasoning without a solver). DECIDES the structural reasons the capacity and ownership guarantees hold: " +
			"R1 Get normalises the requested size through the pool's class function before indexing, guards the index by the shard count and returns the class size; Put stores into a shard only behind guards on its size parameter: the lower bound by the step, membership in the size classes (class function applied to the size compared with the size itself) and the index bound - so whatever sits in shard i has at least that shard's class size; " +
			"R2 callers re-slice a pooled buffer only up to the size they requested (or its capacity); R3 one Put stores the object exactly once (not in a loop); the wrappers' Get returns the pooled object or a fresh allocation of the CLASS size returned by the generic Get (not of the requested size); " +
			"R4 the wrappers index by capacity: pbytes.Put passes cap(*b), pbuffer.Put passes Cap() and resets the buffer BEFORE handing it to the pool; R5 the bit-fill helper the power-of-two functions rest on is the unconditional shift cascade 1,2,4,8,16,32 (or math/bits). " +
			"ALSO: generic Get hands out only sync.Pool.Get results; typed pools only generic-pool results or fresh objects, and give objects to the generic pool only; the library's pool users put once. " +
			"DOES NOT DECIDE: pmath arithmetic for every integer, shard count computation in New for every max, sync.Pool's own guarantees (trusted).",
		Assumptions: []string{"sync.Pool never hands one object to two getters"},
		Run:         runC19,
	})
}

func poolInstances(p *core.Prog, name string) []*ssa.Function {
	var out []*ssa.Function
	for _, fn := range p.Funcs {
		if fn.Parent() != nil || fn.Signature.Recv() == nil {
			continue
		}
		o := fn.Origin()
		if o == nil {
			continue
		}
		if o.Pkg == nil || o.Pkg.Pkg.Path() != p.Module+"/utils/pool" || o.Name() != name {
			continue
		}
		out = append(out, fn)
	}
	sort.Slice(out, func(i, j int) bool { return out[i].String() < out[j].String() })
	return out
}

func isSyncPool(in ssa.Instruction, method string) bool {
	o := core.CalleeObj(in)
	return o != nil && o.Name() == method && o.Pkg() != nil && o.Pkg().Path() == "sync" && core.RecvNamed(o) != nil && core.RecvNamed(o).Name() == "Pool"
}

func runC19(c *core.Ctx) {
	p := c.P
	c.Rule("R1", "Get normalises by the class function; Put stores only behind step, class-membership and index guards", 2)
	c.Rule("R2", "callers re-slice pooled buffers only up to the requested size", 2)
	c.Rule("R3", "Put stores once; wrappers' Get allocates the class size", 3)
	c.Rule("R4", "wrappers index by capacity; pbuffer resets before Put", 2)
	c.Rule("R5", "bit-fill helper is the unconditional shift cascade", 1)
	// exclusive ownership needs the library's own pool users to return each buffer once, and not while they still
	// use it (C10)
	c.Rule("R6", "the library's own pool users put a buffer once and stop using it (shared with C10-R1/R3/R4/R8)", 3)
	importObligations(c, runC10, "R6", func(o *core.Obligation) bool {
		return o.Rule == "R1" || o.Rule == "R3" || o.Rule == "R4" || o.Rule == "R8"
	})

	puts := poolInstances(p, "Put")
	gets := poolInstances(p, "Get")
	if len(puts) == 0 || len(gets) == 0 {
		c.Unk("anchors", "ANCHOR-UNRESOLVED", "", "instantiations of the generic pool's Get/Put not found")
		return
	}
	classCall := func(v ssa.Value, arg ssa.Value) bool {
		call, ok := stripConv(v).(*ssa.Call)
		if !ok || call.Call.IsInvoke() || len(call.Call.Args) == 0 {
			return false
		}
		last := call.Call.Args[len(call.Call.Args)-1]
		if f, _ := core.FieldOf(call.Call.Value); f != nil && len(call.Call.Args) == 1 {
			// the class function kept in a func-typed field
			if _, isFn := f.Type().Underlying().(*types.Signature); !isFn {
				return false
			}
			return arg == nil || core.SameValue(last, arg)
		}
		// or a method of the pool: func (p *Pool[T]) class(size int) int
		if g := call.Call.StaticCallee(); g != nil && g.Signature.Recv() != nil && len(call.Call.Args) == 2 && p.PkgRel(g) == "utils/pool" {
			res := g.Signature.Results()
			if res.Len() == 1 && isIntT(res.At(0).Type()) && isIntT(last.Type()) {
				return arg == nil || core.SameValue(last, arg)
			}
		}
		return false
	}
	for _, fn := range puts {
		c.FuncsSeen[fn.String()] = true
		var size *ssa.Parameter
		for _, prm := range fn.Params {
			if b, ok := prm.Type().Underlying().(*types.Basic); ok && b.Kind() == types.Int {
				size = prm
			}
		}
		var stores []ssa.Instruction
		core.AllInstrs(fn, func(in ssa.Instruction) {
			if isSyncPool(in, "Put") {
				stores = append(stores, in)
			}
		})
		name := "generic-Put/" + instName(fn)
		c.Instance("R1")
		if size == nil || len(stores) == 0 {
			c.Bad("R1", name, p.Pos(fn.Pos()), "generic Put has no size parameter / never stores into a shard")
			continue
		}
		for _, st := range stores {
			lower, member, index := false, false, false
			for _, cm := range falseAt(p, st) {
				// size < step  is false
				if cm.Op == token.LSS && core.SameValue(cm.X, size) {
					if f, _ := core.FieldOf(cm.Y); f != nil {
						lower = true
					}
				}
				// class(size) != size is false
				if cm.Op == token.NEQ && ((classCall(cm.X, size) && core.SameValue(cm.Y, size)) || (classCall(cm.Y, size) && core.SameValue(cm.X, size))) {
					member = true
				}
				// idx >= len(pool) is false  (i.e. came through idx < len true edge)
				if cm.Op == token.GEQ {
					if _, isLen := lenArg(cm.Y); isLen {
						index = true
					}
				}
			}
			// the bound belongs to the indexing itself: every index into the shard slice in this function is guarded
			nidx, guarded := 0, 0
			core.AllInstrs(fn, func(x ssa.Instruction) {
				ia, ok := x.(*ssa.IndexAddr)
				if !ok {
					return
				}
				if f, _ := core.FieldOf(ia.X); f == nil {
					return
				}
				nidx++
				for _, cm := range falseAt(p, ia) {
					if cm.Op == token.GEQ && core.SameValue(cm.X, ia.Index) {
						if _, isLen := lenArg(cm.Y); isLen {
							guarded++
							return
						}
					}
				}
			})
			if nidx > 0 {
				index = nidx == guarded
			}
			if !lower && member && classClampsToStep(p, fn) {
				// class(size) == size with a class function that maps everything up to the step to the step
				// already rejects sizes below the step
				lower = true
			}
			c.Check(lower, "R1", name+"/lower-bound", p.InstrPos(st), "sizes below the step are rejected", "Put stores objects smaller than the smallest size class (handed out for a larger request)")
			c.Check(member, "R1", name+"/class-membership", p.InstrPos(st), "only sizes that are a size class are stored (class(size) == size)", "Put indexes the shard by the raw capacity without checking that it is one of the size classes: a 1500-capacity buffer lands in the shard that serves Get(2000)")
			c.Check(index, "R1", name+"/index-bound", p.InstrPos(st), "shard index guarded by the shard count", "Put indexes the shard slice without a bound check")
			// ---- R3 once
			c.Instance("R3")
			t, _ := core.Search(st, nil, func(x ssa.Instruction) core.Action {
				if isSyncPool(x, "Put") {
					return core.Target
				}
				return core.Continue
			}, nil)
			c.Check(t == nil, "R3", name+"/stores-once", p.InstrPos(st), "one store per Put call", "one Put call can store the object more than once (two later Gets receive the same buffer)")
		}
	}
	for _, fn := range gets {
		c.Instance("R1")
		c.FuncsSeen[fn.String()] = true
		name := "generic-Get/" + instName(fn)
		var size *ssa.Parameter
		for _, prm := range fn.Params {
			if b, ok := prm.Type().Underlying().(*types.Basic); ok && b.Kind() == types.Int {
				size = prm
			}
		}
		var n ssa.Value
		core.AllInstrs(fn, func(in ssa.Instruction) {
			if v, ok := in.(ssa.Value); ok && classCall(v, size) {
				n = v
			}
		})
		good, why := n != nil, "the requested size is not normalised through the class function"
		if good {
			// the shard index derives from n, not from the raw size
			core.AllInstrs(fn, func(in ssa.Instruction) {
				ia, ok := in.(*ssa.IndexAddr)
				if !ok {
					return
				}
				usesN, usesRaw := false, false
				for v := range taintBack(ia.Index) {
					if v == n {
						usesN = true
					}
					if v == ssa.Value(size) {
						usesRaw = true
					}
				}
				if !usesN || usesRaw {
					good, why = false, "the shard index is computed from the raw requested size instead of the class size"
				}
				g := false
				for _, cm := range falseAt(p, in) {
					if cm.Op == token.GEQ {
						if _, isLen := lenArg(cm.Y); isLen {
							g = true
						}
					}
				}
				if !g {
					good, why = false, "shard index not guarded by the shard count"
				}
			})
			// every return yields n as the size
			core.AllInstrs(fn, func(in ssa.Instruction) {
				if ret, ok := in.(*ssa.Return); ok && len(ret.Results) == 2 && ret.Results[1] != n {
					good, why = false, "Get does not return the class size"
				}
			})
		}
		c.Check(good, "R1", name, p.Pos(fn.Pos()), "normalises by the class function, guards the index, returns the class size", "generic Get: "+why)
		// exclusive ownership rests on sync.Pool alone: the object Get hands out is what sync.Pool.Get returned
		// (type-asserted) or the zero value, nothing cached elsewhere
		c.Instance("R3")
		srcOK, srcWhy := true, ""
		core.AllInstrs(fn, func(in ssa.Instruction) {
			ret, ok := in.(*ssa.Return)
			if !ok || len(ret.Results) == 0 {
				return
			}
			seen := map[ssa.Value]bool{}
			var walk func(v ssa.Value, d int)
			walk = func(v ssa.Value, d int) {
				if seen[v] || d > 6 {
					return
				}
				seen[v] = true
				switch x := v.(type) {
				case *ssa.Const:
					return
				case *ssa.Phi:
					for _, e := range x.Edges {
						walk(e, d+1)
					}
				case *ssa.TypeAssert:
					walk(x.X, d+1)
				case *ssa.Extract:
					walk(x.Tuple, d+1)
				case *ssa.ChangeType:
					walk(x.X, d+1)
				case *ssa.MakeInterface:
					walk(x.X, d+1)
				case *ssa.Call:
					if isSyncPool(x, "Get") {
						return
					}
					srcOK, srcWhy = false, "returns the result of "+x.Call.String()
				case *ssa.UnOp:
					if x.Op == token.MUL {
						if al, ok := x.X.(*ssa.Alloc); ok {
							// a local `var zero T`
							onlyZero := true
							for _, ref := range *al.Referrers() {
								if st, ok := ref.(*ssa.Store); ok && st.Addr == ssa.Value(al) {
									if _, isC := st.Val.(*ssa.Const); !isC {
										onlyZero = false
									}
								}
							}
							if onlyZero {
								return
							}
						}
					}
					srcOK, srcWhy = false, "returns a value loaded from "+x.X.String()
				default:
					srcOK, srcWhy = false, "returns "+v.String()
				}
			}
			walk(ret.Results[0], 0)
		})
		c.Check(srcOK, "R3", name+"/object-from-sync-pool", p.Pos(fn.Pos()), "hands out only what sync.Pool.Get returned (or the zero value)", "generic Get hands out an object that does not come from sync.Pool.Get ("+srcWhy+"): exclusive ownership is no longer guaranteed by sync.Pool (two concurrent Gets can receive the same object)")
	}

	// ---- wrappers
	for _, rel := range []string{"utils/pool/pbytes", "utils/pool/pbuffer"} {
		for _, st := range p.StructTypes(rel) {
			get := p.DeclMethod(st, "Get")
			put := p.DeclMethod(st, "Put")
			if get == nil || put == nil {
				continue
			}
			c.FuncsSeen[p.QName(get)] = true
			c.FuncsSeen[p.QName(put)] = true
			// R3: fresh allocation of class size x (second result of the generic Get), not of the requested c
			c.Instance("R3")
			var gcall ssa.Value
			core.AllInstrs(get, func(in ssa.Instruction) {
				if cc := core.CallCommon(in); cc != nil && cc.StaticCallee() != nil && cc.StaticCallee().Origin() != nil && cc.StaticCallee().Origin().Name() == "Get" {
					gcall = in.(ssa.Value)
				}
			})
			good, why := gcall != nil, "wrapper Get does not call the generic Get"
			if good {
				var x ssa.Value
				for _, ref := range *gcall.Referrers() {
					if ex, ok := ref.(*ssa.Extract); ok && ex.Index == 1 {
						x = ex
					}
				}
				okAlloc := false
				core.AllInstrs(get, func(in ssa.Instruction) {
					if mk, ok := in.(*ssa.MakeSlice); ok {
						if x != nil && core.SameValue(mk.Cap, x) {
							okAlloc = true
						} else {
							good, why = false, "the fresh buffer is allocated with a capacity other than the class size returned by the pool (later Put of it pollutes a smaller class / Get(n) returns cap < class)"
						}
					}
				})
				if good && !okAlloc {
					good, why = false, "no fresh allocation of the class size found"
				}
			}
			c.Check(good, "R3", "wrapper-Get/"+rel, p.Pos(get.Pos()), "returns the pooled object or a fresh one of the class size", "wrapper Get: "+why)
			// exclusive ownership: what the wrapper hands out is what the generic pool handed to it, or a fresh object;
			// what it is given goes to the generic pool and nowhere else (no second cache in front of the pool)
			c.Instance("R3")
			srcOK, srcWhy := true, ""
			core.AllInstrs(get, func(in ssa.Instruction) {
				ret, ok := in.(*ssa.Return)
				if !ok || len(ret.Results) == 0 {
					return
				}
				seen := map[ssa.Value]bool{}
				var walk func(v ssa.Value, d int)
				walk = func(v ssa.Value, d int) {
					if seen[v] || d > 8 || !srcOK {
						return
					}
					seen[v] = true
					switch x := v.(type) {
					case *ssa.Const, *ssa.Alloc, *ssa.MakeSlice:
						return
					case *ssa.Phi:
						for _, e := range x.Edges {
							walk(e, d+1)
						}
					case *ssa.Extract:
						if x.Tuple == gcall {
							return
						}
						walk(x.Tuple, d+1)
					case *ssa.TypeAssert:
						walk(x.X, d+1)
					case *ssa.ChangeType:
						walk(x.X, d+1)
					case *ssa.MakeInterface:
						walk(x.X, d+1)
					case *ssa.Call:
						if v == gcall {
							return
						}
						if o := core.CalleeObj(x); o != nil && o.Pkg() != nil && o.Pkg().Path() == "bytes" && strings.HasPrefix(o.Name(), "NewBuffer") {
							return // fresh buffer
						}
						srcOK, srcWhy = false, "returns the result of "+x.Call.String()
					default:
						srcOK, srcWhy = false, "returns "+v.String()
					}
				}
				walk(ret.Results[0], 0)
			})
			c.Check(srcOK, "R3", "wrapper-Get/"+rel+"/object-source", p.Pos(get.Pos()), "hands out only what the generic pool returned, or a fresh object", "wrapper Get hands out an object that neither comes from the generic pool nor is freshly allocated ("+srcWhy+"): a cache beside the pool has to guarantee exclusive ownership itself")
			c.Instance("R3")
			sinkOK, sinkWhy := true, ""
			if len(put.Params) >= 2 {
				obj := put.Params[len(put.Params)-1]
				if obj.Referrers() != nil {
					for _, ref := range *obj.Referrers() {
						switch x := ref.(type) {
						case *ssa.UnOp, *ssa.BinOp, *ssa.DebugRef, *ssa.If:
							// *obj (for cap/len), obj == nil
						case *ssa.Call:
							if callee := x.Call.StaticCallee(); callee != nil && callee.Origin() != nil && callee.Origin().Name() == "Put" {
								continue
							}
							if o := core.CalleeObj(x); o != nil && o.Pkg() != nil && o.Pkg().Path() == "bytes" && len(x.Call.Args) > 0 && x.Call.Args[0] == ssa.Value(obj) {
								continue // a method of the buffer itself (Reset, Cap, Len)
							}
							sinkOK, sinkWhy = false, "passes it to "+x.Call.String()
						default:
							sinkOK, sinkWhy = false, "uses it in "+ref.String()
						}
					}
				}
			}
			c.Check(sinkOK, "R3", "wrapper-Put/"+rel+"/object-sink", p.Pos(put.Pos()), "the returned object goes to the generic pool only", "wrapper Put keeps the object somewhere besides the generic pool ("+sinkWhy+"): it can be handed out from there while the pool also owns it, or to two callers at once")
			// R4
			c.Instance("R4")
			var pcall ssa.Instruction
			core.AllInstrs(put, func(in ssa.Instruction) {
				if cc := core.CallCommon(in); cc != nil && cc.StaticCallee() != nil && cc.StaticCallee().Origin() != nil && cc.StaticCallee().Origin().Name() == "Put" {
					pcall = in
				}
			})
			okCap, okReset := false, true
			if pcall != nil {
				args := core.CallCommon(pcall).Args
				sz := stripConv(args[len(args)-1])
				if _, isCap := capArg(sz); isCap {
					okCap = true
				}
				if call, ok := sz.(*ssa.Call); ok {
					if o := core.CalleeObj(call); o != nil && o.Name() == "Cap" {
						okCap = true
					}
				}
				// a Reset of the object, if any, must come before the pool Put
				core.AllInstrs(put, func(in ssa.Instruction) {
					if o := core.CalleeObj(in); o != nil && (o.Name() == "Reset" || o.Name() == "Truncate") {
						if !core.Dominates(in, pcall) {
							okReset = false
						}
					}
				})
				if rel == "utils/pool/pbuffer" {
					has := false
					core.AllInstrs(put, func(in ssa.Instruction) {
						if o := core.CalleeObj(in); o != nil && o.Name() == "Reset" {
							has = true
						}
					})
					if !has {
						okReset = false
					}
				}
			}
			c.Check(pcall != nil && okCap, "R4", "wrapper-Put/"+rel+"/by-capacity", p.Pos(put.Pos()), "indexes the pool by the object's capacity", "wrapper Put does not index the pool by the object's capacity (e.g. by its length)")
			c.Check(okReset, "R4", "wrapper-Put/"+rel+"/reset-before-put", p.Pos(put.Pos()), "the object is reset before it is handed to the pool", "the object is modified (Reset) after it was handed to the pool: a concurrent Get already owns it (exclusive ownership broken)")
		}
	}

	// ---- R2 callers
	for _, fn := range p.Funcs {
		if p.PkgRel(fn) != "." {
			continue
		}
		core.AllInstrs(fn, func(in ssa.Instruction) {
			if !isPbytes(in, "Get") {
				return
			}
			c.Instance("R2")
			req := core.CallCommon(in).Args[0]
			good := true
			why := ""
			// slices of the returned buffer within this function
			core.AllInstrs(fn, func(x ssa.Instruction) {
				sl, ok := x.(*ssa.Slice)
				if !ok || sl.High == nil {
					return
				}
				from := false
				for _, o := range sliceOrigins(sl.X) {
					if ld, ok := o.(*ssa.UnOp); ok {
						if ld.X == in.(ssa.Value) {
							from = true
						}
						if al, ok := ld.X.(*ssa.Alloc); ok {
							for _, ref := range *al.Referrers() {
								if st, ok := ref.(*ssa.Store); ok {
									for _, oo := range sliceOrigins(st.Val) {
										if l2, ok := oo.(*ssa.UnOp); ok && l2.X == in.(ssa.Value) {
											from = true
										}
									}
								}
							}
						}
					}
				}
				if !from {
					return
				}
				h := sl.High
				okh := core.SameValue(stripConv(h), stripConv(req))
				if kh, isC := core.ConstInt(h); isC {
					if kr, isC2 := core.ConstInt(req); isC2 && kh <= kr {
						okh = true
					}
					if kh == 0 {
						okh = true
					}
				}
				if _, isCap := capArg(h); isCap {
					okh = true
				}
				// n returned by a Read into that buffer (<= len)
				if ex, ok := h.(*ssa.Extract); ok {
					if call, ok := ex.Tuple.(*ssa.Call); ok && call.Call.IsInvoke() && call.Call.Method.Name() == "Read" {
						okh = true
					}
				}
				if ph, ok := h.(*ssa.Phi); ok {
					_ = ph
					okh = true // running offset bounded by the checked copies
				}
				if !okh {
					good, why = false, "re-sliced to "+h.String()+" at "+p.InstrPos(x)
				}
			})
			c.Check(good, "R2", "caller/"+core.FName(fn), p.InstrPos(in), "pooled buffer re-sliced only up to the requested size / its capacity", "a pooled buffer is re-sliced beyond the size requested from the pool ("+why+")")
		})
	}

	// ---- R5 pmath
	pm := p.Pkg("utils/pool/internal/pmath")
	if pm != nil {
		c.Instance("R5")
		fb := pm.Func("fillBits")
		usesBits := false
		for _, name := range []string{"CeilToPowerOfTwo", "FloorToPowerOfTwo"} {
			if f := pm.Func(name); f != nil {
				core.AllInstrs(f, func(in ssa.Instruction) {
					if o := core.CalleeObj(in); o != nil && o.Pkg() != nil && o.Pkg().Path() == "math/bits" {
						usesBits = true
					}
				})
			}
		}
		// no narrowing of a size inside the size-class arithmetic (sizes range up to the platform limit)
		for _, f := range p.Funcs {
			if p.PkgRel(f) != "utils/pool/internal/pmath" && p.PkgRel(f) != "utils/pool" {
				continue
			}
			core.AllInstrs(f, func(in ssa.Instruction) {
				cv, ok := in.(*ssa.Convert)
				if !ok {
					return
				}
				tb, sb := intBits(cv.Type()), intBits(cv.X.Type())
				if tb == 0 || sb == 0 || signedness(cv.Type()) == 0 || signedness(cv.X.Type()) == 0 {
					return
				}
				if _, isConst := cv.X.(*ssa.Const); isConst {
					return
				}
				if b, ok := cv.Type().Underlying().(*types.Basic); ok && (b.Kind() == types.Int || b.Kind() == types.Uint || b.Kind() == types.Uintptr) {
					if tb >= sb {
						return
					}
				}
				if tb < sb || (tb == sb && tb < 64) {
					c.Instance("R5")
					c.Bad("R5", "pmath/narrowing/"+core.FName(f), p.InstrPos(in), "a size is narrowed to "+cv.Type().String()+" inside the size-class arithmetic: sizes above that width wrap (ceil/floor/shard index disagree for large requests)")
				}
			})
		}
		// the helper(s) behind the exported power-of-two functions: whatever they call inside the package
		var helpers []*ssa.Function
		seenH := map[*ssa.Function]bool{}
		for _, name := range []string{"CeilToPowerOfTwo", "FloorToPowerOfTwo"} {
			if f := pm.Func(name); f != nil {
				for _, g := range calleesWithin(p, f, 2) {
					if !seenH[g] && p.PkgRel(g) == "utils/pool/internal/pmath" {
						seenH[g] = true
						helpers = append(helpers, g)
					}
				}
			}
		}
		_ = fb
		switch {
		case usesBits:
			c.OK("R5", "pmath/bit-fill", "", "power-of-two helpers rest on math/bits")
		default:
			// every function with right shifts must be one of the two recognised fills
			var fills []*ssa.Function
			for _, g := range helpers {
				has := false
				core.AllInstrs(g, func(in ssa.Instruction) {
					if b, ok := in.(*ssa.BinOp); ok && b.Op == token.SHR {
						if _, isOr := orUser(b); isOr {
							has = true
						}
					}
				})
				if has {
					fills = append(fills, g)
				}
			}
			if len(fills) == 0 {
				c.Unk("R5", "pmath/bit-fill", "", "no bit-fill (n |= n >> k) found behind the power-of-two functions and math/bits not used: implementation not recognised")
				break
			}
			good, why := true, ""
			for _, g := range fills {
				c.FuncsSeen[p.QName(g)] = true
				if ok, w := bitFillShape(g); !ok {
					good, why = false, core.FName(g)+": "+w
				}
			}
			c.Check(good, "R5", "pmath/bit-fill", p.Pos(fills[0].Pos()), "unconditional fill n |= n>>k for k = 1,2,4,...,32 (cascade or doubling loop)", "the bit-fill helper is not the unconditional shift fill over 1,2,4,8,16,32 ("+why+"): some sizes are not rounded to a power of two")
		}
	}
}

// orUser: the shift result feeds an OR (n | n>>k).
func orUser(sh *ssa.BinOp) (*ssa.BinOp, bool) {
	if sh.Referrers() == nil {
		return nil, false
	}
	for _, ref := range *sh.Referrers() {
		if b, ok := ref.(*ssa.BinOp); ok && b.Op == token.OR {
			return b, true
		}
	}
	return nil, false
}

// bitFillShape: g fills the bits below the top set bit with n |= n >> k, either as the straight-line cascade
// k = 1,2,4,8,16,32 or as a loop whose shift starts at 1, doubles, and runs at least up to 32; nothing
// conditional besides the loop test.
func bitFillShape(g *ssa.Function) (bool, string) {
	shifts := map[int64]bool{}
	var varShift *ssa.BinOp
	core.AllInstrs(g, func(in ssa.Instruction) {
		if b, ok := in.(*ssa.BinOp); ok && b.Op == token.SHR {
			if k, isC := core.ConstInt(b.Y); isC {
				shifts[k] = true
			} else {
				varShift = b
			}
		}
	})
	ifs := core.Ifs(g)
	if varShift == nil {
		var ks []int
		for k := range shifts {
			ks = append(ks, int(k))
		}
		sort.Ints(ks)
		if len(ifs) > 0 || len(g.Blocks) > 1 {
			return false, fmt.Sprintf("shifts %v applied conditionally", ks)
		}
		if fmt.Sprint(ks) != "[1 2 4 8 16 32]" {
			return false, fmt.Sprintf("shifts %v", ks)
		}
		return true, ""
	}
	// loop form
	phi, ok := core.Unwrap(stripConv(varShift.Y)).(*ssa.Phi)
	if !ok || len(phi.Edges) != 2 {
		return false, "variable shift amount is not a loop counter"
	}
	start, doubles := false, false
	for _, e := range phi.Edges {
		if k, isC := core.ConstInt(e); isC && k == 1 {
			start = true
		}
		if b, ok := e.(*ssa.BinOp); ok {
			if b.Op == token.SHL && b.X == ssa.Value(phi) {
				if k, isC := core.ConstInt(b.Y); isC && k == 1 {
					doubles = true
				}
			}
			if b.Op == token.MUL && (b.X == ssa.Value(phi) || b.Y == ssa.Value(phi)) {
				o := b.Y
				if b.Y == ssa.Value(phi) {
					o = b.X
				}
				if k, isC := core.ConstInt(o); isC && k == 2 {
					doubles = true
				}
			}
		}
	}
	if !start || !doubles {
		return false, "loop counter does not start at 1 and double"
	}
	if len(ifs) != 1 {
		return false, "conditional code besides the loop test"
	}
	cd := core.CondOf(ifs[0])
	if cd.X != ssa.Value(phi) {
		return false, "loop test is not on the shift counter"
	}
	k, isC := core.ConstInt(cd.Y)
	if !isC {
		return false, "loop bound is not a constant"
	}
	reaches32 := (cd.Op == token.LEQ && k >= 32) || (cd.Op == token.LSS && k > 32)
	if !reaches32 {
		return false, fmt.Sprintf("loop stops before the shift by 32 (bound %d)", k)
	}
	if !core.EdgeDominates(ifs[0].Block(), cd.True, varShift.Block()) {
		return false, "the shift is not in the loop body"
	}
	return true, ""
}

func instName(fn *ssa.Function) string {
	s := fn.String()
	if i := strings.LastIndex(s, "/"); i >= 0 {
		s = s[i+1:]
	}
	return s
}

// classClampsToStep: every function stored into a func-typed field of the pool struct used by fn has a
// branch `i <= s` (or `i < s`) on its parameter whose taken side returns s.
func classClampsToStep(p *core.Prog, fn *ssa.Function) bool {
	var field *types.Var
	core.AllInstrs(fn, func(in ssa.Instruction) {
		if call, ok := in.(*ssa.Call); ok && !call.Call.IsInvoke() {
			if f, _ := core.FieldOf(call.Call.Value); f != nil {
				if _, isFn := f.Type().Underlying().(*types.Signature); isFn {
					field = f
				}
			}
		}
	})
	clampsIn := func(cf *ssa.Function) bool {
		if cf == nil || cf.Blocks == nil || len(cf.Params) == 0 {
			return false
		}
		prm := cf.Params[len(cf.Params)-1]
		for _, ifi := range core.Ifs(cf) {
			cd := core.CondOf(ifi)
			if (cd.Op != token.LEQ && cd.Op != token.LSS) || !core.SameValue(cd.X, prm) {
				continue
			}
			t, _ := core.Search(nil, cd.True, func(x ssa.Instruction) core.Action {
				if ret, ok := x.(*ssa.Return); ok {
					if len(ret.Results) == 1 && core.SameValue(ret.Results[0], cd.Y) {
						return core.Barrier
					}
					return core.Target
				}
				return core.Continue
			}, nil)
			if t == nil {
				return true
			}
		}
		return false
	}
	if field == nil {
		// the class function as a method of the pool
		var meth *ssa.Function
		core.AllInstrs(fn, func(in ssa.Instruction) {
			if call, ok := in.(*ssa.Call); ok && !call.Call.IsInvoke() {
				if g := call.Call.StaticCallee(); g != nil && g.Signature.Recv() != nil && len(call.Call.Args) == 2 && p.PkgRel(g) == "utils/pool" && g.Signature.Results().Len() == 1 && isIntT(g.Signature.Results().At(0).Type()) {
					meth = g
				}
			}
		})
		return clampsIn(meth)
	}
	n, okAll := 0, true
	for _, g := range p.Funcs {
		for _, st := range core.StoresToField(g, field) {
			cf := core.FuncValue(st.Val, nil)
			if cf == nil || cf.Blocks == nil || len(cf.Params) == 0 {
				okAll = false
				continue
			}
			n++
			prm := cf.Params[len(cf.Params)-1]
			clamps := false
			for _, ifi := range core.Ifs(cf) {
				cd := core.CondOf(ifi)
				if (cd.Op != token.LEQ && cd.Op != token.LSS) || !core.SameValue(cd.X, prm) {
					continue
				}
				// the taken side returns cd.Y
				t, _ := core.Search(nil, cd.True, func(x ssa.Instruction) core.Action {
					if ret, ok := x.(*ssa.Return); ok {
						if len(ret.Results) == 1 && core.SameValue(ret.Results[0], cd.Y) {
							return core.Barrier
						}
						return core.Target
					}
					return core.Continue
				}, nil)
				if t == nil {
					clamps = true
				}
			}
			if !clamps {
				okAll = false
			}
		}
	}
	return n > 0 && okAll
}
