package rules

import (
	"go/token"
	"go/types"
	"strings"

	"golang.org/x/tools/go/ssa"
	"verif/checker/internal/core"
)

func init() {
	register(&Property{
		ID:    "C18",
		Title: "Back-pressure: non-blocking mode never blocks; blocking mode is cancellable",
		Explanation: "DECIDES: R1 in every enqueueing function the wait-mode field selects between a blocking select (only on its true side) and a non-blocking select with a default arm (only on its false side); both offer exactly {caller-context Done, channel-context Done, enqueue}; the default arm returns the queue-full sentinel, which is returned from nowhere else; " +
			"R2 on the non-blocking side no blocking primitive (blocking select, bare channel operation, mutex lock, sleep, wait) is reachable, directly or in go-netty callees; " +
			"R3 the caller-context state listens on Done() of the context parameter, Ctx* entry points pass their own context down on the queued branch and the others pass context.Background(); the two Done states return an error and enqueue nothing (C01-R2 / C11-R3); " +
			"R4 the queue is created with the configured size parameter as its capacity and the sender's batch is bounded by a slice capacity derived from the same parameter; " +
			"R5 synchronous Ctx* writes arm the transport write deadline from the context before writing and reset it on exit; R6 (with C05-R2) the close error is published before the context is cancelled, so a writer woken by Close sees it. " +
			"ALSO: every Executor starts its action with go on every path and never runs it in Exec's frame; Shutdown cancels before closing channels; the failed sender releases the flag before closing. " +
			"ALSO (round 6): A select arm woken by a context's Done that reports a context's Err reports the same context's. " +
			"DOES NOT DECIDE: promptness of wake-ups, fairness among blocked writers, cancellation without deadline on synchronous channels (not interruptible by design).",
		Assumptions: []string{"select semantics of Go: default is taken only when no other case is ready", "Executor.Exec does not block"},
		Run:         runC18,
	})
}

func (e *ev) untilWriteEdges(fn *ssa.Function) (trueE, falseE map[edgeKey]bool, ifs []*ssa.If) {
	trueE, falseE = map[edgeKey]bool{}, map[edgeKey]bool{}
	for _, ifi := range core.Ifs(fn) {
		cd := core.CondOf(ifi)
		if cd.Op == token.ILLEGAL && e.isField(cd.X, e.r.UntilWrite) {
			trueE[edgeKey{ifi.Block(), cd.True}] = true
			falseE[edgeKey{ifi.Block(), cd.False}] = true
			ifs = append(ifs, ifi)
		}
	}
	return
}

func mayBlockInstr(in ssa.Instruction) bool {
	switch x := in.(type) {
	case *ssa.Select:
		return x.Blocking
	case *ssa.Send:
		return true
	case *ssa.UnOp:
		return x.Op == token.ARROW
	}
	if core.IsPkgFunc(in, "time", "Sleep") {
		return true
	}
	if o := core.CalleeObj(in); o != nil && o.Pkg() != nil && o.Pkg().Path() == "sync" {
		switch o.Name() {
		case "Lock", "RLock", "Wait":
			return true
		}
	}
	return false
}

func runC18(c *core.Ctx) {
	e, ok := newEv(c)
	if !ok {
		return
	}
	p, r := c.P, e.r
	c.Rule("R1", "wait-mode field selects between a blocking and a non-blocking select with the same three states; default returns the queue-full sentinel", 2)
	c.Rule("R2", "nothing on the non-blocking side can wait", 1)
	c.Rule("R3", "the caller's context reaches the select; Ctx* entry points pass their own context", 4)
	c.Rule("R4", "queue capacity = configured size; batch bounded by a capacity derived from it", 1)
	c.Rule("R5", "synchronous Ctx* writes arm and reset the write deadline", 2)
	c.Rule("R6", "close error published before the context is cancelled (shared with C05-R2)", 1)
	if r.UntilWrite == nil {
		c.Unk("anchors", "ANCHOR-UNRESOLVED", "", "wait-mode (bool) field of the channel not resolved")
		return
	}
	noSpace := lookupGlobal(p, "", "ErrAsyncNoSpace")

	for _, E := range r.Enqueuers {
		c.FuncsSeen[p.QName(E)] = true
		trueE, falseE, modeIfs := e.untilWriteEdges(E)
		sels := e.sendSelects(E)
		if len(modeIfs) == 0 {
			c.Instance("R1")
			c.Bad("R1", core.FName(E)+"/mode-branch", p.Pos(E.Pos()), "the enqueueing function does not branch on the wait-mode field")
			continue
		}
		nb, bl := 0, 0
		for si, sinfo := range sels {
			c.Instance("R1")
			name := core.FName(E) + "/select#" + itoa(si+1)
			// which side of the mode branch?
			onTrue, onFalse := false, false
			for k := range trueE {
				if core.EdgeDominates(k[0], k[1], sinfo.Sel.Block()) {
					onTrue = true
				}
			}
			for k := range falseE {
				if core.EdgeDominates(k[0], k[1], sinfo.Sel.Block()) {
					onFalse = true
				}
			}
			if sinfo.Sel.Blocking {
				bl++
				c.Check(onTrue, "R1", name+"/blocking-only-when-configured", p.InstrPos(sinfo.Sel), "the blocking enqueue runs only when the wait-mode field is true",
					"a blocking enqueue is reachable when the channel is not configured to wait (a non-blocking-mode write can park waiting for queue space)")
			} else {
				nb++
				c.Check(onFalse, "R1", name+"/nonblocking-only-when-configured", p.InstrPos(sinfo.Sel), "the non-blocking enqueue runs only when the wait-mode field is false",
					"the non-blocking enqueue (with default arm) is reachable in blocking mode (a blocking-mode write fails with queue-full instead of waiting)")
				// default arm returns the sentinel, count 0
				good := false
				if sinfo.Default != nil {
					good = true
					isSentinel := func(v ssa.Value) bool {
						ld, isLoad := core.Unwrap(v).(*ssa.UnOp)
						return isLoad && noSpace != nil && ld.X == ssa.Value(noSpace)
					}
					core.SearchAssume(nil, sinfo.Default, func(x ssa.Instruction) core.Action {
						if ret, ok := x.(*ssa.Return); ok {
							// a merged exit returns a φ: the values it can carry on paths from this arm
							for _, last := range phiEdgesFrom(ret.Results[len(ret.Results)-1], sinfo.Default, nil) {
								if !isSentinel(last) {
									good = false
								}
							}
							if len(ret.Results) > 1 {
								for _, first := range phiEdgesFrom(ret.Results[0], sinfo.Default, nil) {
									if k, isC := core.ConstInt(first); !isC || k != 0 {
										good = false
									}
								}
							}
							return core.Barrier
						}
						return core.Continue
					}, nil, isSentinel) // the sentinel is a package-level error value: not nil
				}
				c.Check(good, "R1", name+"/default-returns-queue-full", p.InstrPos(sinfo.Sel), "the default arm returns (0, ErrAsyncNoSpace)", "the default arm of the non-blocking enqueue does not return (0, queue-full sentinel)")
			}
			// three states
			var hasCaller, hasChan, hasSend int
			for _, st := range sinfo.States {
				switch {
				case st.Send != nil && e.isField(st.Chan, r.WriteQueue):
					hasSend++
				case st.Dir == types.RecvOnly && e.isCtxDone(st.Chan):
					hasChan++
				case st.Dir == types.RecvOnly && doneReceiver(st.Chan) != nil:
					hasCaller++
				}
			}
			c.Check(hasCaller == 1 && hasChan == 1 && hasSend == 1 && len(sinfo.States) == 3, "R1", name+"/states", p.InstrPos(sinfo.Sel),
				"offers caller-context Done, channel-context Done and the enqueue", "the enqueue select does not offer exactly {caller-context Done, channel-context Done, enqueue}: a waiting write cannot be cancelled / woken by Close")
		}
		c.Check(nb >= 1 && bl >= 1, "R1", core.FName(E)+"/both-modes", p.Pos(E.Pos()), "one blocking and one non-blocking enqueue", "the enqueueing function lacks a blocking or a non-blocking enqueue")
		// plain sends on the queue outside a select are blocking and uncancellable
		core.AllInstrs(E, func(in ssa.Instruction) {
			if s, ok := in.(*ssa.Send); ok && e.queueSend(s) {
				c.Instance("R1")
				c.Bad("R1", core.FName(E)+"/bare-send", p.InstrPos(in), "bare send on the write queue: blocks without observing either context")
			}
		})

		// ---- R2: non-blocking side cannot wait
		c.Instance("R2")
		blk := &core.Query{P: p, Pred: mayBlockInstr, MaxDepth: 4}
		tgt, path := core.Search(nil, E.Blocks[0], func(x ssa.Instruction) core.Action {
			if _, isDefer := x.(*ssa.Defer); isDefer {
				return core.Continue
			}
			if blk.InstrMay(x, nil) {
				return core.Target
			}
			return core.Continue
		}, func(a, b *ssa.BasicBlock) bool { return !trueE[edgeKey{a, b}] })
		c.Check(tgt == nil, "R2", core.FName(E)+"/nonblocking-side-never-waits", p.Pos(E.Pos()), "no blocking primitive reachable when the wait-mode field is false",
			"a blocking primitive is reachable on the non-blocking-mode path of the enqueue", p.PathString(path, tgt)...)

		// ---- R3a: caller state listens on the ctx parameter
		ctxIdx := -1
		for i, prm := range E.Params {
			if core.NamedIs(prm.Type(), "context", "Context") {
				ctxIdx = i
			}
		}
		for si, sinfo := range sels {
			for _, st := range sinfo.States {
				if st.Dir != types.RecvOnly || e.isCtxDone(st.Chan) {
					continue
				}
				c.Instance("R3")
				rc := doneReceiver(st.Chan)
				c.Check(rc != nil && ctxIdx >= 0 && core.ParamOf(E, rc) == ctxIdx, "R3", core.FName(E)+"/select#"+itoa(si+1)+"/caller-context", p.InstrPos(sinfo.Sel),
					"the caller-context state is Done() of the function's context parameter", "the caller-context state does not listen on the context parameter handed in by the caller")
			}
		}
	}
	// callers of every ctx-forwarding function: Ctx* pass own ctx; others pass context.Background()
	for _, E := range e.ctxForwarders() {
		ctxIdx := -1
		for i, prm := range E.Params {
			if core.NamedIs(prm.Type(), "context", "Context") {
				ctxIdx = i
			}
		}
		for _, caller := range p.Funcs {
			core.AllInstrs(caller, func(in ssa.Instruction) {
				cc := core.CallCommon(in)
				if cc == nil || cc.IsInvoke() || cc.StaticCallee() != E || ctxIdx < 0 {
					return
				}
				c.Instance("R3")
				c.CallSites++
				arg := cc.Args[ctxIdx]
				callerCtx := -1
				for i, prm := range caller.Params {
					if core.NamedIs(prm.Type(), "context", "Context") {
						callerCtx = i
					}
				}
				name := "ctx-arg/" + core.FName(caller) + "->" + core.FName(E)
				if callerCtx >= 0 {
					c.Check(core.ParamOf(caller, arg) == callerCtx, "R3", name, p.InstrPos(in), "passes its own context parameter", "a context-taking write method does not pass its own context to the enqueue (cancellation / deadline ignored while waiting)")
				} else {
					isBg := false
					if call, ok := core.Unwrap(arg).(*ssa.Call); ok && (core.IsPkgFunc(call, "context", "Background") || core.IsPkgFunc(call, "context", "TODO")) {
						isBg = true
					}
					c.Check(isBg, "R3", name, p.InstrPos(in), "passes context.Background()", "a write method without context parameter passes something other than context.Background() to the enqueue")
				}
			})
		}
	}
	// R3b: context-taking exported methods of the channel enqueue on the queued branch with their own ctx on every path
	for _, fn := range p.Funcs {
		if !e.isChanMethod(fn) || fn.Parent() != nil || !fn.Object().Exported() {
			continue
		}
		ctxIdx := -1
		for i, prm := range fn.Params {
			if core.NamedIs(prm.Type(), "context", "Context") {
				ctxIdx = i
			}
		}
		if ctxIdx < 0 {
			continue
		}
		c.Instance("R3")
		c.FuncsSeen[p.QName(fn)] = true
		isEnq := func(x ssa.Instruction) bool {
			cc := core.CallCommon(x)
			if cc == nil || cc.IsInvoke() {
				return false
			}
			for _, E := range e.ctxForwarders() {
				if cc.StaticCallee() == E {
					for i, prm := range E.Params {
						if core.NamedIs(prm.Type(), "context", "Context") && i < len(cc.Args) && core.ParamOf(fn, cc.Args[i]) == ctxIdx {
							return true
						}
					}
				}
			}
			return false
		}
		q := &core.Query{P: p, Pred: isEnq}
		// start from the queue != nil edges
		bad := false
		var path []*ssa.BasicBlock
		var badAt ssa.Instruction
		for _, ifi := range core.Ifs(fn) {
			cd := core.CondOf(ifi)
			var other ssa.Value
			if e.isField(cd.X, r.WriteQueue) {
				other = cd.Y
			} else if e.isField(cd.Y, r.WriteQueue) {
				other = cd.X
			}
			if other == nil || !core.IsNilConst(other) {
				continue
			}
			nn := cd.True
			if cd.Op == token.EQL {
				nn = cd.False
			}
			if t, pth := q.MustPassBetween(nil, nn, nil, core.IsNormalReturn, nil); t != nil {
				bad, path, badAt = true, pth, t
			}
		}
		c.Check(!bad, "R3", "ctx-entry/"+core.FName(fn), p.Pos(fn.Pos()), "on the queued branch every path enqueues with the caller's own context",
			"on the queued branch a context-taking write returns without going through the enqueue with its own context (the caller's cancellation is ignored while waiting for queue space)", p.PathString(path, badAt)...)
		// ---- R5 deadline on the sync branch
		c.Instance("R5")
		var setDL, resetDL bool
		core.AllInstrs(fn, func(x ssa.Instruction) {
			if !e.transportInvoke(x, "SetWriteDeadline") {
				return
			}
			if _, isDefer := x.(*ssa.Defer); isDefer {
				resetDL = true
				return
			}
			// before the write on the sync branch
			core.AllInstrs(fn, func(w ssa.Instruction) {
				if e.transportInvoke(w, "Write", "Writev") && e.syncBranch(w) {
					if t, _ := core.Search(x, nil, func(y ssa.Instruction) core.Action {
						if y == w {
							return core.Target
						}
						return core.Continue
					}, nil); t != nil {
						setDL = true
					}
				}
			})
		})
		c.Check(setDL && resetDL, "R5", "sync-deadline/"+core.FName(fn), p.Pos(fn.Pos()), "arms the transport write deadline from the context and resets it by defer", "the synchronous branch of a context-taking write does not arm / reset the transport write deadline (not cancellable)")
	}
	// sentinel returned from nowhere else
	if noSpace != nil {
		for _, fn := range p.Funcs {
			core.AllInstrs(fn, func(in ssa.Instruction) {
				ld, ok := in.(*ssa.UnOp)
				if !ok || ld.Op != token.MUL || ld.X != ssa.Value(noSpace) {
					return
				}
				c.Instance("R1")
				inDefault := false
				for _, E := range r.Enqueuers {
					for _, sinfo := range e.sendSelects(E) {
						if sinfo.Default != nil && sinfo.Default.Dominates(ld.Block()) && core.Outermost(fn) == E {
							inDefault = true
						}
					}
				}
				c.Check(inDefault, "R1", "queue-full-sentinel-use/"+core.FName(fn), p.InstrPos(in), "queue-full sentinel used only in the default arm of the non-blocking enqueue", "the queue-full error is produced outside the default arm of the non-blocking enqueue (reported although the queue is not full)")
			})
		}
	}

	// ---- R4
	runC18R4(c, e)

	// ---- R6
	importObligations(c, runC05, "R6", func(o *core.Obligation) bool { return o.Rule == "R2" })
	// the bound "queue size + one batch in flight" presupposes one sender at a time
	c.Rule("R7", "a single sender at a time: the sender re-takes the flag before it continues, releases it once, and every flag access fits the protocol (shared with C01-R1, C02-R5/R8)", 2)
	importObligations(c, runC01, "R7", func(o *core.Obligation) bool {
		return o.Rule == "R1" && (strings.Contains(o.Key, "sender-owns-flag") || strings.Contains(o.Key, "start-site"))
	})
	importObligations(c, runC02, "R7", func(o *core.Obligation) bool { return strings.Contains(o.Key, "flag-access/") || o.Rule == "R8" })
	// blocked writers are released by the cancel at the end of Close: Close must get there although the sender failed
	c.Rule("R8", "Close reaches its cancel: the wait for the sender ends when the sender has failed (shared with C06)", 1)
	ruleFailedSenderReleasesCloser(c, e, "R8")
	// Shutdown releases blocked writers through the bootstrap context, before it starts closing channels (whose
	// Close may itself wait for a stalled sender)
	c.Rule("R9", "Shutdown cancels the bootstrap context before it closes channels (shared with C13-R1)", 1)
	importObligations(c, runC13, "R9", func(o *core.Obligation) bool { return strings.Contains(o.Key, "Shutdown/cancel-first") })
	// a failed sender releases the flag before it closes: otherwise its own Close waits for it and the cancel that
	// frees blocked writers is never reached
	c.Rule("R11", "the sender's recover path releases the flag before closing (shared with C02-R3)", 1)
	importObligations(c, runC02, "R11", func(o *core.Obligation) bool { return o.Rule == "R3" })
	// on a queued channel no writer waits for another writer or for the sender: the channel's write lock belongs to the
	// synchronous branch (a stream write that held it while the sender needs it would make a non-blocking write wait
	// for the transport)
	c.Rule("R14", "the channel's write lock is taken only on the synchronous (queue == nil) branch, never by the sender", 2)
	var wl *types.Var
	for _, f := range fieldsOfNamed(r.Chan) {
		if core.NamedIs(f.Type(), "sync", "Mutex") || core.NamedIs(f.Type(), "sync", "RWMutex") {
			wl = f
		}
	}
	if wl != nil {
		for _, fn := range p.Funcs {
			if !e.isChanMethod(fn) {
				continue
			}
			core.AllInstrs(fn, func(in ssa.Instruction) {
				if _, isDefer := in.(*ssa.Defer); isDefer {
					return
				}
				if !mutexCall(in, wl, "Lock", "RLock") {
					return
				}
				c.Instance("R14")
				inSender := core.Outermost(fn) == r.Sender
				c.Check(!inSender && e.syncBranch(in), "R14", "write-lock/"+core.FName(fn), p.InstrPos(in), "taken only where the channel has no queue", "the channel's write lock is taken on a queued channel (or by the sender): a writer can wait behind a stalled transport write although the queue has room")
			})
		}
	}
	// "returns the context error and transmits nothing": no error return once the packet is in the queue
	c.Rule("R13", "an enqueued packet is never reported as refused (shared with C01-R2)", 2)
	importObligations(c, runC01, "R13", func(o *core.Obligation) bool {
		return o.Rule == "R2" && (strings.Contains(o.Key, "no-error-after-enqueue") || strings.Contains(o.Key, "returns-enqueuer-error"))
	})
	// a writer released by a context is told so by that context: the arm selected on X.Done() that reports X'.Err()
	// reports the error of the same X (the channel's own context reads nil while only the caller's has ended)
	c.Rule("R12", "a select arm woken by a context's Done that returns a context's Err returns the Err of the same context", 2)
	for _, fn := range p.Funcs {
		if p.PkgRel(fn) != "." {
			continue
		}
		core.AllInstrs(fn, func(in ssa.Instruction) {
			sel, ok := in.(*ssa.Select)
			if !ok || !e.queueSend(sel) {
				return
			}
			for _, st := range core.AnalyseSelect(sel).States {
				if st.Dir != types.RecvOnly || st.Body == nil {
					continue
				}
				dc, ok := core.Unwrap(st.Chan).(*ssa.Call)
				if !ok || !dc.Call.IsInvoke() || dc.Call.Method.Name() != "Done" {
					continue
				}
				c.Instance("R12")
				wake := core.Unwrap(core.ForwardLoad(core.Unwrap(dc.Call.Value)))
				good, at := true, ""
				core.Search(nil, st.Body, func(x ssa.Instruction) core.Action {
					if _, isSel := x.(*ssa.Select); isSel {
						return core.Barrier
					}
					ec, ok := x.(*ssa.Call)
					if !ok || !ec.Call.IsInvoke() || ec.Call.Method.Name() != "Err" || !core.NamedIs(ec.Call.Value.Type(), "context", "Context") {
						return core.Continue
					}
					src := core.Unwrap(core.ForwardLoad(core.Unwrap(ec.Call.Value)))
					same := src == wake
					if !same {
						fa, ba := core.FieldOf(src)
						fb, bb := core.FieldOf(wake)
						same = fa != nil && fa == fb && ba == bb
					}
					if !same {
						good, at = false, p.InstrPos(x)
					}
					return core.Continue
				}, func(a, b *ssa.BasicBlock) bool { return b != st.From })
				c.Check(good, "R12", core.FName(fn)+"/select/done-arm-reports-own-context", p.InstrPos(sel), "the arm reports the context that woke it", "a select arm woken by one context's Done returns another context's Err ("+at+"): that one has not ended, its Err is nil, and the caller is told the payload was accepted although it was dropped")
			}
		})
	}
	// an accepted write returns without waiting for the transport because the sender runs elsewhere
	c.Rule("R10", "every Executor of the library starts its action on another goroutine and never calls it in Exec's own frame", 1)
	ruleExecutorsAreAsync(c, e, "R10")
}

// ruleExecutorsAreAsync: for each type of the root package that implements Executor, Exec hands the action to a
// `go` statement on every path and has no synchronous call of it (directly, through an immediately called or
// deferred closure).
func ruleExecutorsAreAsync(c *core.Ctx, e *ev, R string) {
	p, r := c.P, e.r
	root := p.TPkg("")
	if root == nil || r.ExecutorIface == nil {
		c.Unk(R, "executor/found", "", "root package or Executor interface not resolved")
		return
	}
	n := 0
	sc := root.Scope()
	for _, nm := range sc.Names() {
		tn, ok := sc.Lookup(nm).(*types.TypeName)
		if !ok {
			continue
		}
		named, ok := tn.Type().(*types.Named)
		if !ok || types.IsInterface(named) || !core.Implements(named, r.ExecutorIface) {
			continue
		}
		fn := p.DeclMethod(named, "Exec")
		if fn == nil || fn.Blocks == nil || len(fn.Params) < 2 {
			continue
		}
		n++
		c.Instance(R)
		c.FuncsSeen[p.QName(fn)] = true
		action := ssa.Value(fn.Params[len(fn.Params)-1])
		// values that denote the action inside fn and its closures
		isAction := func(v ssa.Value) bool {
			v = core.Unwrap(v)
			if v == action {
				return true
			}
			if fv, ok := v.(*ssa.FreeVar); ok {
				// free variable bound to the action at the closure's creation
				f := fv.Parent()
				idx := -1
				for i, x := range f.FreeVars {
					if x == fv {
						idx = i
					}
				}
				found := false
				if par := f.Parent(); par != nil && idx >= 0 {
					core.AllInstrs(par, func(in ssa.Instruction) {
						if mc, ok := in.(*ssa.MakeClosure); ok && mc.Fn == ssa.Value(f) && idx < len(mc.Bindings) && core.Unwrap(mc.Bindings[idx]) == action {
							found = true
						}
					})
				}
				return found
			}
			return false
		}
		// closures of fn that run on another goroutine: the function of a `go` statement, and their closures
		async := map[*ssa.Function]bool{}
		var markAsync func(f *ssa.Function)
		markAsync = func(f *ssa.Function) {
			if f == nil || async[f] {
				return
			}
			async[f] = true
			for _, a := range f.AnonFuncs {
				markAsync(a)
			}
		}
		for _, f := range core.WithAnon(fn) {
			core.AllInstrs(f, func(in ssa.Instruction) {
				if g, ok := in.(*ssa.Go); ok {
					markAsync(core.FuncValue(g.Call.Value, nil))
				}
			})
		}
		var syncCall ssa.Instruction
		for _, f := range core.WithAnon(fn) {
			if async[f] {
				continue
			}
			core.AllInstrs(f, func(in ssa.Instruction) {
				switch x := in.(type) {
				case *ssa.Call:
					if isAction(x.Call.Value) && syncCall == nil {
						syncCall = in
					}
				case *ssa.Defer:
					if isAction(x.Call.Value) && syncCall == nil {
						syncCall = in
					}
				}
			})
		}
		name := "executor/" + tn.Name()
		if syncCall != nil {
			c.Bad(R, name+"/no-synchronous-run", p.InstrPos(syncCall), "Executor.Exec runs the action on the calling goroutine on some path: a write that starts the sender then waits for the transport inside Write (non-blocking mode blocks; the caller's locks are held across the send)")
			continue
		}
		c.OK(R, name+"/no-synchronous-run", p.Pos(fn.Pos()), "no call of the action in Exec's own frame")
		// every path hands the action to a go statement
		starts := func(in ssa.Instruction) bool {
			g, ok := in.(*ssa.Go)
			if !ok {
				return false
			}
			if isAction(g.Call.Value) {
				return true
			}
			f := core.FuncValue(g.Call.Value, nil)
			calls := false
			if f != nil {
				for _, h := range core.WithAnon(f) {
					core.AllInstrs(h, func(y ssa.Instruction) {
						if cc := core.CallCommon(y); cc != nil && isAction(cc.Value) {
							calls = true
						}
					})
				}
			}
			return calls
		}
		tgt, path := core.Search(nil, fn.Blocks[0], func(x ssa.Instruction) core.Action {
			switch {
			case starts(x):
				return core.Barrier
			case core.IsNormalReturn(x):
				return core.Target
			}
			return core.Continue
		}, nil)
		c.Check(tgt == nil, R, name+"/starts-on-every-path", p.Pos(fn.Pos()), "every path starts the action with a go statement", "Executor.Exec can return without having started the action (the sender never runs: accepted writes stranded)", p.PathString(path, tgt)...)
	}
	if n == 0 {
		c.Unk(R, "executor/found", "", "no Executor implementation found in the root package")
	}
}

func lookupGlobal(p *core.Prog, rel, name string) *ssa.Global {
	sp := p.Pkg(rel)
	if sp == nil {
		return nil
	}
	g, _ := sp.Members[name].(*ssa.Global)
	return g
}

func runC18R4(c *core.Ctx, e *ev) {
	p, r := c.P, e.r
	found := false
	for _, fn := range p.Funcs {
		core.AllInstrs(fn, func(in ssa.Instruction) {
			mk, ok := in.(*ssa.MakeChan)
			if !ok || !isChanOfBytesT(mk.Type()) {
				return
			}
			// stored into the writeQueue field of a channel struct (possibly through a local)
			flows := false
			for v := range taint(mk) {
				if v.Referrers() == nil {
					continue
				}
				for _, ref := range *v.Referrers() {
					if st, ok := ref.(*ssa.Store); ok {
						if f, _ := core.FieldOf(st.Addr); f == r.WriteQueue {
							flows = true
						}
					}
				}
			}
			if !flows {
				return
			}
			found = true
			c.Instance("R4")
			c.FuncsSeen[p.QName(fn)] = true
			pi := core.ParamOf(fn, mk.Size)
			c.Check(pi >= 0, "R4", "queue-capacity/"+core.FName(fn), p.InstrPos(mk), "queue capacity is the configured size parameter", "the write queue is not created with the configured size as its capacity (accepted-but-unsent bound changed)")
			// batch slices: make([], 0, f(param)) stored into slice fields of the channel, f bounded by the same parameter
			core.AllInstrs(fn, func(x ssa.Instruction) {
				ms, ok := x.(*ssa.MakeSlice)
				if !ok {
					return
				}
				dep := false
				var walk func(v ssa.Value, d int)
				walk = func(v ssa.Value, d int) {
					if d > 4 {
						return
					}
					if core.ParamOf(fn, v) == pi && pi >= 0 {
						dep = true
					}
					if b, ok := v.(*ssa.BinOp); ok {
						walk(b.X, d+1)
						walk(b.Y, d+1)
					}
				}
				walk(ms.Cap, 0)
				c.Check(dep, "R4", "batch-capacity/"+core.FName(fn), p.InstrPos(ms), "batch capacity derives from the configured size", "the sender's batch capacity does not derive from the configured queue size")
			})
		})
	}
	if !found {
		c.Instance("R4")
		c.Unk("R4", "queue-capacity", "", "creation of the write queue not found")
	}
	// the fill loop of the sender is bounded by len < cap of the batch
	S := r.Sender
	c.Instance("R4")
	bounded := false
	for _, ifi := range core.Ifs(S) {
		cd := core.CondOf(ifi)
		if _, isLen := lenArg(cd.X); isLen {
			if _, isCap := capArg(cd.Y); isCap && cd.Op == token.LSS {
				bounded = true
			}
		}
	}
	c.Check(bounded, "R4", "batch-bounded/"+core.FName(S), p.Pos(S.Pos()), "the drain loop stops when len(batch) reaches cap(batch)", "the sender's drain loop is not bounded by the batch capacity (unbounded accepted-but-unsent data in the batch)")
}

func isChanOfBytesT(t types.Type) bool {
	c, ok := t.Underlying().(*types.Chan)
	if !ok {
		return false
	}
	s, ok := c.Elem().Underlying().(*types.Slice)
	if !ok {
		return false
	}
	b, ok := s.Elem().Underlying().(*types.Basic)
	return ok && b.Kind() == types.Byte
}

// ctxForwarders: the enqueueing functions plus every unexported channel method that hands its own context
// parameter on to one of them (asyncWrite -> enqueue helper).
func (e *ev) ctxForwarders() []*ssa.Function {
	set := map[*ssa.Function]bool{}
	var out []*ssa.Function
	add := func(f *ssa.Function) {
		if !set[f] {
			set[f] = true
			out = append(out, f)
		}
	}
	for _, E := range e.r.Enqueuers {
		add(E)
	}
	for changed := true; changed; {
		changed = false
		for _, fn := range e.p.Funcs {
			if set[fn] || fn.Parent() != nil || !e.isChanMethod(fn) || (fn.Object() != nil && fn.Object().Exported()) {
				continue
			}
			own := -1
			for i, prm := range fn.Params {
				if core.NamedIs(prm.Type(), "context", "Context") {
					own = i
				}
			}
			if own < 0 {
				continue
			}
			core.AllInstrs(fn, func(in ssa.Instruction) {
				cc := core.CallCommon(in)
				if cc == nil || cc.IsInvoke() || !set[cc.StaticCallee()] {
					return
				}
				for _, a := range cc.Args {
					if core.ParamOf(fn, a) == own && !set[fn] {
						add(fn)
						changed = true
					}
				}
			})
		}
	}
	return out
}
