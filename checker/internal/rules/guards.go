package rules

import (
	"go/constant"
	"go/token"
	"go/types"

	"golang.org/x/tools/go/ssa"
	"verif/checker/internal/core"
)

// cmp is a comparison X Op Y.
type cmp struct {
	Op   token.Token
	X, Y ssa.Value
	At   ssa.Instruction // the guarding instruction (AssertIf call or If)
}

// isAssertIf: in calls a repo function that panics iff its first (bool) parameter is true
// (recognised by summary: the only If on the parameter leads to a panic on its true side).
func isAssertIf(p *core.Prog, in ssa.Instruction) (ssa.Value, bool) {
	cc := core.CallCommon(in)
	if cc == nil || cc.IsInvoke() || len(cc.Args) == 0 {
		return nil, false
	}
	f := cc.StaticCallee()
	if f == nil || !p.InRepo(f) || f.Blocks == nil || len(f.Params) == 0 || !isBool(f.Params[0].Type()) {
		return nil, false
	}
	ok := false
	for _, ifi := range core.Ifs(f) {
		cd := core.CondOf(ifi)
		if cd.Op == token.ILLEGAL && cd.X == ssa.Value(f.Params[0]) {
			// true side panics on every path
			t, _ := core.Search(nil, cd.True, func(x ssa.Instruction) core.Action {
				if core.IsNormalReturn(x) {
					return core.Target
				}
				return core.Continue
			}, nil)
			if t == nil {
				ok = true
			}
		}
	}
	if !ok {
		return nil, false
	}
	return cc.Args[0], true
}

// disjuncts decomposes a boolean value built with || into its operands.
func disjuncts(v ssa.Value) []ssa.Value {
	phi, ok := v.(*ssa.Phi)
	if !ok {
		return []ssa.Value{v}
	}
	// only `a || b` decomposes: its φ has `true` on the short-circuit edges. A φ with a `false` edge is a
	// conjunction: that it is false says nothing about its operands individually.
	for _, e := range phi.Edges {
		if c, ok := e.(*ssa.Const); ok && !constBool(c) {
			return []ssa.Value{v}
		}
	}
	var out []ssa.Value
	for i, e := range phi.Edges {
		if c, ok := e.(*ssa.Const); ok && constBool(c) {
			// came from a predecessor whose own condition was true
			pb := phi.Block().Preds[i]
			if ifi, ok := pb.Instrs[len(pb.Instrs)-1].(*ssa.If); ok {
				out = append(out, disjuncts(ifi.Cond)...)
			}
			continue
		}
		out = append(out, disjuncts(e)...)
	}
	return out
}

// conjuncts decomposes a boolean value built with && into its operands (mirror image of disjuncts: the φ has
// `false` on the short-circuit edges; a φ with a `true` edge is a disjunction and stays opaque).
func conjuncts(v ssa.Value) []ssa.Value {
	phi, ok := v.(*ssa.Phi)
	if !ok {
		return []ssa.Value{v}
	}
	for _, e := range phi.Edges {
		if c, ok := e.(*ssa.Const); ok && constBool(c) {
			return []ssa.Value{v}
		}
	}
	var out []ssa.Value
	for i, e := range phi.Edges {
		if c, ok := e.(*ssa.Const); ok && !constBool(c) {
			pb := phi.Block().Preds[i]
			if ifi, ok := pb.Instrs[len(pb.Instrs)-1].(*ssa.If); ok {
				out = append(out, conjuncts(ifi.Cond)...)
			}
			continue
		}
		out = append(out, conjuncts(e)...)
	}
	return out
}

// boolFact: a boolean value with the truth value it is known to have at some point.
type boolFact struct {
	V     ssa.Value
	Truth bool
}

// knownBools: the boolean values whose truth is established by the branches that dominate `at`: on a false edge
// every operand of an `a || b` is false, on a true edge every operand of an `a && b` is true; negations are
// unwrapped. A short-circuit value of the other kind stays one opaque fact.
func knownBools(at ssa.Instruction) []boolFact {
	var out []boolFact
	add := func(v ssa.Value, t bool) {
		for {
			u, ok := v.(*ssa.UnOp)
			if !ok || u.Op != token.NOT {
				break
			}
			v, t = u.X, !t
		}
		out = append(out, boolFact{v, t})
	}
	for _, ifi := range core.Ifs(at.Parent()) {
		for bi, succ := range ifi.Block().Succs {
			if !core.EdgeDominates(ifi.Block(), succ, at.Block()) {
				continue
			}
			if bi == 1 {
				for _, d := range disjuncts(ifi.Cond) {
					add(d, false)
				}
			} else {
				for _, d := range conjuncts(ifi.Cond) {
					add(d, true)
				}
			}
		}
	}
	return out
}

func asCmp(v ssa.Value, at ssa.Instruction, negate bool) (cmp, bool) {
	for {
		if u, ok := v.(*ssa.UnOp); ok && u.Op == token.NOT {
			v = u.X
			negate = !negate
			continue
		}
		break
	}
	b, ok := v.(*ssa.BinOp)
	if !ok {
		return cmp{}, false
	}
	op := b.Op
	switch op {
	case token.EQL, token.NEQ, token.LSS, token.LEQ, token.GTR, token.GEQ:
	default:
		return cmp{}, false
	}
	if negate {
		op = map[token.Token]token.Token{token.EQL: token.NEQ, token.NEQ: token.EQL, token.LSS: token.GEQ, token.GEQ: token.LSS, token.GTR: token.LEQ, token.LEQ: token.GTR}[op]
	}
	return cmp{Op: op, X: b.X, Y: b.Y, At: at}, true
}

// falseAt: comparisons known to be FALSE when `at` executes (a dominating guard panicked / branched away otherwise).
func falseAt(p *core.Prog, at ssa.Instruction) []cmp {
	return falseAtD(p, at, 0)
}

func falseAtD(p *core.Prog, at ssa.Instruction, depth int) []cmp {
	var out []cmp
	fn := at.Parent()
	core.AllInstrs(fn, func(in ssa.Instruction) {
		if cond, ok := isAssertIf(p, in); ok && core.Dominates(in, at) {
			for _, d := range disjuncts(cond) {
				if c, ok := asCmp(d, in, false); ok {
					out = append(out, c)
				}
			}
		}
	})
	for _, ifi := range core.Ifs(fn) {
		// if cond { panic/return } : on the edge that dominates `at`, cond has a known value
		for bi, succ := range ifi.Block().Succs {
			if !core.EdgeDominates(ifi.Block(), succ, at.Block()) {
				continue
			}
			// the condition is a materialised `a && b` / `(x, ok)` result: a φ of the If's block with constants on
			// some edges. On this side of the branch only the predecessors whose incoming value agrees are
			// feasible; if that leaves one, everything known at its end is known here too.
			if depth < 3 {
				if pb := feasiblePred(ifi, bi == 0); pb != nil && len(pb.Instrs) > 0 {
					out = append(out, falseAtD(p, pb.Instrs[len(pb.Instrs)-1], depth+1)...)
					// and the value that predecessor fed into the φ is the value the branch saw
					if ev, want := phiEdgeValue(ifi, bi == 0, pb); ev != nil {
						if want {
							if c, ok := asCmp(ev, ifi, true); ok {
								out = append(out, c)
							}
						} else {
							for _, d := range disjuncts(ev) {
								if c, ok := asCmp(d, ifi, false); ok {
									out = append(out, c)
								}
							}
						}
					}
				}
			}
			// several predecessors merge before this test (two loop exits, an if/else join): a predecessor whose
			// own edge establishes the opposite of what holds on this side cannot have been taken; if that leaves
			// one, what is known on its edge is known here
			if depth < 3 {
				if pb, e := consistentPred(ifi, bi); pb != nil {
					pif := pb.Instrs[len(pb.Instrs)-1].(*ssa.If)
					out = append(out, edgeFalse(pif, e)...)
					out = append(out, falseAtD(p, pif, depth+1)...)
				}
			}
			if bi == 1 { // false edge: cond is false
				for _, d := range disjuncts(ifi.Cond) {
					if c, ok := asCmp(d, ifi, false); ok {
						out = append(out, c)
					}
				}
			} else { // true edge: !cond is false
				if c, ok := asCmp(ifi.Cond, ifi, true); ok {
					out = append(out, c)
				}
			}
		}
	}
	return out
}

// stripConv removes integer conversions.
func stripConv(v ssa.Value) ssa.Value {
	for {
		switch x := v.(type) {
		case *ssa.Convert:
			v = x.X
		case *ssa.ChangeType:
			v = x.X
		default:
			return v
		}
	}
}

// boundedAbove: a dominating guard makes `V > M` (or >=) false for some M accepted by okM. V is compared as is
// (conversions of V on the guard side are allowed only when they widen or keep signedness - see sameNoSignFlip).
func boundedAbove(p *core.Prog, at ssa.Instruction, v ssa.Value, okM func(ssa.Value) bool) bool {
	if rets := throughReturns(p, v); len(rets) > 0 {
		all := true
		for _, r := range rets {
			call := r.call
			if !boundedAbove(p, r.at, r.val, func(m ssa.Value) bool { return okM(m) || okM(substParam(m, call)) }) {
				all = false
			}
		}
		if all {
			return true
		}
	}
	for _, c := range falseAt(p, at) {
		switch c.Op {
		case token.GTR, token.GEQ:
			if sameNoSignFlip(c.X, v) && okM(c.Y) {
				return true
			}
		case token.LSS, token.LEQ:
			if sameNoSignFlip(c.Y, v) && okM(c.X) {
				return true
			}
		}
	}
	return false
}

// boundedBelow: a dominating guard makes `V < L` false for some L accepted by okL.
func boundedBelow(p *core.Prog, at ssa.Instruction, v ssa.Value, okL func(ssa.Value) bool) bool {
	if rets := throughReturns(p, v); len(rets) > 0 {
		all := true
		for _, r := range rets {
			call := r.call
			if !boundedBelow(p, r.at, r.val, func(l ssa.Value) bool { return okL(l) || okL(substParam(l, call)) }) {
				all = false
			}
		}
		if all {
			return true
		}
	}
	for _, c := range falseAt(p, at) {
		switch c.Op {
		case token.LSS:
			if sameNoSignFlip(c.X, v) && okL(c.Y) {
				return true
			}
		case token.GTR:
			if sameNoSignFlip(c.Y, v) && okL(c.X) {
				return true
			}
		}
	}
	return false
}

// sameNoSignFlip: a denotes the same number as v: identical, or a widening / same-signedness conversion of v.
func sameNoSignFlip(a, v ssa.Value) bool {
	if a == v || core.SameValue(a, v) {
		return true
	}
	if cv, ok := a.(*ssa.Convert); ok {
		if signedness(cv.Type()) == signedness(cv.X.Type()) || (signedness(cv.X.Type()) == 1 && false) {
			return sameNoSignFlip(cv.X, v)
		}
	}
	return false
}

// signedness: 1 signed int, 2 unsigned int, 0 other.
func signedness(t types.Type) int {
	b, ok := t.Underlying().(*types.Basic)
	if !ok || b.Info()&types.IsInteger == 0 {
		return 0
	}
	if b.Info()&types.IsUnsigned != 0 {
		return 2
	}
	return 1
}

func intBits(t types.Type) int {
	b, ok := t.Underlying().(*types.Basic)
	if !ok {
		return 0
	}
	switch b.Kind() {
	case types.Int8, types.Uint8:
		return 8
	case types.Int16, types.Uint16:
		return 16
	case types.Int32, types.Uint32:
		return 32
	case types.Int64, types.Uint64, types.Int, types.Uint, types.Uintptr:
		return 64
	}
	return 0
}

type retVal struct {
	val  ssa.Value
	at   ssa.Instruction
	call *ssa.Call
}

// substParam maps a callee-side value that is (a conversion of) one of the callee's parameters to the
// caller's argument at the call (re-applying the conversion is left to the comparison, which strips them).
func substParam(v ssa.Value, call *ssa.Call) ssa.Value {
	if call == nil {
		return v
	}
	f := call.Call.StaticCallee()
	if f == nil {
		return v
	}
	inner := stripConv(v)
	for i, prm := range f.Params {
		if inner == ssa.Value(prm) && i < len(call.Call.Args) {
			return call.Call.Args[i]
		}
	}
	return v
}

// throughReturns: v is the (i-th) result of a call of a repo function: the values returned, each with its
// Return instruction (guards that dominate the Return hold for the value in the caller).
func throughReturns(p *core.Prog, v ssa.Value) []retVal {
	v = stripConv(v)
	idx := 0
	var call *ssa.Call
	switch x := v.(type) {
	case *ssa.Extract:
		c, ok := x.Tuple.(*ssa.Call)
		if !ok {
			return nil
		}
		call, idx = c, x.Index
	case *ssa.Call:
		call = x
	default:
		return nil
	}
	if call.Call.IsInvoke() {
		return nil
	}
	f := call.Call.StaticCallee()
	if f == nil || !p.InRepo(f) || f.Blocks == nil {
		return nil
	}
	var out []retVal
	core.AllInstrs(f, func(in ssa.Instruction) {
		if ret, ok := in.(*ssa.Return); ok && idx < len(ret.Results) {
			out = append(out, retVal{ret.Results[idx], ret, call})
		}
	})
	return out
}

// feasiblePred: ifi's condition is (a negation of) a bool φ of ifi's block; given that the branch goes to the
// `val` side, the single predecessor whose incoming value can be `val` (constant edges that disagree are
// infeasible). nil if the condition is not such a φ or more than one predecessor remains.
func feasiblePred(ifi *ssa.If, val bool) *ssa.BasicBlock {
	v := ifi.Cond
	for {
		if u, ok := v.(*ssa.UnOp); ok && u.Op == token.NOT {
			v = u.X
			val = !val
			continue
		}
		break
	}
	phi, ok := v.(*ssa.Phi)
	if !ok || phi.Block() != ifi.Block() {
		return nil
	}
	var feas *ssa.BasicBlock
	n := 0
	for i, e := range phi.Edges {
		if k, ok := e.(*ssa.Const); ok && k.Value != nil && k.Value.Kind() == constant.Bool {
			if constant.BoolVal(k.Value) != val {
				continue
			}
		}
		n++
		feas = phi.Block().Preds[i]
	}
	if n != 1 {
		return nil
	}
	return feas
}

// edgeFalse: the comparisons known to be false when the branch ifi is left through successor #bi.
func edgeFalse(ifi *ssa.If, bi int) []cmp {
	var out []cmp
	if bi == 1 {
		for _, d := range disjuncts(ifi.Cond) {
			if c, ok := asCmp(d, ifi, false); ok {
				out = append(out, c)
			}
		}
	} else if c, ok := asCmp(ifi.Cond, ifi, true); ok {
		out = append(out, c)
	}
	return out
}

func negOp(op token.Token) token.Token {
	return map[token.Token]token.Token{token.EQL: token.NEQ, token.NEQ: token.EQL, token.LSS: token.GEQ, token.GEQ: token.LSS, token.GTR: token.LEQ, token.LEQ: token.GTR}[op]
}

// consistentPred: the block of ifi has several predecessors; given that ifi is left through successor #bi,
// the single predecessor whose own branch edge does not contradict that (and its edge index). nil when
// none or more than one remains, or when a predecessor does not end in a branch.
func consistentPred(ifi *ssa.If, bi int) (*ssa.BasicBlock, int) {
	m := ifi.Block()
	if len(m.Preds) < 2 {
		return nil, 0
	}
	here := edgeFalse(ifi, bi)
	if len(here) == 0 {
		return nil, 0
	}
	var keep *ssa.BasicBlock
	keepE, n := 0, 0
	for _, pb := range m.Preds {
		if len(pb.Instrs) == 0 {
			return nil, 0
		}
		pif, ok := pb.Instrs[len(pb.Instrs)-1].(*ssa.If)
		if !ok {
			return nil, 0 // an unconditional predecessor: nothing known about it
		}
		for e, s := range pb.Succs {
			if s != m {
				continue
			}
			contradicts := false
			for _, a := range edgeFalse(pif, e) {
				for _, b := range here {
					// a and b both claimed false, but b is the negation of a
					if a.Op == negOp(b.Op) && sameOperand(a.X, b.X) && sameOperand(a.Y, b.Y) {
						contradicts = true
					}
				}
			}
			if !contradicts {
				n++
				keep, keepE = pb, e
			}
		}
	}
	if n != 1 {
		return nil, 0
	}
	return keep, keepE
}

// sameOperand: the same value, or equal constants.
func sameOperand(a, b ssa.Value) bool {
	if core.SameValue(a, b) {
		return true
	}
	ca, ok1 := a.(*ssa.Const)
	cb, ok2 := b.(*ssa.Const)
	if !ok1 || !ok2 {
		return false
	}
	if ca.IsNil() || cb.IsNil() {
		return ca.IsNil() && cb.IsNil()
	}
	return ca.Value != nil && cb.Value != nil && ca.Value.Kind() == cb.Value.Kind() && constant.Compare(ca.Value, token.EQL, cb.Value)
}

// phiEdgeValue: ifi's condition is (a negation of) a bool φ of its block; the incoming value of predecessor
// pb and the truth value it must have had for the branch to go to the `val` side.
func phiEdgeValue(ifi *ssa.If, val bool, pb *ssa.BasicBlock) (ssa.Value, bool) {
	v := ifi.Cond
	for {
		if u, ok := v.(*ssa.UnOp); ok && u.Op == token.NOT {
			v = u.X
			val = !val
			continue
		}
		break
	}
	phi, ok := v.(*ssa.Phi)
	if !ok || phi.Block() != ifi.Block() {
		return nil, false
	}
	for i, p := range phi.Block().Preds {
		if p == pb && i < len(phi.Edges) {
			if _, isConst := phi.Edges[i].(*ssa.Const); isConst {
				return nil, false
			}
			return phi.Edges[i], val
		}
	}
	return nil, false
}
