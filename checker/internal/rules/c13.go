package rules

import (
	"go/token"
	"go/types"
	"strings"

	"golang.org/x/tools/go/ssa"
	"verif/checker/internal/core"
)

func init() {
	register(&Property{
		ID:    "C13",
		Title: "Shutdown stops every listener and closes every channel, whenever it is called",
		Explanation: "DECIDES: R1 Shutdown cancels the bootstrap context, ranges over the whole listener registry closing every listener (callback always returns true) and closes all held channels with the server-closed error - all three on every path (no early exit), cancel first; " +
			"R2 every channel context derives from the bootstrap context: ParseOptions is fed Bootstrap.Context(), ServeChannel receives that options' context and hands its own context parameter to the channel factory, the channel constructor wraps its context parameter with WithCancel, and the read loop observes that context every iteration and always ends in Close (C05-R6); " +
			"R3 the holder adds on active before forwarding, removes on inactive, CloseAll swaps the map under the lock and closes every element; the holder is installed first in every pipeline; the read loop fires active before its first context test; " +
			"R4 listener typestate: the acceptor is published only under the listener's mutex after testing the closed flag / bootstrap context, and otherwise closed again with an error; Close sets the closed flag and reads the acceptor under the same mutex; Accept is reached only after a successful publication; " +
			"R5 accept loop: an Accept error ends the loop (server-closed when the context is done), a successful Accept is always served, tcp acceptor closes once and stops retrying when closed; R6 Listen registers every listener it returns and Close deregisters. " +
			"ALSO: the closed flag is known false (branch facts) where the acceptor is published; Close's election and the wrappers' Close are imported (RULES.md). " +
			"ALSO (round 7): CloseAll skips no channel; the registry entry is removed only on behalf of Listener.Close. " +
			"DOES NOT DECIDE: that the OS unblocks Accept on close, timing of 'ends up closed', user transport factories.",
		Assumptions: []string{"transport.Acceptor.Close unblocks Accept", "a holder is configured (default); with WithChannelHolder(nil) only R2 covers channels"},
		Run:         runC13,
	})
}

type bsRoles struct {
	bsT, lisT, holderT           *types.Named
	cancelF, holderF, ctxF       *types.Var // on options struct
	listenersF                   *types.Var
	factoryF, chanFactoryF       *types.Var
	acceptorF, lmutexF, lclosedF *types.Var
	errs                         []string
}

func resolveBootstrap(p *core.Prog) *bsRoles {
	br := &bsRoles{}
	root := p.TPkg("")
	bsI := lookupNamedT(root, "Bootstrap")
	lisI := lookupNamedT(root, "Listener")
	holderI := lookupNamedT(root, "ChannelHolder")
	accI := lookupNamedT(p.TPkg("transport"), "Acceptor")
	facI := lookupNamedT(root, "TransportFactory")
	chFac := lookupNamedT(root, "ChannelFactory")
	for _, st := range p.StructTypes("") {
		if bsI != nil && core.Implements(st, bsI) {
			br.bsT = st
		}
		if lisI != nil && core.Implements(st, lisI) {
			br.lisT = st
		}
		if holderI != nil && core.Implements(st, holderI) {
			br.holderT = st
		}
	}
	if br.bsT == nil || br.lisT == nil {
		br.errs = append(br.errs, "bootstrap / listener implementation types not resolved")
		return br
	}
	var scan func(t types.Type, depth int)
	scan = func(t types.Type, depth int) {
		if depth > 2 {
			return
		}
		if pt, ok := t.(*types.Pointer); ok {
			t = pt.Elem()
		}
		st, ok := t.Underlying().(*types.Struct)
		if !ok {
			return
		}
		for i := 0; i < st.NumFields(); i++ {
			f := st.Field(i)
			switch {
			case core.NamedIs(f.Type(), "context", "CancelFunc"):
				br.cancelF = f
			case core.NamedIs(f.Type(), "context", "Context"):
				br.ctxF = f
			case holderI != nil && types.Identical(f.Type(), holderI):
				br.holderF = f
			case core.NamedIs(f.Type(), "sync", "Map"):
				br.listenersF = f
			case facI != nil && types.Identical(f.Type(), facI):
				br.factoryF = f
			case chFac != nil && types.Identical(f.Type(), chFac):
				br.chanFactoryF = f
			case f.Embedded():
				scan(f.Type(), depth+1)
			}
		}
	}
	scan(br.bsT, 0)
	for _, f := range fieldsOfNamed(br.lisT) {
		switch {
		case accI != nil && types.Identical(f.Type(), accI):
			br.acceptorF = f
		case core.NamedIs(f.Type(), "sync", "Mutex") || core.NamedIs(f.Type(), "sync", "RWMutex"):
			br.lmutexF = f
		case isBool(f.Type()) || isInt32Like2(f.Type()):
			br.lclosedF = f
		}
	}
	for n, f := range map[string]*types.Var{"bootstrap cancel func": br.cancelF, "bootstrap context": br.ctxF, "listener registry (sync.Map)": br.listenersF, "listener acceptor field": br.acceptorF} {
		if f == nil {
			br.errs = append(br.errs, "role not resolved: "+n)
		}
	}
	return br
}

func isInt32Like2(t types.Type) bool {
	if core.NamedIs(t, "sync/atomic", "Bool") || core.NamedIs(t, "sync/atomic", "Int32") {
		return true
	}
	b, ok := t.Underlying().(*types.Basic)
	return ok && b.Kind() == types.Int32
}

func runC13(c *core.Ctx) {
	e, ok := newEv(c)
	if !ok {
		return
	}
	p, r := c.P, e.r
	br := resolveBootstrap(p)
	if len(br.errs) > 0 {
		for _, s := range br.errs {
			c.Unk("anchors", "ANCHOR-UNRESOLVED", "", s)
		}
		return
	}
	c.Rule("R1", "Shutdown: cancel, close every listener, CloseAll - on every path, cancel first", 3)
	c.Rule("R2", "every channel context derives from the bootstrap context and the read loop observes it", 4)
	c.Rule("R3", "holder bookkeeping and installation; active before the first context test", 4)
	c.Rule("R4", "listener typestate: publish the acceptor only if not closed; Close records closure under the same mutex", 3)
	c.Rule("R5", "accept loop exits on error, serves every accepted transport; tcp acceptor closes once", 3)
	c.Rule("R6", "Listen registers, Close deregisters", 2)

	fieldLoadCall := func(in ssa.Instruction, f *types.Var) bool {
		cc := core.CallCommon(in)
		if cc == nil || cc.IsInvoke() {
			return false
		}
		fv, _ := core.FieldOf(cc.Value)
		return fv != nil && fv == f
	}
	serverClosed := lookupGlobal(p, "", "ErrServerClosed")

	// ---- R1
	sd := p.DeclMethod(br.bsT, "Shutdown")
	if sd == nil {
		c.Bad("R1", "Shutdown", "", "Shutdown not found")
	} else {
		c.FuncsSeen[p.QName(sd)] = true
		var cancelIn, rangeIn, closeAllIn ssa.Instruction
		core.AllInstrs(sd, func(in ssa.Instruction) {
			if fieldLoadCall(in, br.cancelF) {
				cancelIn = in
			}
			if o := core.CalleeObj(in); o != nil && o.Name() == "Range" && core.RecvNamed(o) != nil && core.RecvNamed(o).Name() == "Map" {
				if f, _ := core.FieldOf(core.CallCommon(in).Args[0]); f == br.listenersF {
					rangeIn = in
				}
			}
			if cc := core.CallCommon(in); cc != nil && cc.IsInvoke() && cc.Method.Name() == "CloseAll" {
				closeAllIn = in
			}
		})
		// holder == nil edges are exempt for CloseAll
		holderNil := map[edgeKey]bool{}
		for _, ifi := range core.Ifs(sd) {
			cd := core.CondOf(ifi)
			for _, side := range [][2]ssa.Value{{cd.X, cd.Y}, {cd.Y, cd.X}} {
				if f, _ := core.FieldOf(side[0]); f == br.holderF && br.holderF != nil && core.IsNilConst(side[1]) {
					nilSucc := cd.True
					if cd.Op == token.NEQ {
						nilSucc = cd.False
					}
					holderNil[edgeKey{ifi.Block(), nilSucc}] = true
				}
			}
		}
		for _, d := range []struct {
			name string
			in   ssa.Instruction
			what string
		}{{"cancels-context", cancelIn, "cancel the bootstrap context"}, {"closes-listeners", rangeIn, "range over the listener registry"}, {"closes-channels", closeAllIn, "close all held channels"}} {
			c.Instance("R1")
			if d.in == nil {
				c.Bad("R1", "Shutdown/"+d.name, p.Pos(sd.Pos()), "Shutdown does not "+d.what)
				continue
			}
			target := d.in
			tgt, path := core.Search(nil, sd.Blocks[0], func(x ssa.Instruction) core.Action {
				if x == target {
					return core.Barrier
				}
				if core.IsNormalReturn(x) {
					return core.Target
				}
				return core.Continue
			}, func(a, b *ssa.BasicBlock) bool { return !(d.name == "closes-channels" && holderNil[edgeKey{a, b}]) })
			c.Check(tgt == nil, "R1", "Shutdown/"+d.name, p.InstrPos(d.in), "on every path", "a path through Shutdown returns without: "+d.what+" (e.g. an 'already shut down' early return makes a later Shutdown a no-op)", p.PathString(path, tgt)...)
		}
		if cancelIn != nil && rangeIn != nil && closeAllIn != nil {
			c.Instance("R1")
			c.Check(core.Dominates(cancelIn, rangeIn) && core.Dominates(cancelIn, closeAllIn), "R1", "Shutdown/cancel-first", p.InstrPos(cancelIn), "cancel precedes closing listeners and channels", "Shutdown closes listeners / channels before cancelling the context (channels registered in between are missed)")
		}
		if closeAllIn != nil {
			arg := core.Unwrap(core.CallCommon(closeAllIn).Args[0])
			ld, isLoad := arg.(*ssa.UnOp)
			c.Instance("R1")
			c.Check(isLoad && serverClosed != nil && ld.X == ssa.Value(serverClosed), "R1", "Shutdown/closeall-error", p.InstrPos(closeAllIn), "channels closed with the server-closed error", "CloseAll is not given the server-closed error")
		}
		// Range callback: closes the listener value and always returns true
		if rangeIn != nil {
			c.Instance("R1")
			cb := core.FuncValue(core.CallCommon(rangeIn).Args[1], nil)
			good := cb != nil
			why := "callback not resolved"
			if cb != nil {
				closes := &core.Query{P: p, Pred: func(x ssa.Instruction) bool {
					cc := core.CallCommon(x)
					return cc != nil && cc.IsInvoke() && cc.Method.Name() == "Close"
				}}
				if bad, _ := closes.MustPassBetween(nil, cb.Blocks[0], nil, core.IsNormalReturn, nil); bad != nil {
					good, why = false, "a path of the Range callback does not close the listener"
				}
				core.AllInstrs(cb, func(x ssa.Instruction) {
					if ret, ok := x.(*ssa.Return); ok {
						if k, ok := ret.Results[0].(*ssa.Const); !ok || !constBool(k) {
							good, why = false, "the Range callback can return false (stops before every listener was closed)"
						}
					}
				})
			}
			c.Check(good, "R1", "Shutdown/range-callback", p.InstrPos(rangeIn), "closes each listener and continues", why)
		}
	}

	// ---- R2
	ctxMeth := p.DeclMethod(br.bsT, "Context")
	for _, fn := range p.Funcs {
		if p.PkgRel(fn) != "." {
			continue
		}
		core.AllInstrs(fn, func(in ssa.Instruction) {
			if !isPkgRelFunc(p, in, "transport", "ParseOptions") {
				return
			}
			c.Instance("R2")
			c.CallSites++
			arg := core.Unwrap(core.CallCommon(in).Args[0])
			okc := false
			if call, ok := arg.(*ssa.Call); ok {
				if call.Call.StaticCallee() == ctxMeth && ctxMeth != nil {
					okc = true
				}
				if call.Call.IsInvoke() && call.Call.Method.Name() == "Context" {
					okc = true
				}
			}
			if f, _ := core.FieldOf(arg); f == br.ctxF {
				okc = true
			}
			c.Check(okc, "R2", "parse-options-ctx/"+core.FName(fn), p.InstrPos(in), "options derive from Bootstrap.Context()", "transport options are not built from the bootstrap context (channels would not observe Shutdown)")
		})
	}
	sc := p.DeclMethod(br.bsT, "ServeChannel")
	if sc != nil {
		c.FuncsSeen[p.QName(sc)] = true
		// passes its ctx param to the channel factory
		c.Instance("R2")
		passes := false
		core.AllInstrs(sc, func(in ssa.Instruction) {
			if br.chanFactoryF != nil && fieldLoadCall(in, br.chanFactoryF) {
				for _, a := range core.CallCommon(in).Args {
					if core.ParamOf(sc, a) == 1 {
						passes = true
					}
				}
			}
		})
		c.Check(passes, "R2", "ServeChannel/ctx-to-factory", p.Pos(sc.Pos()), "hands its context parameter to the channel factory", "ServeChannel does not hand its context parameter to the channel factory (channel not a child of the bootstrap context)")
		// callers pass options.Context of ParseOptions' result
		for _, fn := range p.Funcs {
			core.AllInstrs(fn, func(in ssa.Instruction) {
				cc := core.CallCommon(in)
				if cc == nil || cc.IsInvoke() || cc.StaticCallee() != sc {
					return
				}
				c.Instance("R2")
				f, _ := core.FieldOf(cc.Args[1])
				c.Check(f != nil && f.Name() == "Context" && core.NamedIs(f.Type(), "context", "Context"), "R2", "ServeChannel-ctx-arg/"+core.FName(fn), p.InstrPos(in), "passes the options' context", "ServeChannel is called with a context that is not the parsed options' context")
			})
		}
	}
	// channel constructor wraps its ctx param
	for _, fn := range p.Funcs {
		if fn.Parent() != nil || p.PkgRel(fn) != "." {
			continue
		}
		core.AllInstrs(fn, func(in ssa.Instruction) {
			st, ok := in.(*ssa.Store)
			if !ok {
				return
			}
			if f, _ := core.FieldOf(st.Addr); f != r.Ctx {
				return
			}
			c.Instance("R2")
			c.FuncsSeen[p.QName(fn)] = true
			good := false
			if ex, ok := core.Unwrap(st.Val).(*ssa.Extract); ok {
				if call, ok := ex.Tuple.(*ssa.Call); ok && (core.IsPkgFunc(call, "context", "WithCancel") || core.IsPkgFunc(call, "context", "WithCancelCause")) {
					if core.ParamOf(fn, call.Call.Args[0]) >= 0 {
						good = true
					}
				}
			}
			c.Check(good, "R2", "channel-ctx/"+core.FName(fn), p.InstrPos(in), "channel context = WithCancel(context parameter)", "the channel context is not derived from the constructor's context parameter with WithCancel")
		})
	}
	importObligations(c, runC05, "R2", func(o *core.Obligation) bool {
		return strings.Contains(o.Key, "read-loop/tests-context") || strings.Contains(o.Key, "read-loop/exits-close")
	})

	// ---- R3 holder
	if br.holderT != nil {
		var mapF, hmu *types.Var
		for _, f := range fieldsOfNamed(br.holderT) {
			if _, ok := f.Type().Underlying().(*types.Map); ok {
				mapF = f
			}
			if core.NamedIs(f.Type(), "sync", "Mutex") || core.NamedIs(f.Type(), "sync", "RWMutex") {
				hmu = f
			}
		}
		mapUpdate := func(x ssa.Instruction) bool {
			mu, ok := x.(*ssa.MapUpdate)
			if !ok {
				return false
			}
			f, _ := core.FieldOf(mu.Map)
			return f == mapF
		}
		mapDelete := func(x ssa.Instruction) bool {
			args, ok := core.IsBuiltinCall(x, "delete")
			if !ok {
				return false
			}
			f, _ := core.FieldOf(args[0])
			return f == mapF
		}
		if ha := p.DeclMethod(br.holderT, "HandleActive"); ha != nil && mapF != nil {
			c.Instance("R3")
			c.FuncsSeen[p.QName(ha)] = true
			q := &core.Query{P: p, Pred: mapUpdate}
			// add before forwarding
			var fwd ssa.Instruction
			core.AllInstrs(ha, func(x ssa.Instruction) {
				if cc := core.CallCommon(x); cc != nil && cc.IsInvoke() && cc.Method.Name() == "HandleActive" {
					fwd = x
				}
			})
			okb := fwd != nil
			if fwd != nil {
				t, _ := core.Search(nil, ha.Blocks[0], func(x ssa.Instruction) core.Action {
					if q.InstrMust(x, nil) {
						return core.Barrier
					}
					if x == fwd || core.IsNormalReturn(x) {
						return core.Target
					}
					return core.Continue
				}, nil)
				okb = t == nil
			}
			c.Check(okb, "R3", "holder/adds-on-active", p.Pos(ha.Pos()), "registers the channel before forwarding active", "the holder does not register the channel before forwarding the active event (Shutdown's CloseAll misses it)")
		}
		if hi := p.DeclMethod(br.holderT, "HandleInactive"); hi != nil && mapF != nil {
			c.Instance("R3")
			q := &core.Query{P: p, Pred: mapDelete}
			bad, _ := q.MustPassBetween(nil, hi.Blocks[0], nil, core.IsNormalReturn, nil)
			c.Check(bad == nil, "R3", "holder/removes-on-inactive", p.Pos(hi.Pos()), "removes the channel on inactive", "the holder does not remove the channel on inactive")
		}
		if ca := p.DeclMethod(br.holderT, "CloseAll"); ca != nil && mapF != nil {
			c.Instance("R3")
			c.FuncsSeen[p.QName(ca)] = true
			// swap under lock: a Store to the map field under the mutex, value = fresh make(map)
			swap := false
			swaps := map[ssa.Instruction]bool{}
			core.AllInstrs(ca, func(x ssa.Instruction) {
				st, ok := x.(*ssa.Store)
				if !ok {
					return
				}
				if f, _ := core.FieldOf(st.Addr); f != mapF {
					return
				}
				if _, isMake := core.Unwrap(st.Val).(*ssa.MakeMap); isMake && heldAt(x, hmu) {
					swap = true
					swaps[x] = true
				}
			})
			if swap {
				// on every path to the iteration: a conditional swap leaves the live map being iterated
				t, _ := core.Search(nil, ca.Blocks[0], func(x ssa.Instruction) core.Action {
					if swaps[x] {
						return core.Barrier
					}
					if _, ok := x.(*ssa.Range); ok {
						return core.Target
					}
					return core.Continue
				}, nil)
				if t != nil {
					swap = false
				}
			}
			c.Check(swap, "R3", "holder/closeall-swaps-under-lock", p.Pos(ca.Pos()), "replaces the map under the lock before closing", "CloseAll does not swap the channel map under the lock (iterates the live map while add/del mutate it, or deadlocks with delChannel)")
			// iterates the OLD map (value loaded before the swap) and closes each element without early exit
			var rng *ssa.Range
			var closeIn ssa.Instruction
			core.AllInstrs(ca, func(x ssa.Instruction) {
				if rg, ok := x.(*ssa.Range); ok {
					rng = rg
				}
				if cc := core.CallCommon(x); cc != nil && cc.IsInvoke() && cc.Method.Name() == "Close" {
					closeIn = x
				}
			})
			c.Instance("R3")
			okIter := rng != nil && closeIn != nil
			why := "no range over the channel map with a Close call"
			if okIter {
				// the ranged map is a load of the field taken under the lock (not a fresh load after unlock)
				if f, _ := core.FieldOf(rng.X); f != mapF {
					okIter, why = false, "CloseAll does not range over the holder's map"
				} else if ld, ok := core.Unwrap(rng.X).(*ssa.UnOp); ok && !heldAt(ld, hmu) {
					okIter, why = false, "the map to iterate is read outside the lock (races with add/del)"
				}
				// no unlocked iteration while holding...: Close call must be outside the lock
				if okIter && heldAt(closeIn, hmu) {
					okIter, why = false, "channels are closed while holding the holder's lock (inactive -> delChannel deadlocks)"
				}
				// Close executed for every element: from the loop's Next, the body reaches Close before looping back
				if okIter {
					var next ssa.Instruction
					core.AllInstrs(ca, func(x ssa.Instruction) {
						if n, ok := x.(*ssa.Next); ok && n.Iter == ssa.Value(rng) {
							next = x
						}
					})
					if next != nil {
						t, _ := core.Search(next, nil, func(x ssa.Instruction) core.Action {
							if x == closeIn {
								return core.Barrier
							}
							if x == next {
								return core.Target
							}
							return core.Continue
						}, nil)
						// a path Next -> Next without Close means some element is skipped
						if t != nil {
							okIter, why = false, "CloseAll can move on to the next channel without closing the current one (a channel is skipped: it stays open after Shutdown)"
						}
						// early exit: from Close, a return must be reachable only via Next (loop exhaustion)
						t2, _ := core.Search(closeIn, nil, func(x ssa.Instruction) core.Action {
							if x == next {
								return core.Barrier
							}
							if core.IsNormalReturn(x) {
								return core.Target
							}
							return core.Continue
						}, nil)
						if t2 != nil {
							okIter, why = false, "CloseAll can stop before every channel was closed"
						}
					}
				}
			}
			c.Check(okIter, "R3", "holder/closeall-closes-every-channel", p.Pos(ca.Pos()), "closes every element of the swapped-out map, outside the lock", why)
		}
	}
	// holder installed first in ServeChannel
	if sc != nil && br.holderF != nil {
		c.Instance("R3")
		var addFirst ssa.Instruction
		core.AllInstrs(sc, func(x ssa.Instruction) {
			if cc := core.CallCommon(x); cc != nil && cc.IsInvoke() && cc.Method.Name() == "AddFirst" {
				addFirst = x
			}
		})
		good := addFirst != nil
		why := "ServeChannel does not install the holder with AddFirst"
		if good {
			// argument is the holder; on every path where holder != nil before the channel is served
			var serve ssa.Instruction
			core.AllInstrs(sc, func(x ssa.Instruction) {
				if cc := core.CallCommon(x); cc != nil && cc.IsInvoke() && cc.Method.Name() == "ServeChannel" {
					serve = x
				}
			})
			holderNil := map[edgeKey]bool{}
			for _, ifi := range core.Ifs(sc) {
				cd := core.CondOf(ifi)
				for _, side := range [][2]ssa.Value{{cd.X, cd.Y}, {cd.Y, cd.X}} {
					if f, _ := core.FieldOf(side[0]); f == br.holderF && core.IsNilConst(side[1]) {
						nilSucc := cd.True
						if cd.Op == token.NEQ {
							nilSucc = cd.False
						}
						holderNil[edgeKey{ifi.Block(), nilSucc}] = true
					}
				}
			}
			if serve == nil {
				good, why = false, "pipeline ServeChannel call not found"
			} else {
				t, _ := core.Search(nil, sc.Blocks[0], func(x ssa.Instruction) core.Action {
					if x == addFirst {
						return core.Barrier
					}
					if x == serve {
						return core.Target
					}
					return core.Continue
				}, func(a, b *ssa.BasicBlock) bool { return !holderNil[edgeKey{a, b}] })
				if t != nil {
					good, why = false, "a path serves the channel without installing the holder first"
				}
				// after the initialiser: AddFirst comes after the initializer calls so that it ends up first
				core.AllInstrs(sc, func(x ssa.Instruction) {
					if cc := core.CallCommon(x); cc != nil && !cc.IsInvoke() {
						if f, _ := core.FieldOf(cc.Value); f != nil && core.NamedIs(f.Type(), p.Module, "ChannelInitializer") {
							if !core.Dominates(x, addFirst) {
								t2, _ := core.Search(addFirst, nil, func(y ssa.Instruction) core.Action {
									if y == x {
										return core.Target
									}
									return core.Continue
								}, nil)
								if t2 != nil {
									good, why = false, "the initialiser runs after the holder was installed (a handler added first by the user precedes the holder)"
								}
							}
						}
					}
				})
			}
		}
		c.Check(good, "R3", "holder/installed-first", p.Pos(sc.Pos()), "holder is added first, after the initialiser, before serving", why)
	}
	importObligations(c, runC05, "R3", func(o *core.Obligation) bool { return strings.Contains(o.Key, "active/before-reads") })
	// closing a channel closes its socket
	c.Rule("R7", "the transport wrappers' Close reaches the connection on every path (shared with C17-R6)", 1)
	importObligations(c, runC17, "R7", func(o *core.Obligation) bool { return o.Rule == "R6" })
	// CloseAll closes the channels one after the other: a Close that can block on itself stalls the rest
	c.Rule("R8", "Channel.Close elects its one effective call by a CAS; every other call returns at once (shared with C05-R1/R3)", 2)
	importObligations(c, runC05, "R8", func(o *core.Obligation) bool { return o.Rule == "R1" || o.Rule == "R3" || o.Rule == "R7" })

	runC13Listener(c, e, br, serverClosed)
}

func isPkgRelFunc(p *core.Prog, in ssa.Instruction, rel, name string) bool {
	o := core.CalleeObj(in)
	if o == nil || o.Pkg() == nil || o.Name() != name {
		return false
	}
	return o.Pkg().Path() == p.Module+"/"+rel && o.Type().(*types.Signature).Recv() == nil
}

// heldAt: mutex field mu is held at instruction in (Lock dominates, no Unlock on any path in between).
func heldAt(in ssa.Instruction, mu *types.Var) bool {
	if mu == nil {
		return false
	}
	fn := in.Parent()
	held := false
	core.AllInstrs(fn, func(x ssa.Instruction) {
		if _, isDefer := x.(*ssa.Defer); isDefer {
			return
		}
		if !mutexCall(x, mu, "Lock", "RLock") || !core.Dominates(x, in) {
			return
		}
		t, _ := core.Search(x, nil, func(y ssa.Instruction) core.Action {
			if y == in {
				return core.Barrier
			}
			if _, isDefer := y.(*ssa.Defer); !isDefer && mutexCall(y, mu, "Unlock", "RUnlock") {
				// is `in` reachable after this unlock without re-locking?
				t2, _ := core.Search(y, nil, func(z ssa.Instruction) core.Action {
					if z == in {
						return core.Target
					}
					if mutexCall(z, mu, "Lock", "RLock") {
						return core.Barrier
					}
					return core.Continue
				}, nil)
				if t2 != nil {
					return core.Target
				}
			}
			return core.Continue
		}, nil)
		if t == nil {
			held = true
		}
	})
	return held
}

func runC13Listener(c *core.Ctx, e *ev, br *bsRoles, serverClosed *ssa.Global) {
	p := c.P
	sync := p.DeclMethod(br.lisT, "Sync")
	cl := p.DeclMethod(br.lisT, "Close")
	if sync == nil || cl == nil {
		c.Bad("R4", "listener/methods", "", "listener Sync/Close not found")
		return
	}
	c.FuncsSeen[p.QName(sync)] = true
	c.FuncsSeen[p.QName(cl)] = true
	// ---- R4
	// publisher: the function that stores into the acceptor field
	var pubs []*ssa.Store
	for _, fn := range p.Funcs {
		for _, st := range core.StoresToField(fn, br.acceptorF) {
			if _, isAlloc := st.Addr.(*ssa.FieldAddr).X.(*ssa.Alloc); isAlloc {
				continue // composite literal construction
			}
			pubs = append(pubs, st)
		}
	}
	c.Instance("R4")
	if len(pubs) == 0 {
		c.Bad("R4", "listener/publish", p.Pos(sync.Pos()), "the acceptor is never stored into the listener")
	}
	for _, st := range pubs {
		fn := st.Parent()
		name := "listener/publish/" + core.FName(fn)
		c.FuncsSeen[p.QName(fn)] = true
		underLock := br.lmutexF != nil && heldAt(st, br.lmutexF)
		c.Check(underLock, "R4", name+"/under-mutex", p.InstrPos(st), "acceptor stored under the listener's mutex", "the acceptor is stored without the listener's mutex (data race with Close, and Close may miss it)")
		// closed / context observed before storing: the store is on the not-closed side of a test that involves the closed flag
		observes := false
		closedSideCloses := false
		for _, ifi := range core.Ifs(fn) {
			involves := condInvolvesField(ifi.Cond, br.lclosedF) || condInvolvesCtxErr(ifi.Cond)
			if !involves {
				continue
			}
			for bi, succ := range ifi.Block().Succs {
				if core.EdgeDominates(ifi.Block(), succ, st.Block()) {
					observes = true
					other := ifi.Block().Succs[1-bi]
					// other side: closes the fresh acceptor and returns a non-nil error
					q := &core.Query{P: p, Pred: func(x ssa.Instruction) bool {
						cc := core.CallCommon(x)
						return cc != nil && cc.IsInvoke() && cc.Method.Name() == "Close"
					}}
					bad, _ := q.MustPassBetween(nil, other, nil, core.IsNormalReturn, nil)
					retOK := true
					core.Search(nil, other, func(x ssa.Instruction) core.Action {
						if ret, ok := x.(*ssa.Return); ok {
							if len(ret.Results) == 0 {
								retOK = false
								return core.Barrier
							}
							// a merged return (inlined helper, single exit): only the phi edges that this side can
							// take count
							for _, v := range phiEdgesFrom(ret.Results[len(ret.Results)-1], other, st.Block()) {
								if !e.nonNilError(v, ret, 0) {
									retOK = false
								}
							}
							return core.Barrier
						}
						if x == ssa.Instruction(st) {
							return core.Barrier
						}
						return core.Continue
					}, nil)
					if bad == nil && retOK {
						closedSideCloses = true
					}
				}
			}
		}
		// "not-closed side" means the closed flag is known to be false where the acceptor is stored: the else side of
		// `closed && cancelled` does not establish that
		if observes && br.lclosedF != nil {
			established := false
			for _, f := range knownBools(st) {
				if _, isPhi := f.V.(*ssa.Phi); isPhi {
					continue
				}
				if !condInvolvesField(f.V, br.lclosedF) {
					continue
				}
				switch x := f.V.(type) {
				case *ssa.BinOp:
					// closed == false / closed != true known true, closed == true known false ...
					k, isC := x.Y.(*ssa.Const)
					if !isC {
						k, isC = x.X.(*ssa.Const)
					}
					if isC && isBool(k.Type()) {
						val := constBool(k)
						eq := x.Op == token.EQL
						// the comparison's truth tells the flag's value
						flag := (eq == f.Truth) == val
						if !flag {
							established = true
						}
					}
				default:
					if !f.Truth {
						established = true
					}
				}
			}
			if !established {
				observes = false
			}
		}
		c.Check(observes, "R4", name+"/observes-closed", p.InstrPos(st), "the acceptor is published only on the not-closed side of a test of the closed flag / bootstrap context", "the acceptor is published without testing whether the listener was closed or the bootstrap shut down (Listen().Async() followed by Shutdown leaves a live acceptor)")
		c.Check(!observes || closedSideCloses, "R4", name+"/closed-side-aborts", p.InstrPos(st), "on the closed side the fresh acceptor is closed and an error returned", "when the listener is already closed the fresh acceptor is not closed / no error is returned (accept loop starts anyway)")
	}
	// Close: closed flag set under mutex; acceptor read under mutex; non-nil acceptor closed
	c.Instance("R4")
	{
		var setClosed *ssa.Store
		for _, st := range core.StoresToField(cl, br.lclosedF) {
			setClosed = st
		}
		good, why := true, ""
		if br.lclosedF == nil || setClosed == nil {
			good, why = false, "Close does not record closure in listener state that Sync can observe"
		} else if !heldAt(setClosed, br.lmutexF) {
			good, why = false, "closed flag set outside the listener's mutex"
		}
		if good {
			var ld ssa.Instruction
			core.AllInstrs(cl, func(x ssa.Instruction) {
				if u, ok := x.(*ssa.UnOp); ok && u.Op == token.MUL {
					if f, _ := core.FieldOf(u); f == br.acceptorF {
						ld = x
					}
				}
			})
			if ld == nil {
				good, why = false, "Close never reads the acceptor"
			} else if !heldAt(ld, br.lmutexF) {
				good, why = false, "Close reads the acceptor outside the mutex"
			} else if !core.Dominates(setClosed, ld) {
				good, why = false, "Close reads the acceptor before recording closure (Sync can publish in between and neither side closes it)"
			} else {
				// non-nil acceptor is closed on every path
				q := &core.Query{P: p, Pred: func(x ssa.Instruction) bool {
					cc := core.CallCommon(x)
					return cc != nil && cc.IsInvoke() && cc.Method.Name() == "Close"
				}}
				for _, nb := range nonNilEdges(cl, ld.(ssa.Value)) {
					if bad, _ := q.MustPassBetween(nil, nb, nil, core.IsNormalReturn, nil); bad != nil {
						good, why = false, "a non-nil acceptor is not closed on every path of Close"
					}
				}
				if len(nonNilEdges(cl, ld.(ssa.Value))) == 0 {
					good, why = false, "acceptor not nil-tested in Close"
				}
			}
		}
		c.Check(good, "R4", "listener/close-records-and-closes", p.Pos(cl.Pos()), "Close sets the closed flag and reads the acceptor under the mutex, then closes it", why)
	}
	// Accept only after a successful publication
	var accepts []ssa.Instruction  // Accept invokes (in Sync or in a helper holding the accept loop)
	var acceptAt []ssa.Instruction // the instruction of Sync that stands for each (the invoke itself or the helper call)
	loopFn := sync
	core.AllInstrs(sync, func(x ssa.Instruction) {
		cc := core.CallCommon(x)
		if cc == nil {
			return
		}
		if cc.IsInvoke() && cc.Method.Name() == "Accept" {
			accepts = append(accepts, x)
			acceptAt = append(acceptAt, x)
			return
		}
		if cal := cc.StaticCallee(); cal != nil && p.InRepo(cal) && !cc.IsInvoke() {
			core.AllInstrs(cal, func(y ssa.Instruction) {
				if yc := core.CallCommon(y); yc != nil && yc.IsInvoke() && yc.Method.Name() == "Accept" {
					accepts = append(accepts, y)
					acceptAt = append(acceptAt, x)
					loopFn = cal
					c.FuncsSeen[p.QName(cal)] = true
				}
			})
		}
	})
	c.Instance("R4")
	pubQ := &core.Query{P: p, Pred: func(x ssa.Instruction) bool {
		for _, st := range pubs {
			if x == ssa.Instruction(st) {
				return true
			}
		}
		return false
	}}
	okAcc := len(accepts) > 0
	for _, a := range acceptAt {
		t, _ := core.Search(nil, sync.Blocks[0], func(x ssa.Instruction) core.Action {
			if pubQ.InstrMay(x, nil) {
				// must be followed by an error test whose ok side leads on
				return core.Barrier
			}
			if x == a {
				return core.Target
			}
			return core.Continue
		}, nil)
		if t != nil {
			okAcc = false
		}
		// the publishing call's error result guards the loop
		core.AllInstrs(sync, func(x ssa.Instruction) {
			if _, isStore := x.(*ssa.Store); isStore {
				return
			}
			if core.CallCommon(x) != nil && pubQ.InstrMay(x, nil) {
				errv := errOfCall(x)
				if errv == nil {
					okAcc = false
					return
				}
				t2, _ := core.Search(x, nil, func(y ssa.Instruction) core.Action {
					if y == a {
						return core.Target
					}
					return core.Continue
				}, func(pa, pb *ssa.BasicBlock) bool { return !isErrNilEdge(pa, pb, errv) })
				if t2 != nil {
					okAcc = false
				}
			}
		})
	}
	c.Check(okAcc, "R4", "listener/accept-after-publication", p.Pos(sync.Pos()), "Accept is reached only after the acceptor was published successfully", "the accept loop can start although publishing the acceptor failed / was skipped (listener accepts after Close or Shutdown)")

	// ---- R5
	for _, a := range accepts {
		c.Instance("R5")
		errv := errOfCall(a)
		// error side: every path returns (no loop back to Accept)
		t, path := core.Search(a, nil, func(x ssa.Instruction) core.Action {
			if x == a {
				return core.Target
			}
			return core.Continue
		}, func(pa, pb *ssa.BasicBlock) bool { return !isErrNilEdge(pa, pb, errv) })
		c.Check(t == nil && errv != nil, "R5", "accept-loop/error-exits", p.InstrPos(a), "an Accept error ends the loop", "the accept loop continues after an Accept error (spins on a closed acceptor / never reports server-closed)", p.PathString(path, t)...)
		// error side with context done returns the sentinel
		retSentinel := false
		var yieldsSentinel func(v ssa.Value, d int) bool
		yieldsSentinel = func(v ssa.Value, d int) bool {
			if d > 3 || serverClosed == nil {
				return false
			}
			v = core.Unwrap(v)
			if ld, ok := v.(*ssa.UnOp); ok && ld.X == ssa.Value(serverClosed) {
				return true
			}
			if phi, ok := v.(*ssa.Phi); ok {
				for _, e := range phi.Edges {
					if yieldsSentinel(e, d+1) {
						return true
					}
				}
			}
			// the choice between the sentinel and the Accept error made by a helper
			for _, r := range throughReturns(p, v) {
				if yieldsSentinel(r.val, d+1) {
					return true
				}
			}
			return false
		}
		core.AllInstrs(loopFn, func(x ssa.Instruction) {
			if ret, ok := x.(*ssa.Return); ok && len(ret.Results) == 1 && yieldsSentinel(ret.Results[0], 0) {
				retSentinel = true
			}
		})
		c.Check(retSentinel, "R5", "accept-loop/server-closed", p.InstrPos(a), "returns the server-closed error when the context is done", "the accept loop never returns the server-closed error")
		// success side: served before the next Accept or any return
		serve := &core.Query{P: p, Pred: func(x ssa.Instruction) bool {
			cc := core.CallCommon(x)
			if cc == nil {
				return false
			}
			if f := cc.StaticCallee(); f != nil && f.Name() == "ServeChannel" {
				// the accepted transport is passed
				tv := transportOfAccept(a)
				for _, arg := range cc.Args {
					if tv != nil && core.SameValue(arg, tv) {
						return true
					}
				}
			}
			return false
		}}
		c.Instance("R5")
		t, path = core.Search(a, nil, func(x ssa.Instruction) core.Action {
			if serve.InstrMust(x, nil) {
				return core.Barrier
			}
			if x == a || core.IsNormalReturn(x) {
				return core.Target
			}
			return core.Continue
		}, func(pa, pb *ssa.BasicBlock) bool { return !isErrNonNilEdge(pa, pb, errv) })
		c.Check(t == nil, "R5", "accept-loop/serves-every-accepted", p.InstrPos(a), "every successfully accepted transport is served", "a successfully accepted transport can be dropped without being served or closed (connection leaked, never closed by Shutdown)", p.PathString(path, t)...)
	}
	// tcp acceptor
	for _, st := range p.StructTypes("transport/tcp") {
		acc := lookupNamedT(p.TPkg("transport"), "Acceptor")
		if acc == nil || !core.Implements(st, acc) {
			continue
		}
		c.Instance("R5")
		clf := p.DeclMethod(st, "Close")
		af := p.DeclMethod(st, "Accept")
		good, why := clf != nil && af != nil, "tcp acceptor methods not found"
		if good {
			c.FuncsSeen[p.QName(clf)] = true
			var cas ssa.Value
			core.AllInstrs(clf, func(x ssa.Instruction) {
				if a := core.AsAtomic(x); a != nil && a.Kind == "cas" {
					cas = x.(ssa.Value)
				}
			})
			if cas == nil {
				good, why = false, "tcp acceptor Close is not elected by a CAS (listener may be closed twice / not at all)"
			} else {
				closes := false
				for _, ts := range e.trueEdgesOf(cas) {
					q := &core.Query{P: p, Pred: func(x ssa.Instruction) bool {
						o := core.CalleeObj(x)
						return o != nil && o.Name() == "Close"
					}}
					if bad, _ := q.MustPassBetween(nil, ts, nil, core.IsNormalReturn, nil); bad == nil {
						closes = true
					}
				}
				if !closes {
					good, why = false, "the winning Close does not close the OS listener"
				}
			}
			// Accept: when closed flag set, returns the error (does not retry)
			loadsClosed := false
			core.AllInstrs(af, func(x ssa.Instruction) {
				if a := core.AsAtomic(x); a != nil && a.Kind == "load" {
					loadsClosed = true
				}
			})
			if !loadsClosed {
				good, why = false, "Accept does not consult the closed flag (keeps retrying after Close)"
			}
		}
		c.Check(good, "R5", "tcp-acceptor/"+st.Obj().Name(), "", "closes the listener once; Accept stops when closed", why)
	}

	// ---- R6
	if lf := p.DeclMethod(br.bsT, "Listen"); lf != nil {
		c.Instance("R6")
		c.FuncsSeen[p.QName(lf)] = true
		q := &core.Query{P: p, Pred: func(x ssa.Instruction) bool {
			o := core.CalleeObj(x)
			if o == nil || core.RecvNamed(o) == nil || core.RecvNamed(o).Name() != "Map" {
				return false
			}
			return o.Name() == "LoadOrStore" || o.Name() == "Store"
		}}
		bad, _ := q.MustPassBetween(nil, lf.Blocks[0], nil, core.IsNormalReturn, nil)
		c.Check(bad == nil, "R6", "Listen/registers", p.Pos(lf.Pos()), "every returned listener is registered", "Listen can return a listener that is not in the registry (Shutdown never closes it)")
	}
	c.Instance("R6")
	del := &core.Query{P: p, Pred: func(x ssa.Instruction) bool {
		o := core.CalleeObj(x)
		return o != nil && core.RecvNamed(o) != nil && core.RecvNamed(o).Name() == "Map" && (o.Name() == "Delete" || o.Name() == "LoadAndDelete")
	}}
	bad, _ := del.MustPassBetween(nil, cl.Blocks[0], nil, core.IsNormalReturn, nil)
	c.Check(bad == nil, "R6", "listener-Close/deregisters", p.Pos(cl.Pos()), "Close removes the listener from the registry", "Listener.Close does not deregister the listener")
	// and only Close does: a listener that leaves the registry any other way (an error path of Sync "releasing the
	// url") can be started again and is then invisible to Shutdown
	c.Instance("R6")
	other := ""
	for _, fn := range p.Funcs {
		if p.PkgRel(fn) != "." {
			continue
		}
		core.AllInstrs(fn, func(x ssa.Instruction) {
			if !del.Pred(x) {
				return
			}
			// the deletion itself, or the function that performs it, must be reached only from the listener's Close
			owner := core.Outermost(fn)
			if owner == cl {
				return
			}
			for _, g := range p.Funcs {
				if p.PkgRel(g) != "." {
					continue
				}
				core.AllInstrs(g, func(y ssa.Instruction) {
					cc := core.CallCommon(y)
					if cc == nil || cc.IsInvoke() || cc.StaticCallee() != owner {
						return
					}
					if core.Outermost(g) != cl {
						other = p.InstrPos(y)
					}
				})
			}
		})
	}
	c.Check(other == "", "R6", "listener-registry/only-Close-deregisters", p.Pos(cl.Pos()), "the registry entry is removed only on behalf of Listener.Close", "a listener is removed from the registry outside Listener.Close ("+other+"): it can still be started afterwards and Shutdown will not find it")
}

func transportOfAccept(a ssa.Instruction) ssa.Value {
	v, ok := a.(ssa.Value)
	if !ok || v.Referrers() == nil {
		return nil
	}
	for _, ref := range *v.Referrers() {
		if ex, ok := ref.(*ssa.Extract); ok && ex.Index == 0 {
			return ex
		}
	}
	return nil
}

func condInvolvesField(v ssa.Value, f *types.Var) bool {
	if f == nil {
		return false
	}
	seen := map[ssa.Value]bool{}
	var walk func(ssa.Value, int) bool
	walk = func(x ssa.Value, d int) bool {
		if x == nil || seen[x] || d > 6 {
			return false
		}
		seen[x] = true
		if fv, _ := core.FieldOf(x); fv == f {
			return true
		}
		switch y := x.(type) {
		case *ssa.BinOp:
			return walk(y.X, d+1) || walk(y.Y, d+1)
		case *ssa.UnOp:
			return walk(y.X, d+1)
		case *ssa.Phi:
			for _, e := range y.Edges {
				if walk(e, d+1) {
					return true
				}
			}
			// short-circuit: the predecessor's branch condition
			for _, pb := range y.Block().Preds {
				if ifi, ok := pb.Instrs[len(pb.Instrs)-1].(*ssa.If); ok && walk(ifi.Cond, d+1) {
					return true
				}
			}
		case *ssa.Call:
			if a := core.AsAtomic(y); a != nil && a.Field == f {
				return true
			}
		}
		return false
	}
	return walk(v, 0)
}

func condInvolvesCtxErr(v ssa.Value) bool {
	seen := map[ssa.Value]bool{}
	var walk func(ssa.Value, int) bool
	walk = func(x ssa.Value, d int) bool {
		if x == nil || seen[x] || d > 6 {
			return false
		}
		seen[x] = true
		switch y := x.(type) {
		case *ssa.BinOp:
			return walk(y.X, d+1) || walk(y.Y, d+1)
		case *ssa.UnOp:
			return walk(y.X, d+1)
		case *ssa.Phi:
			for _, e := range y.Edges {
				if walk(e, d+1) {
					return true
				}
			}
		case *ssa.Call:
			if y.Call.IsInvoke() && y.Call.Method.Name() == "Err" && core.NamedIs(y.Call.Value.Type(), "context", "Context") {
				return true
			}
		}
		return false
	}
	return walk(v, 0)
}

// isErrNilEdge: edge a->b is taken only when errv == nil.
func isErrNilEdge(a, b *ssa.BasicBlock, errv ssa.Value) bool {
	if errv == nil || len(a.Instrs) == 0 {
		return false
	}
	ifi, ok := a.Instrs[len(a.Instrs)-1].(*ssa.If)
	if !ok {
		return false
	}
	c := core.CondOf(ifi)
	var other ssa.Value
	if sameErr(c.X, errv) {
		other = c.Y
	} else if sameErr(c.Y, errv) {
		other = c.X
	} else {
		return false
	}
	if !core.IsNilConst(other) {
		return false
	}
	switch c.Op {
	case token.EQL:
		return b == c.True
	case token.NEQ:
		return b == c.False
	}
	return false
}

// phiEdgesFrom: the values v can take on paths that start in block from and never enter block avoid:
// v itself when it is not a phi, else (recursively) the incoming values whose predecessor block is
// reachable from `from` without passing `avoid`.
func phiEdgesFrom(v ssa.Value, from, avoid *ssa.BasicBlock) []ssa.Value {
	reach := map[*ssa.BasicBlock]bool{}
	var walk func(b *ssa.BasicBlock)
	walk = func(b *ssa.BasicBlock) {
		if reach[b] || b == avoid {
			return
		}
		reach[b] = true
		for _, s := range b.Succs {
			walk(s)
		}
	}
	walk(from)
	var out []ssa.Value
	seen := map[ssa.Value]bool{}
	var flat func(x ssa.Value, d int)
	flat = func(x ssa.Value, d int) {
		if seen[x] {
			return
		}
		seen[x] = true
		phi, ok := x.(*ssa.Phi)
		if !ok || d > 6 {
			out = append(out, x)
			return
		}
		for i, e := range phi.Edges {
			if reach[phi.Block().Preds[i]] {
				flat(e, d+1)
			}
		}
	}
	flat(v, 0)
	return out
}
