package rules

import (
	"go/token"
	"go/types"
	"strings"

	"golang.org/x/tools/go/ssa"
	"verif/checker/internal/core"
)

func init() {
	register(&Property{
		ID:    "C11",
		Title: "Writes on a closed channel fail and transmit nothing",
		Explanation: "DECIDES (typestate: Close sets the closed flag before it returns - C05 - so the property reduces to what each write entry point tests before it touches the queue or the transport): " +
			"R1 in every write entry point (Write, Write1, Writev, CtxWrite1, CtxWritev, ReadFrom, Writer().Write) every path to an enqueue, a transport write, a pipeline write event or a success return first passes the open side of a test of the closed FLAG (Load(closed)==0 / IsActive), and a loop re-tests before every further write; a test of the stored close error is not a closed-state test (Close(nil) leaves it nil); " +
			"R2 the closed side of that test returns, without any write event, an error that is provably non-nil (sentinel, fresh error, or a value guarded by a nil test); " +
			"R3 every select state of the enqueueing functions that did not enqueue returns a provably non-nil error: the channel-context state through the closed-error helper, the caller-context state through Err() of that same context, the default arm through the queue-full sentinel. " +
			"ALSO: HandlerContext.Close closes synchronously; Flush failures are reported; ReadFrom's failed-write exit returns the write's error (imports listed in RULES.md). " +
			"DOES NOT DECIDE: writes overlapping a Close that has not returned; what the transport does after its own Close.",
		Assumptions: []string{"C05: the closed flag is set before any Close call returns", "context.Context.Err() is non-nil once Done() is closed"},
		Run:         runC11,
	})
}

// isActiveFunc: fn returns Load(closed)==0.
func (e *ev) isActiveFunc(fn *ssa.Function) bool {
	if fn == nil || fn.Blocks == nil || fn.Signature.Results().Len() != 1 {
		return false
	}
	good := false
	core.AllInstrs(fn, func(in ssa.Instruction) {
		if ret, ok := in.(*ssa.Return); ok && len(ret.Results) == 1 {
			if b, ok := ret.Results[0].(*ssa.BinOp); ok && b.Op == token.EQL {
				for _, side := range [][2]ssa.Value{{b.X, b.Y}, {b.Y, b.X}} {
					if li, ok := side[0].(ssa.Instruction); ok && e.closedLoad(li) {
						if k, isC := core.ConstInt(side[1]); isC && k == 0 {
							good = true
						}
					}
				}
			}
		}
	})
	return good
}

// openEdges: CFG edges of fn on which the channel was just observed open (closed flag == 0).
func (e *ev) openClosedEdges(fn *ssa.Function) (open, closed map[edgeKey]bool) {
	open, closed = map[edgeKey]bool{}, map[edgeKey]bool{}
	for _, ifi := range core.Ifs(fn) {
		cd := core.CondOf(ifi)
		var openSucc, closedSucc *ssa.BasicBlock
		switch {
		case cd.Op == token.ILLEGAL:
			// bool value: IsActive() call (static or via Channel interface)
			if call, ok := cd.X.(*ssa.Call); ok {
				isAct := false
				if f := call.Call.StaticCallee(); f != nil && e.isActiveFunc(f) {
					isAct = true
				}
				if call.Call.IsInvoke() && call.Call.Method.Name() == "IsActive" && ifaceInvoke(call, e.r.ChannelIface, "IsActive") {
					isAct = true
				}
				if isAct {
					openSucc, closedSucc = cd.True, cd.False
				}
			}
		case (cd.Op == token.EQL || cd.Op == token.NEQ) && e.isOpenErrCheck(cd) != nil:
			// err := c.ensureOpen(); err != nil  (helper returning the closed error, nil only when open)
			if cd.Op == token.EQL {
				openSucc, closedSucc = cd.True, cd.False
			} else {
				openSucc, closedSucc = cd.False, cd.True
			}
		case cd.Op == token.EQL || cd.Op == token.NEQ:
			for _, side := range [][2]ssa.Value{{cd.X, cd.Y}, {cd.Y, cd.X}} {
				if li, ok := side[0].(ssa.Instruction); ok && e.closedLoad(li) {
					if k, isC := core.ConstInt(side[1]); isC && k == 0 {
						if cd.Op == token.EQL {
							openSucc, closedSucc = cd.True, cd.False
						} else {
							openSucc, closedSucc = cd.False, cd.True
						}
					}
				}
			}
		}
		if openSucc != nil {
			open[edgeKey{ifi.Block(), openSucc}] = true
			closed[edgeKey{ifi.Block(), closedSucc}] = true
		}
	}
	return
}

// isOpenErrCheck: cond compares with nil the result of a repo helper that returns nil only after
// observing the closed flag open and a provably non-nil error otherwise. Returns the helper.
func (e *ev) isOpenErrCheck(cd *core.Cond) *ssa.Function {
	for _, side := range [][2]ssa.Value{{cd.X, cd.Y}, {cd.Y, cd.X}} {
		if !core.IsNilConst(side[1]) {
			continue
		}
		v := core.Unwrap(core.ForwardLoad(core.Unwrap(side[0])))
		call, ok := v.(*ssa.Call)
		if !ok || call.Call.IsInvoke() {
			continue
		}
		f := call.Call.StaticCallee()
		if f == nil || !e.p.InRepo(f) || f.Signature.Results().Len() != 1 || !isErrorT(f.Signature.Results().At(0).Type()) {
			continue
		}
		if e.openErrFuncs == nil {
			e.openErrFuncs = map[*ssa.Function]int{}
		}
		if st, ok := e.openErrFuncs[f]; ok {
			if st == 1 {
				return f
			}
			continue
		}
		e.openErrFuncs[f] = 0
		open, _ := e.openClosedEdges(f)
		if len(open) == 0 {
			continue
		}
		good := true
		core.AllInstrs(f, func(in ssa.Instruction) {
			ret, ok := in.(*ssa.Return)
			if !ok {
				return
			}
			if core.IsNilConst(ret.Results[0]) {
				if t, _ := core.Search(nil, f.Blocks[0], func(x ssa.Instruction) core.Action {
					if x == ssa.Instruction(ret) {
						return core.Target
					}
					return core.Continue
				}, func(a, b *ssa.BasicBlock) bool { return !open[edgeKey{a, b}] }); t != nil {
					good = false
				}
			} else if !e.nonNilError(ret.Results[0], ret, 0) {
				good = false
			}
		})
		if good {
			e.openErrFuncs[f] = 1
			return f
		}
	}
	return nil
}

func (e *ev) writeEvent(in ssa.Instruction) bool {
	return e.queueSend(in) || e.transportInvoke(in, "Write", "Writev") || ifaceInvoke(in, e.r.PipelineIface, "FireChannelWrite")
}

// guarded: every path from fn's entry to a write event (direct, or a call of a callee that performs one
// without being guarded itself) passes an open edge first; and after a write event no further one is
// reachable without a new open edge. Memoised per function.
func (e *ev) guardedWriter(fn *ssa.Function, memo map[*ssa.Function]int, depth int) (bool, string, []string) {
	if v, ok := memo[fn]; ok {
		return v == 1, "", nil
	}
	memo[fn] = 1 // optimistic for recursion
	if depth > 5 || fn.Blocks == nil {
		memo[fn] = 0
		return false, "call chain too deep", nil
	}
	open, _ := e.openClosedEdges(fn)
	ev := &core.Query{P: e.p, Pred: e.writeEvent, MaxDepth: 5}
	isUnguardedEvent := func(in ssa.Instruction) bool {
		if e.writeEvent(in) {
			return true
		}
		if _, isDefer := in.(*ssa.Defer); isDefer {
			return false
		}
		if core.CallCommon(in) == nil || !ev.InstrMay(in, nil) {
			return false
		}
		cs := e.p.Callees(in, nil)
		env := core.Env(nil)
		for _, cal := range cs {
			if !e.p.InRepo(cal) {
				continue
			}
			// closures passed to helpers (invokeMethod(func(){ fire })) count as events of this function
			if okc, _, _ := e.guardedWriter(cal, memo, depth+1); !okc {
				_ = env
				return true
			}
		}
		// closure argument that performs a write event
		if cc := core.CallCommon(in); cc != nil {
			for _, a := range cc.Args {
				if f := core.FuncValue(a, nil); f != nil && ev.May(f, nil) {
					if okc, _, _ := e.guardedWriter(f, memo, depth+1); !okc {
						return true
					}
				}
			}
		}
		return false
	}
	filter := func(a, b *ssa.BasicBlock) bool { return !open[edgeKey{a, b}] }
	tgt, path := core.Search(nil, fn.Blocks[0], func(in ssa.Instruction) core.Action {
		if isUnguardedEvent(in) {
			return core.Target
		}
		return core.Continue
	}, filter)
	if tgt != nil {
		memo[fn] = 0
		return false, "a write event is reachable without first observing the closed flag open: " + e.p.InstrPos(tgt), e.p.PathString(path, tgt)
	}
	// re-test before every further write
	var bad ssa.Instruction
	var badPath []*ssa.BasicBlock
	core.AllInstrs(fn, func(in ssa.Instruction) {
		if bad != nil || !isUnguardedEvent(in) {
			return
		}
		t, pth := core.Search(in, nil, func(x ssa.Instruction) core.Action {
			if isUnguardedEvent(x) {
				return core.Target
			}
			return core.Continue
		}, filter)
		if t != nil && !e.sameWriteUnit(in, t) {
			bad, badPath = t, pth
		}
	})
	if bad != nil {
		memo[fn] = 0
		return false, "a further write is performed without re-testing the closed flag (a Close that returned in between is not noticed): " + e.p.InstrPos(bad), e.p.PathString(badPath, bad)
	}
	return true, "", nil
}

// sameWriteUnit: two events that belong to one write (transport Write followed by Flush is not an
// event pair; enqueue in either branch of the mode switch are alternatives) - events in the same
// function that are not in a loop with each other are accepted only if they are mutually exclusive
// alternatives (neither reaches the other is handled by the search itself), so any reachable pair is real.
func (e *ev) sameWriteUnit(a, b ssa.Instruction) bool { return false }

func runC11(c *core.Ctx) {
	e, ok := newEv(c)
	if !ok {
		return
	}
	p, r := c.P, e.r
	c.Rule("R1", "every write entry point tests the closed flag before any write event, and re-tests before every further write", 7)
	c.Rule("R2", "the closed side returns a provably non-nil error and performs no write event", 1)
	c.Rule("R3", "select states that did not enqueue return a provably non-nil error", 2)
	c.Rule("R4", "closing through a handler context closes the channel before returning, and a flush failure of the buffered writer is reported (shared with C05-R9, C17 Flush)", 2)
	importObligations(c, runC05, "R4", func(o *core.Obligation) bool { return o.Rule == "R9" })
	importObligations(c, runC14, "R4", func(o *core.Obligation) bool { return strings.Contains(o.Key, "ReadFrom/write-error") })
	importObligations(c, runC17, "R4", func(o *core.Obligation) bool { return strings.Contains(o.Key, "/Flush/") || o.Rule == "R5" })

	entries := []string{"Write", "Write1", "Writev", "CtxWrite1", "CtxWritev", "ReadFrom"}
	memo := map[*ssa.Function]int{}
	var fns []*ssa.Function
	for _, name := range entries {
		fn := p.DeclMethod(r.Chan, name)
		if fn == nil {
			c.Bad("R1", "entry/"+name, "", "write entry point not found on the channel type")
			continue
		}
		fns = append(fns, fn)
	}
	// Writer().Write
	if wf := p.DeclMethod(r.Chan, "Writer"); wf != nil {
		core.AllInstrs(wf, func(in ssa.Instruction) {
			if mi, ok := in.(*ssa.MakeInterface); ok {
				if n, ok := types.Unalias(mi.X.Type()).(*types.Named); ok {
					if w := p.Method(n, "Write"); w != nil && p.InRepo(w) {
						fns = append(fns, w)
					}
				}
			}
		})
	}
	for _, fn := range fns {
		c.Instance("R1")
		c.FuncsSeen[p.QName(fn)] = true
		name := "entry/" + core.FName(fn)
		// the writer adapter calls Channel.Write1 through the interface: resolve to the implementation
		if !e.isChanMethod(fn) {
			okDelegates := false
			core.AllInstrs(fn, func(in ssa.Instruction) {
				if cc := core.CallCommon(in); cc != nil && cc.IsInvoke() && ifaceInvoke(in, r.ChannelIface, entries...) {
					okDelegates = true
				}
			})
			c.Check(okDelegates, "R1", name, p.Pos(fn.Pos()), "delegates to a checked entry point of the channel", "io.Writer adapter does not go through a checked write entry point")
			continue
		}
		okg, why, path := e.guardedWriter(fn, memo, 0)
		c.Check(okg, "R1", name, p.Pos(fn.Pos()), "closed flag observed open before every write event", why, path...)
		// success return without observing the flag
		open, closed := e.openClosedEdges(fn)
		core.AllInstrs(fn, func(in ssa.Instruction) {
			ret, ok := in.(*ssa.Return)
			if !ok {
				return
			}
			if isNil, has := errResultIsNilConst(ret); has && isNil {
				tgt, pth := core.Search(nil, fn.Blocks[0], func(x ssa.Instruction) core.Action {
					if x == ssa.Instruction(ret) {
						return core.Target
					}
					return core.Continue
				}, func(a, b *ssa.BasicBlock) bool { return !open[edgeKey{a, b}] })
				c.Check(tgt == nil, "R1", name+"/success-needs-open", p.InstrPos(ret), "a constant-nil error return is reachable only after observing the flag open", "a success return is reachable without the closed flag having been observed open", p.PathString(pth, tgt)...)
			}
		})
		// ---- R2 closed side
		for ck := range closed {
			c.Instance("R2")
			nm := "closed-side/" + core.FName(fn)
			ev := &core.Query{P: p, Pred: e.writeEvent, MaxDepth: 5}
			tgt, pth := core.Search(nil, ck[1], func(x ssa.Instruction) core.Action {
				if ret, ok := x.(*ssa.Return); ok {
					if len(ret.Results) == 0 {
						return core.Target
					}
					last := ret.Results[len(ret.Results)-1]
					if !isErrorT(last.Type()) || !e.nonNilError(last, ret, 0) {
						return core.Target
					}
					return core.Barrier
				}
				if _, isDefer := x.(*ssa.Defer); !isDefer && ev.InstrMay(x, nil) {
					return core.Target
				}
				// closure handed to a helper that fires a write
				if cc := core.CallCommon(x); cc != nil {
					for _, a := range cc.Args {
						if f := core.FuncValue(a, nil); f != nil && ev.May(f, nil) {
							return core.Target
						}
					}
				}
				return core.Continue
			}, func(a, b *ssa.BasicBlock) bool { return !open[edgeKey{a, b}] })
			c.Check(tgt == nil, "R2", nm, p.Pos(fn.Pos()), "closed side returns a provably non-nil error and performs no write", "on the closed side the call can perform a write event or return an error that may be nil (reports success for discarded data)", p.PathString(pth, tgt)...)
		}
	}
	// helper functions that carry the check for an entry point (write1): their closed side too
	for _, fn := range p.Funcs {
		if !e.isChanMethod(fn) || fn.Parent() != nil {
			continue
		}
		isEntry := false
		for _, f := range fns {
			if f == fn {
				isEntry = true
			}
		}
		if isEntry {
			continue
		}
		open, closed := e.openClosedEdges(fn)
		if len(closed) == 0 {
			continue
		}
		evq := &core.Query{P: p, Pred: e.writeEvent, MaxDepth: 5}
		if !evq.May(fn, nil) {
			continue
		}
		for ck := range closed {
			c.Instance("R2")
			c.FuncsSeen[p.QName(fn)] = true
			tgt, pth := core.Search(nil, ck[1], func(x ssa.Instruction) core.Action {
				if ret, ok := x.(*ssa.Return); ok {
					if len(ret.Results) == 0 {
						return core.Barrier
					}
					last := ret.Results[len(ret.Results)-1]
					if isErrorT(last.Type()) && !e.nonNilError(last, ret, 0) {
						return core.Target
					}
					return core.Barrier
				}
				if _, isDefer := x.(*ssa.Defer); !isDefer && evq.InstrMay(x, nil) {
					return core.Target
				}
				return core.Continue
			}, func(a, b *ssa.BasicBlock) bool { return !open[edgeKey{a, b}] })
			c.Check(tgt == nil, "R2", "closed-side/"+core.FName(fn), p.Pos(fn.Pos()), "closed side returns a provably non-nil error and performs no write", "on the closed side the helper can perform a write event or return an error that may be nil", p.PathString(pth, tgt)...)
		}
	}

	// ---- R3 select states
	for _, E := range r.Enqueuers {
		c.FuncsSeen[p.QName(E)] = true
		for si, sinfo := range e.sendSelects(E) {
			for _, st := range sinfo.States {
				if st.Send != nil || st.Body == nil {
					continue
				}
				c.Instance("R3")
				name := core.FName(E) + "/select#" + itoa(si+1) + "/state#" + itoa(st.Index)
				// which context's Done() is this?
				doneOf := doneReceiver(st.Chan)
				tgt, pth := core.Search(nil, st.Body, func(x ssa.Instruction) core.Action {
					ret, ok := x.(*ssa.Return)
					if !ok {
						return core.Continue
					}
					last := ret.Results[len(ret.Results)-1]
					if e.nonNilError(last, ret, 0) {
						return core.Barrier
					}
					// Err() of the same context whose Done() fired
					if call, ok := core.Unwrap(last).(*ssa.Call); ok && call.Call.IsInvoke() && call.Call.Method.Name() == "Err" && doneOf != nil && core.SameValue(call.Call.Value, doneOf) {
						return core.Barrier
					}
					return core.Target
				}, nil)
				c.Check(tgt == nil, "R3", name, p.InstrPos(sinfo.Sel), "returns a provably non-nil error", "a select state that did not enqueue can return a nil error (caller told the data was accepted): the returned error is not provably non-nil on this state", p.PathString(pth, tgt)...)
			}
			if sinfo.Default != nil {
				c.Instance("R3")
				name := core.FName(E) + "/select#" + itoa(si+1) + "/default"
				tgt, pth := core.Search(nil, sinfo.Default, func(x ssa.Instruction) core.Action {
					ret, ok := x.(*ssa.Return)
					if !ok {
						return core.Continue
					}
					if e.nonNilError(ret.Results[len(ret.Results)-1], ret, 0) {
						return core.Barrier
					}
					return core.Target
				}, nil)
				c.Check(tgt == nil, "R3", name, p.InstrPos(sinfo.Sel), "returns a provably non-nil error", "the queue-full arm can return a nil error", p.PathString(pth, tgt)...)
			}
		}
	}
}

// doneReceiver: for v = X.Done() returns X.
func doneReceiver(v ssa.Value) ssa.Value {
	call, ok := core.Unwrap(v).(*ssa.Call)
	if !ok || !call.Call.IsInvoke() || call.Call.Method.Name() != "Done" {
		return nil
	}
	return call.Call.Value
}

// nonNilError: v, used at instruction `at`, cannot be nil.
func (e *ev) nonNilByShape(v ssa.Value, at ssa.Instruction, depth int) bool {
	switch x := v.(type) {
	case *ssa.Const:
		return !x.IsNil()
	case *ssa.UnOp:
		if x.Op == token.MUL {
			if g, ok := x.X.(*ssa.Global); ok {
				// package-level error sentinel of the repository (initialised once with errors.New)
				return g.Pkg != nil && e.p.SSAPkgs[g.Pkg.Pkg.Path()] == g.Pkg && e.sentinelInit(g)
			}
			if fl := core.ForwardLoad(x); fl != ssa.Value(x) {
				return e.nonNilError(fl, at, depth+1)
			}
		}
	case *ssa.Phi:
		for _, ed := range x.Edges {
			if !e.nonNilError(ed, at, depth+1) {
				return false
			}
		}
		return true
	case *ssa.MakeInterface:
		return true
	case *ssa.Call:
		if core.IsPkgFunc(x, "errors", "New") || core.IsPkgFunc(x, "fmt", "Errorf") {
			return true
		}
		if f := x.Call.StaticCallee(); f != nil && e.p.InRepo(f) && f.Blocks != nil {
			all, n := true, 0
			core.AllInstrs(f, func(in ssa.Instruction) {
				if ret, ok := in.(*ssa.Return); ok && len(ret.Results) > 0 {
					n++
					if !e.nonNilError(ret.Results[len(ret.Results)-1], ret, depth+1) {
						all = false
					}
				}
			})
			return all && n > 0
		}
	}
	return false
}

func (e *ev) nonNilError(v ssa.Value, at ssa.Instruction, depth int) bool {
	if depth > 4 {
		return false
	}
	v = core.Unwrap(v)
	if e.nonNilByShape(v, at, depth) {
		return true
	}
	// guarded by a dominating nil test of v
	if at != nil && nonNilGuarded(e.p, at, v) {
		return true
	}
	// Field extraction from a struct whose field was nil-tested: `box.err` guarded by `nil != box.err`
	if f, ok := v.(*ssa.Field); ok && at != nil {
		for _, ifi := range core.Ifs(at.Parent()) {
			cd := core.CondOf(ifi)
			for _, side := range [][2]ssa.Value{{cd.X, cd.Y}, {cd.Y, cd.X}} {
				if g, ok := side[0].(*ssa.Field); ok && g.Field == f.Field && g.X == f.X && core.IsNilConst(side[1]) {
					nn := cd.True
					if cd.Op == token.EQL {
						nn = cd.False
					}
					if core.EdgeDominates(ifi.Block(), nn, at.Block()) {
						return true
					}
				}
			}
		}
	}
	return false
}

// sentinelInit: global g is assigned only in the package initialiser, from errors.New / fmt.Errorf.
func (e *ev) sentinelInit(g *ssa.Global) bool {
	if g.Pkg == nil {
		return false
	}
	init := g.Pkg.Func("init")
	found := false
	bad := false
	for _, fn := range append([]*ssa.Function{init}, e.p.Funcs...) {
		if fn == nil {
			continue
		}
		core.AllInstrs(fn, func(in ssa.Instruction) {
			st, ok := in.(*ssa.Store)
			if !ok || st.Addr != ssa.Value(g) {
				return
			}
			if fn != init {
				bad = true
				return
			}
			if call, ok := core.Unwrap(st.Val).(*ssa.Call); ok && (core.IsPkgFunc(call, "errors", "New") || core.IsPkgFunc(call, "fmt", "Errorf")) {
				found = true
			} else {
				bad = true
			}
		})
	}
	return found && !bad
}
