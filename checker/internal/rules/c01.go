package rules

import (
	"fmt"
	"go/types"
	"sort"
	"strings"

	"golang.org/x/tools/go/ssa"
	"verif/checker/internal/core"
)

func init() {
	register(&Property{
		ID:    "C01",
		Title: "Accepted writes reach the transport exactly once, in order, intact",
		Explanation: "DECIDES (structural skeleton of the writer/sender hand-off, on every CFG path of every function that plays a role): " +
			"R1 the write queue has a single consumer function and every site that starts it is on the true branch of CAS(running, idle->running); " +
			"R2 in every enqueueing function a nil-error return is reachable only through the select state that sent on the queue, that state sends exactly once, and every other state returns a non-nil error expression; " +
			"R3 only channel methods enqueue, and transport Write/Writev/Flush are invoked only by the sender or on the queue==nil branch of channel methods (no codec/handler writes to the transport directly); " +
			"R4 in the sender every dequeued packet is appended (in receive order) to the batch that is the argument of the next transport.Writev, and no path drops the batch; " +
			"R5 every synchronous-branch transport write and its flush run under the write lock released by defer; R6 sibling enqueueing functions have the same select shapes. " +
			"ALSO: callers of the enqueuing function return that call's error and none of their own once the packet is queued; imports are listed in RULES.md. " +
			"DOES NOT DECIDE: byte equality of the queued packet with the caller's payload, merge offsets in the vectored path, FIFO-ness of Go channels, the linearisation claim as a whole; no schedule is executed or explored.",
		Assumptions: []string{"Executor.Exec eventually runs its action", "Go channels are FIFO; CAS is atomic"},
		Run:         runC01,
	})
}

// selectsWithQueueSend returns the selects of fn (incl. closures) that have a send state on the write queue.
func (e *ev) sendSelects(fn *ssa.Function) []*core.SelectInfo {
	var out []*core.SelectInfo
	for _, f := range core.WithAnon(fn) {
		core.AllInstrs(f, func(in ssa.Instruction) {
			if s, ok := in.(*ssa.Select); ok && e.queueSend(s) {
				out = append(out, core.AnalyseSelect(s))
			}
		})
	}
	return out
}

func errResultIsNilConst(ret *ssa.Return) (isNil bool, hasErr bool) {
	if len(ret.Results) == 0 {
		return false, false
	}
	last := ret.Results[len(ret.Results)-1]
	if !types.Identical(last.Type(), types.Universe.Lookup("error").Type()) {
		return false, false
	}
	return core.IsNilConst(last), true
}

// isErrorExpr: the standard of rule R2 for "returns an error": any expression of type error other than the
// nil constant (that the expression is never nil is C11-R3's obligation, proved there).
func isErrorExpr(v ssa.Value) bool {
	if v == nil || core.IsNilConst(v) {
		return false
	}
	if _, isPhi := v.(*ssa.Phi); isPhi {
		return false
	}
	return types.Identical(v.Type(), types.Universe.Lookup("error").Type())
}

// returnsErrorExprFrom: on paths that start in block from, ret's error result is an error expression
// (a merged exit returns a φ: only the incoming values reachable from `from` count).
func returnsErrorExprFrom(ret *ssa.Return, from *ssa.BasicBlock) bool {
	if _, has := errResultIsNilConst(ret); !has {
		return false
	}
	// the path the search is on already knows (merged exits: the φ inherited a non-nil incoming value)
	if core.PathNonNil(ret.Results[len(ret.Results)-1]) {
		return true
	}
	for _, v := range phiEdgesFrom(ret.Results[len(ret.Results)-1], from, nil) {
		if !isErrorExpr(v) {
			return false
		}
	}
	return true
}

// nilSuccessSites: the points at which a nil error result of ret is committed: ret itself when the error
// result is the nil constant; for a merged exit (error result is a φ) the last instruction of every
// predecessor block whose incoming value is the nil constant (nested φs are followed).
func nilSuccessSites(ret *ssa.Return) []ssa.Instruction {
	_, has := errResultIsNilConst(ret)
	if !has {
		return nil
	}
	var out []ssa.Instruction
	seen := map[*ssa.Phi]bool{}
	var walk func(v ssa.Value, at ssa.Instruction)
	walk = func(v ssa.Value, at ssa.Instruction) {
		if core.IsNilConst(v) {
			out = append(out, at)
			return
		}
		phi, ok := v.(*ssa.Phi)
		if !ok || seen[phi] {
			return
		}
		seen[phi] = true
		for i, e := range phi.Edges {
			pb := phi.Block().Preds[i]
			if len(pb.Instrs) == 0 {
				continue
			}
			walk(e, pb.Instrs[len(pb.Instrs)-1])
		}
	}
	walk(ret.Results[len(ret.Results)-1], ret)
	return out
}

func runC01(c *core.Ctx) {
	e, ok := newEv(c)
	if !ok {
		return
	}
	p, r := c.P, e.r
	c.Rule("R1", "single consumer of the write queue; every start of the sender is on the true branch of CAS(running, idle->running)", 1)
	c.Rule("R2", "accept = exactly one enqueue: nil-error return only via the send state; other select states return a non-nil error expression", 1)
	c.Rule("R3", "only channel methods enqueue; transport Write/Writev/Flush only from the sender or the queue==nil branch of channel methods", 1)
	c.Rule("R4", "sender appends every dequeued packet, in order, to the batch passed to the next transport.Writev; no path drops the batch", 1)
	c.Rule("R5", "synchronous transport writes and their flush are under the write lock, released by defer", 1)
	c.Rule("R6", "sibling enqueueing functions agree on their select shapes", 1)

	S := r.Sender
	c.FuncsSeen[p.QName(S)] = true

	// ---- R1
	for _, fn := range p.Funcs {
		core.AllInstrs(fn, func(in ssa.Instruction) {
			if e.queueRecv(in) {
				c.Instance("R1")
				c.Check(core.Outermost(fn) == S, "R1", "recv-site/"+core.FName(fn), p.InstrPos(in),
					"receive from the write queue is in the sender", "receive from the write queue outside the sender function "+core.FName(S))
			}
			if e.startsSender(in) {
				c.Instance("R1")
				c.CallSites++
				ok, why := e.underAcquire(in)
				c.Check(ok, "R1", "start-site/"+core.FName(fn), p.InstrPos(in),
					"sender started only on the true branch of CAS(running, idle->running)",
					"sender started without winning CAS(running, idle->running): "+why)
			}
		})
	}
	// the sender touches the queue / transport only while it owns the flag: after Store(idle) no
	// dequeue or transport write is reachable except through the true edge of a new CAS
	core.AllInstrs(S, func(in ssa.Instruction) {
		if !e.runningRelease(in) {
			return
		}
		c.Instance("R1")
		acquired := map[[2]*ssa.BasicBlock]bool{}
		core.AllInstrs(S, func(x ssa.Instruction) {
			if e.runningAcquire(x) {
				for _, ts := range e.trueEdgesOf(x.(ssa.Value)) {
					for _, pb := range ts.Preds {
						acquired[[2]*ssa.BasicBlock{pb, ts}] = true
					}
				}
			}
		})
		tgt, path := core.Search(in, nil, func(x ssa.Instruction) core.Action {
			if e.queueRecv(x) || e.transportInvoke(x, "Write", "Writev", "Flush") {
				return core.Target
			}
			return core.Continue
		}, func(a, b *ssa.BasicBlock) bool { return !acquired[[2]*ssa.BasicBlock{a, b}] })
		c.Check(tgt == nil, "R1", "sender-owns-flag/"+core.FName(S), p.InstrPos(in),
			"after releasing the flag the sender dequeues / writes again only through a successful CAS",
			"after Store(running, idle) the sender can dequeue or write to the transport without re-acquiring the flag (two senders may run: batches reordered, lost or duplicated)", p.PathString(path, tgt)...)
	})
	// any other reference to the sender as a value (escaping method value) is not understood
	for _, fn := range p.Funcs {
		core.AllInstrs(fn, func(in ssa.Instruction) {
			mc, ok := in.(*ssa.MakeClosure)
			if !ok {
				return
			}
			f, _ := mc.Fn.(*ssa.Function)
			if unbound(f) != S {
				return
			}
			for _, ref := range *mc.Referrers() {
				if e.startsSender(ref) || core.IsOnceBoundStore(ref) {
					continue
				}
				c.Unk("R1", "sender-value-escapes/"+core.FName(fn), p.InstrPos(ref), "method value of the sender is used other than as the argument of Executor.Exec / go / call")
			}
		})
	}

	// ---- R2
	var sigs []string
	for _, E := range r.Enqueuers {
		c.FuncsSeen[p.QName(E)] = true
		sels := e.sendSelects(E)
		sendEdges := map[[2]*ssa.BasicBlock]bool{}
		isSendState := func(st *core.SelState) bool {
			return st.Dir == types.SendOnly && e.isField(st.Chan, r.WriteQueue)
		}
		// the oracle of the path-sensitive searches below: an error expression computed inside a state that did
		// not enqueue (or in the queue-full arm). That such a state produces an error expression is what the
		// per-state checks of this rule establish; that the expression is never nil is C11-R3.
		var failBodies []*ssa.BasicBlock
		for _, si := range sels {
			for _, st := range si.States {
				if st.Body != nil && !isSendState(st) {
					failBodies = append(failBodies, st.Body)
				}
			}
			if si.Default != nil {
				failBodies = append(failBodies, si.Default)
			}
		}
		failedStateErr := func(v ssa.Value) bool {
			in, ok := v.(ssa.Instruction)
			if !ok || core.IsNilConst(v) || !types.Identical(v.Type(), types.Universe.Lookup("error").Type()) {
				return false
			}
			for _, fb := range failBodies {
				if fb.Dominates(in.Block()) {
					return true
				}
			}
			return false
		}
		var parts []string
		for _, si := range sels {
			c.Instance("R2")
			var ks []string
			for _, st := range si.States {
				if st.Dir == types.SendOnly && e.isField(st.Chan, r.WriteQueue) {
					sendEdges[[2]*ssa.BasicBlock{st.From, st.Body}] = true
					ks = append(ks, "S")
				} else if st.Dir == types.RecvOnly {
					ks = append(ks, "R")
				} else {
					ks = append(ks, "?")
				}
			}
			// neither the order of the cases within a select nor the order of the selects in the source matters
			sort.Strings(ks)
			kinds := strings.Join(ks, "")
			if si.Sel.Blocking {
				parts = append(parts, "[blocking "+kinds+"]")
			} else {
				parts = append(parts, "[nonblocking "+kinds+"]")
			}
		}
		sort.Strings(parts)
		sig := strings.Join(parts, "")
		sigs = append(sigs, sig)
		// plain Send instructions count as accept points too
		var plainSends []*ssa.Send
		for _, f := range core.WithAnon(E) {
			core.AllInstrs(f, func(in ssa.Instruction) {
				if s, ok := in.(*ssa.Send); ok && e.queueSend(s) {
					plainSends = append(plainSends, s)
					c.Instance("R2")
				}
			})
		}
		for si, sinfo := range sels {
			for _, st := range sinfo.States {
				name := fmt.Sprintf("%s/select#%d/state#%d", core.FName(E), si+1, st.Index)
				if st.Body == nil {
					c.Unk("R2", name, p.InstrPos(sinfo.Sel), "select state body not identified")
					continue
				}
				if isSendState(st) {
					// exactly one send: no further send reachable from the send state
					tgt, path := core.Search(nil, st.Body, func(in ssa.Instruction) core.Action {
						if e.queueSend(in) {
							return core.Target
						}
						return core.Continue
					}, nil)
					c.Check(tgt == nil, "R2", name+"/single-send", p.InstrPos(sinfo.Sel),
						"no second enqueue reachable after the send state", "a second enqueue is reachable after the send state (payload duplicated)", p.PathString(path, tgt)...)
					// the payload is queued and will be transmitted: the call may no longer report an error
					bad, bpath := core.Search(nil, st.Body, func(in ssa.Instruction) core.Action {
						if ret, ok := in.(*ssa.Return); ok {
							if _, has := errResultIsNilConst(ret); has {
								// a merged exit (single return fed by a φ): only the values this side can deliver count
								for _, v := range phiEdgesFrom(ret.Results[len(ret.Results)-1], st.Body, nil) {
									if !core.IsNilConst(v) {
										return core.Target
									}
								}
							}
							return core.Barrier
						}
						return core.Continue
					}, nil)
					c.Check(bad == nil, "R2", name+"/no-error-after-enqueue", p.InstrPos(sinfo.Sel),
						"every return after the send state reports success", "an error return is reachable after the payload was enqueued (the call reports failure, the bytes are still transmitted)", p.PathString(bpath, bad)...)
					continue
				}
				// non-send state: all reachable returns carry a non-nil error expression, and no send follows
				bad, path := core.SearchAssume(nil, st.Body, func(in ssa.Instruction) core.Action {
					if ret, ok := in.(*ssa.Return); ok {
						if !returnsErrorExprFrom(ret, st.Body) {
							return core.Target
						}
						return core.Barrier
					}
					if e.queueSend(in) {
						return core.Target
					}
					return core.Continue
				}, nil, failedStateErr)
				c.Check(bad == nil, "R2", name+"/error-return", p.InstrPos(sinfo.Sel),
					"state that did not enqueue returns a non-nil error expression on every path",
					"a select state that did not enqueue reaches a success return or another enqueue", p.PathString(path, bad)...)
			}
			if !sinfo.Sel.Blocking {
				name := fmt.Sprintf("%s/select#%d/default", core.FName(E), si+1)
				if sinfo.Default == nil {
					c.Unk("R2", name, p.InstrPos(sinfo.Sel), "default arm not identified")
				} else {
					bad, path := core.SearchAssume(nil, sinfo.Default, func(in ssa.Instruction) core.Action {
						if ret, ok := in.(*ssa.Return); ok {
							if !returnsErrorExprFrom(ret, sinfo.Default) {
								return core.Target
							}
							return core.Barrier
						}
						if e.queueSend(in) {
							return core.Target
						}
						return core.Continue
					}, nil, failedStateErr)
					c.Check(bad == nil, "R2", name+"/error-return", p.InstrPos(sinfo.Sel),
						"default arm (queue full) returns a non-nil error expression", "default arm reaches a success return or an enqueue", p.PathString(path, bad)...)
				}
			}
		}
		// success returns only via a send
		for _, f := range core.WithAnon(E) {
			if f != E {
				continue
			}
			core.AllInstrs(f, func(in ssa.Instruction) {
				ret, ok := in.(*ssa.Return)
				if !ok {
					return
				}
				for _, site := range nilSuccessSites(ret) {
					site := site
					// search from entry to the point where the nil error is committed, avoiding send bodies / plain sends
					tgt, path := core.SearchAssume(nil, f.Blocks[0], func(x ssa.Instruction) core.Action {
						if x == site {
							return core.Target
						}
						if s, ok := x.(*ssa.Send); ok && e.queueSend(s) {
							return core.Barrier
						}
						return core.Continue
					}, func(a, b *ssa.BasicBlock) bool { return !sendEdges[[2]*ssa.BasicBlock{a, b}] }, failedStateErr)
					c.Check(tgt == nil, "R2", core.FName(E)+"/success-only-after-enqueue", p.InstrPos(site),
						"success return is reachable only after the payload was enqueued", "a success (nil error) return is reachable without enqueueing the payload", p.PathString(path, tgt)...)
				}
			})
		}
	}

	// callers of an enqueue helper: a success return only on the accepted (nil error) side of the helper call
	{
		byFn := map[*ssa.Function][]acceptPoint{}
		for _, a := range e.acceptPoints() {
			if a.from != nil && a.errv != nil {
				byFn[a.fn] = append(byFn[a.fn], a)
			}
		}
		for fn, pts := range byFn {
			c.FuncsSeen[p.QName(fn)] = true
			core.AllInstrs(fn, func(in ssa.Instruction) {
				ret, ok := in.(*ssa.Return)
				if !ok {
					return
				}
				for _, site := range nilSuccessSites(ret) {
					site := site
					c.Instance("R2")
					tgt, path := core.Search(nil, fn.Blocks[0], func(x ssa.Instruction) core.Action {
						if x == site {
							return core.Target
						}
						return core.Continue
					}, func(a, b *ssa.BasicBlock) bool {
						for _, pt := range pts {
							if isErrNilEdge(a, b, pt.errv) {
								return false
							}
						}
						return true
					})
					c.Check(tgt == nil, "R2", core.FName(fn)+"/success-only-after-enqueue", p.InstrPos(site),
						"success return is reachable only on the accepted side of the enqueue helper", "a success (nil error) return is reachable without the enqueue helper having accepted the payload", p.PathString(path, tgt)...)
				}
			})
		}
	}

	// callers of the enqueuers report what the enqueuer reported: after the packet was queued no caller turns the
	// success into an error of its own (a deadline re-check after the enqueue would report failure for bytes that
	// are going to be sent)
	isEnq := map[*ssa.Function]bool{}
	for _, E := range r.Enqueuers {
		isEnq[E] = true
	}
	for _, fn := range p.Funcs {
		if p.PkgRel(fn) != "." || fn.Parent() != nil || isEnq[fn] {
			continue
		}
		core.AllInstrs(fn, func(in ssa.Instruction) {
			call, ok := in.(*ssa.Call)
			if !ok || call.Call.IsInvoke() || !isEnq[call.Call.StaticCallee()] {
				return
			}
			errv := errOfCall(call)
			if errv == nil {
				return
			}
			c.Instance("R2")
			var bad ssa.Instruction
			core.Search(call, nil, func(x ssa.Instruction) core.Action {
				ret, ok := x.(*ssa.Return)
				if !ok || len(ret.Results) == 0 {
					return core.Continue
				}
				last := ret.Results[len(ret.Results)-1]
				if !isErrorT(last.Type()) {
					return core.Continue
				}
				for _, v := range phiEdgesFrom(last, call.Block(), nil) {
					u := core.Unwrap(core.ForwardLoad(core.Unwrap(v)))
					if core.IsNilConst(u) || u == errv || sameErr(u, errv) {
						continue
					}
					if bad == nil {
						bad = x
					}
				}
				return core.Continue
			}, nil)
			c.Check(bad == nil, "R2", "caller/"+core.FName(fn)+"/returns-enqueuer-error", p.InstrPos(call), "after the enqueue call the caller returns that call's error (or nil)", "a caller of the enqueuing function can return an error of its own after the enqueue call returned: the write is reported as failed although its payload was queued and will be transmitted")
		})
	}

	// ---- R3
	for _, E := range r.Enqueuers {
		c.Instance("R3")
		c.Check(e.isChanMethod(E), "R3", "enqueuer/"+core.FName(E), p.Pos(E.Pos()), "enqueueing function is a channel method", "a function that is not a channel method sends on the write queue")
	}
	for _, fn := range p.Funcs {
		rel := p.PkgRel(fn)
		inTransportPkg := rel == "transport" || len(rel) > 10 && rel[:10] == "transport/"
		core.AllInstrs(fn, func(in ssa.Instruction) {
			if !e.transportInvoke(in, "Write", "Writev", "Flush") {
				return
			}
			if inTransportPkg {
				return // implementation side: wrappers delegating to their embedded transport
			}
			c.Instance("R3")
			c.CallSites++
			name := "transport-write-site/" + p.QName(fn) + "/" + core.CallCommon(in).Method.Name()
			switch {
			case core.Outermost(fn) == S:
				c.OK("R3", name, p.InstrPos(in), "in the sender")
			case e.isChanMethod(fn) && e.syncBranch(in):
				c.OK("R3", name, p.InstrPos(in), "channel method, queue==nil branch")
			case e.isChanMethod(fn):
				c.Bad("R3", name, p.InstrPos(in), "channel method writes to the transport outside the queue==nil branch (bypasses the write queue)")
			default:
				c.Bad("R3", name, p.InstrPos(in), "transport write side invoked outside the channel (bypasses queue order / write lock)")
			}
		})
	}

	// a transport handed out as an io.Writer bypasses the queue / write lock just as a direct Write does
	for _, fn := range p.Funcs {
		rel := p.PkgRel(fn)
		if rel == "transport" || len(rel) > 10 && rel[:10] == "transport/" {
			continue
		}
		core.AllInstrs(fn, func(in ssa.Instruction) {
			ci, ok := in.(*ssa.ChangeInterface)
			if !ok || !e.isTransportType(ci.X.Type()) {
				return
			}
			it, ok := ci.Type().Underlying().(*types.Interface)
			if !ok {
				return
			}
			hasWrite := false
			for i := 0; i < it.NumMethods(); i++ {
				if it.Method(i).Name() == "Write" {
					hasWrite = true
				}
			}
			if !hasWrite {
				return
			}
			c.Instance("R3")
			c.Bad("R3", "transport-as-writer/"+p.QName(fn), p.InstrPos(in), "the channel's transport is handed out as an io.Writer: writes through it bypass the write queue, the write lock and the flush after each write")
		})
	}

	// ---- R4
	runC01R4(c, e)

	// ---- R5
	for _, fn := range p.Funcs {
		if !e.isChanMethod(fn) || core.Outermost(fn) == S {
			continue
		}
		core.AllInstrs(fn, func(in ssa.Instruction) {
			if !e.transportInvoke(in, "Write", "Writev", "Flush") {
				return
			}
			c.Instance("R5")
			name := "sync-write/" + core.FName(fn) + "/" + core.CallCommon(in).Method.Name()
			ok, why := e.underWriteLock(in)
			c.Check(ok, "R5", name, p.InstrPos(in), "under the write lock (deferred unlock)", "synchronous transport write not inside the write-lock critical section: "+why)
		})
	}

	// ---- R7 (shared with C10-R1): the queued packet is a private copy, so it stays intact until written
	c.Rule("R7", "only fresh pool copies enter the write queue (payload whole and unmodified until written)", 2)
	importObligations(c, runC10, "R7", func(o *core.Obligation) bool { return o.Rule == "R1" || o.Rule == "R3" || o.Rule == "R6" })
	// ---- R9 (shared with C17-R1/R5): below the channel the bytes keep their order: each wrapper has one write sink
	c.Rule("R10", "the sender's only failure check raises for every non-nil error (shared with C07-R4)", 2)
	importObligations(c, runC07, "R10", func(o *core.Obligation) bool { return strings.Contains(o.Key, "/raises-on-every-error") })
	c.Rule("R9", "transport wrappers write through one sink (no bypass of pending buffered bytes); the tcp transport overrides none of them (shared with C17-R1/R5)", 2)
	importObligations(c, runC17, "R9", func(o *core.Obligation) bool { return o.Rule == "R1" || o.Rule == "R5" })
	// ---- R8 (shared with C02-R5/R8): every access to the sender flag fits the ownership protocol; one release per ownership
	c.Rule("R8", "sender-flag protocol: every access classified, one release per ownership, none after hand-over (shared with C02-R5/R8)", 2)
	importObligations(c, runC02, "R8", func(o *core.Obligation) bool { return strings.Contains(o.Key, "flag-access/") || o.Rule == "R8" })

	// ---- R6: every blocking enqueue select offers the same kinds of cases, and so does every non-blocking
	// one, wherever they live (one function with both modes, or one function per mode)
	c.Instance("R6")
	same := true
	byMode := map[string]string{}
	for _, s := range sigs {
		for _, part := range strings.Split(strings.Trim(s, "[]"), "][") {
			if part == "" {
				continue
			}
			mode := strings.SplitN(part, " ", 2)[0]
			if prev, ok := byMode[mode]; ok && prev != part {
				same = false
			}
			byMode[mode] = part
		}
	}
	c.Check(same, "R6", "enqueuer-select-shapes", "", fmt.Sprintf("all %d enqueueing functions: %v", len(sigs), sigs), fmt.Sprintf("enqueueing functions disagree on select shapes: %v", sigs))
}

// underAcquire: instruction runs only on the true branch of CAS(running, idle->running).
func (e *ev) underAcquire(in ssa.Instruction) (bool, string) {
	fn := in.Parent()
	for _, ifi := range core.Ifs(fn) {
		cond := core.CondOf(ifi)
		if cond.Op.String() != "ILLEGAL" {
			continue
		}
		ci, ok := cond.X.(ssa.Instruction)
		if !ok {
			continue
		}
		if !e.isAcquireValue(cond.X) {
			continue
		}
		_ = ci
		if core.EdgeDominates(ifi.Block(), cond.True, in.Block()) {
			return true, ""
		}
	}
	return false, "no dominating `if CAS(running, idle, running)` true edge in " + core.FName(fn)
}

// isAcquireValue: v is the boolean result of CAS(running,0,1), directly or through a
// one-level wrapper whose every return is such a CAS.
func (e *ev) isAcquireValue(v ssa.Value) bool {
	call, ok := v.(*ssa.Call)
	if !ok {
		return false
	}
	if e.runningAcquire(call) {
		return true
	}
	f := call.Call.StaticCallee()
	if f == nil || f.Blocks == nil || !e.p.InRepo(f) {
		return false
	}
	n, good := 0, true
	core.AllInstrs(f, func(in ssa.Instruction) {
		if ret, ok := in.(*ssa.Return); ok {
			n++
			if len(ret.Results) != 1 {
				good = false
				return
			}
			rc, ok := ret.Results[0].(*ssa.Call)
			if !ok || !e.runningAcquire(rc) {
				good = false
			}
		}
	})
	return n > 0 && good
}

// underWriteLock: Lock(writeLock) dominates the site, with a deferred Unlock, and no explicit Unlock in between.
func (e *ev) underWriteLock(in ssa.Instruction) (bool, string) {
	fn := in.Parent()
	var lock ssa.Instruction
	var deferred bool
	core.AllInstrs(fn, func(x ssa.Instruction) {
		if _, isDefer := x.(*ssa.Defer); isDefer {
			if mutexCall(x, e.r.WriteLock, "Unlock") && core.Dominates(x, in) {
				deferred = true
			}
			return
		}
		if mutexCall(x, e.r.WriteLock, "Lock") && core.Dominates(x, in) {
			lock = x
		}
	})
	if lock == nil {
		return false, "no dominating Lock of the write lock"
	}
	// no explicit unlock between lock and site
	tgt, _ := core.Search(lock, nil, func(x ssa.Instruction) core.Action {
		if x == in {
			return core.Barrier
		}
		if _, isDefer := x.(*ssa.Defer); !isDefer && mutexCall(x, e.r.WriteLock, "Unlock") {
			// is the site reachable after this unlock?
			t2, _ := core.Search(x, nil, func(y ssa.Instruction) core.Action {
				if y == in {
					return core.Target
				}
				if mutexCall(y, e.r.WriteLock, "Lock") {
					return core.Barrier
				}
				return core.Continue
			}, nil)
			if t2 != nil {
				return core.Target
			}
		}
		return core.Continue
	}, nil)
	if tgt != nil {
		return false, "write lock released before the write"
	}
	if !deferred {
		// accept explicit unlock on every path to return
		q := &core.Query{P: e.p, Pred: func(x ssa.Instruction) bool { return mutexCall(x, e.r.WriteLock, "Unlock") }}
		if bad, _ := q.MustPassBetween(in, nil, nil, core.IsNormalReturn, nil); bad != nil {
			return false, "no deferred Unlock and a return path without Unlock"
		}
		return false, "write lock is not released by defer (a panicking transport would leave it held)"
	}
	return true, ""
}

func runC01R4(c *core.Ctx, e *ev) {
	p, S := c.P, e.r.Sender
	// the Writev invoke(s) in S
	var writevs []*ssa.Call
	core.AllInstrs(S, func(in ssa.Instruction) {
		if e.transportInvoke(in, "Writev") {
			if call, ok := in.(*ssa.Call); ok {
				writevs = append(writevs, call)
			}
		}
	})
	if len(writevs) == 0 {
		c.Unk("R4", core.FName(S)+"/writev", p.Pos(S.Pos()), "sender has no transport.Writev invoke (drain template not recognised)")
		return
	}
	batch := map[ssa.Value]bool{}
	for _, w := range writevs {
		for v := range web(w.Call.Args[0]) {
			batch[v] = true
		}
	}
	isBatchLen := func(v ssa.Value) bool { return lenOfSet(v, batch) }
	// batch-empty edges are infeasible right after an append; treat `len(batch)==0` edges as not dropping anything
	emptyEdge := map[[2]*ssa.BasicBlock]bool{}
	for _, ifi := range core.Ifs(S) {
		if empty, _, ok := emptinessEdges(ifi, isBatchLen); ok {
			emptyEdge[[2]*ssa.BasicBlock{ifi.Block(), empty}] = true
		}
	}
	// batch reset instructions: members of the web that are Slice of a non-web value (x[:0] of a field load)
	isReset := func(in ssa.Instruction) bool {
		s, ok := in.(*ssa.Slice)
		return ok && batch[s] && !batch[s.X]
	}
	core.AllInstrs(S, func(in ssa.Instruction) {
		sel, ok := in.(*ssa.Select)
		var recvVal ssa.Value
		var body *ssa.BasicBlock
		switch {
		case ok && e.queueRecv(sel):
			si := core.AnalyseSelect(sel)
			ri := 0
			for _, st := range si.States {
				if st.Dir == types.RecvOnly {
					if e.isField(st.Chan, e.r.WriteQueue) {
						body = st.Body
						for _, ref := range *sel.Referrers() {
							if ex, ok := ref.(*ssa.Extract); ok && ex.Index == 2+ri {
								recvVal = ex
							}
						}
					}
					ri++
				}
			}
		case !ok && e.queueRecv(in):
			u := in.(*ssa.UnOp)
			recvVal = u
			if u.CommaOk {
				recvVal = nil
				for _, ref := range *u.Referrers() {
					if ex, ok := ref.(*ssa.Extract); ok && ex.Index == 0 {
						recvVal = ex
					}
				}
			}
		default:
			return
		}
		c.Instance("R4")
		name := core.FName(S) + "/dequeue"
		if recvVal == nil {
			c.Bad("R4", name+"/flows-to-batch", p.InstrPos(in), "the dequeued packet is discarded (received value unused)")
			return
		}
		t := taint(recvVal)
		flows := false
		ordered := true
		for _, w := range writevs {
			if t[w.Call.Args[0]] {
				flows = true
			}
		}
		// the append through which it enters the batch must append at the end: append(batch, pkt...)
		for v := range t {
			call, ok := v.(*ssa.Call)
			if !ok {
				continue
			}
			if args, isApp := core.IsBuiltinCall(call, "append"); isApp && batch[call] {
				if t[args[0]] && !batch[args[0]] {
					ordered = false
				}
				if len(args) > 1 && !t[args[1]] && t[args[0]] {
					// pkt is the base and batch the appended part: prepend
					ordered = false
				}
			}
		}
		c.Check(flows, "R4", name+"/flows-to-batch", p.InstrPos(in), "dequeued packet flows into the slice passed to transport.Writev", "dequeued packet does not reach the transport.Writev argument")
		c.Check(ordered, "R4", name+"/append-order", p.InstrPos(in), "packet appended at the end of the batch (receive order kept)", "packet is not appended at the end of the batch (order changed)")
		// (i) every path from the dequeue passes the append of this packet to the batch
		appends := map[ssa.Instruction]bool{}
		for v := range t {
			if call, ok := v.(*ssa.Call); ok && batch[call] {
				if _, isApp := core.IsBuiltinCall(call, "append"); isApp {
					appends[call] = true
				}
			}
		}
		start := body
		var from ssa.Instruction
		if start == nil {
			from = in
		}
		tgt, path := core.Search(from, start, func(x ssa.Instruction) core.Action {
			if appends[x] {
				return core.Barrier
			}
			if core.IsNormalReturn(x) || isReset(x) || x == in || e.transportInvoke(x, "Writev") {
				return core.Target
			}
			return core.Continue
		}, nil)
		c.Check(tgt == nil && len(appends) > 0, "R4", name+"/always-appended", p.InstrPos(in), "every path from the dequeue appends the packet to the batch",
			"a path from the dequeue skips the append to the batch (packet dropped)", p.PathString(path, tgt)...)
		// (ii) from each append: no path to a return / batch reset that avoids Writev
		// (the `len(batch)==0` edges are infeasible after an append and are excluded)
		for a := range appends {
			tgt, path := core.Search(a, nil, func(x ssa.Instruction) core.Action {
				if e.transportInvoke(x, "Writev") {
					return core.Barrier
				}
				if core.IsNormalReturn(x) || isReset(x) {
					return core.Target
				}
				return core.Continue
			}, func(a, b *ssa.BasicBlock) bool { return !emptyEdge[[2]*ssa.BasicBlock{a, b}] })
			c.Check(tgt == nil, "R4", name+"/never-dropped", p.InstrPos(in), "every path from the append reaches transport.Writev before the batch is reset or the sender returns",
				"a dequeued packet can be dropped: a path from the append reaches a return or a batch reset without transport.Writev", p.PathString(path, tgt)...)
		}
	})
}
