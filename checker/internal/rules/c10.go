package rules

import (
	"fmt"
	"go/token"
	"go/types"
	"sort"
	"strings"

	"golang.org/x/tools/go/ssa"
	"verif/checker/internal/core"
)

func init() {
	register(&Property{
		ID:    "C10",
		Title: "Write snapshot semantics: buffer reuse and pool recycling never alter sent bytes",
		Explanation: "DECIDES (ownership of buffers: caller-owned -> copied -> queue-owned -> written -> pool-owned): " +
			"R1 the value sent on the write queue derives, by slicing only, from a pool buffer obtained with pbytes.Get in the same activation - or from a parameter only on the clone==false branch, in which case every caller passes either clone=true or a fresh pool buffer it never touches again (ownership transfer); so a caller's slice never reaches the queue; " +
			"R2 the copy into the fresh buffer takes the whole payload and its count is compared; R3 in the sender every pbytes.Put of a dequeued packet is preceded on every path by the transport.Writev of its batch, and each Put receives a pointer allocated in the same loop iteration (no pointer shared between recycled packets); " +
			"R4 every other pbytes.Put recycles a buffer that was never handed to an enqueue on that path; R5 the synchronous branch hands the caller's slice only to the transport call and stores it nowhere. " +
			"ALSO: recycle only packets dequeued in this round; every pbytes.Put in the repository returns a buffer of the same activation; scratch lists disjoint; wrappers only read the batch; nothing derived from a pooled object is returned after its Put (deferred included). " +
			"ALSO (round 6): The pool buffer for the private copy is requested by a byte count. " +
			"DOES NOT DECIDE: what a user Transport does with the slice after returning, merge offsets of the vectored path, sync.Pool semantics (trusted).",
		Assumptions: []string{"sync.Pool hands an object to one getter", "transport.Write*/Writev have consumed or copied the slice when they return"},
		Run:         runC10,
	})
}

func isPbytes(in ssa.Instruction, name string) bool {
	o := core.CalleeObj(in)
	if o == nil || o.Pkg() == nil || o.Name() != name {
		return false
	}
	return hasSuffix(o.Pkg().Path(), "/utils/pool/pbytes")
}

func hasSuffix(s, suf string) bool { return len(s) >= len(suf) && s[len(s)-len(suf):] == suf }

// sliceOrigins walks back through Slice / Phi / conversions and returns the leaves.
func sliceOrigins(v ssa.Value) []ssa.Value {
	seen := map[ssa.Value]bool{}
	var leaves []ssa.Value
	var walk func(ssa.Value)
	walk = func(x ssa.Value) {
		x = core.Unwrap(x)
		if seen[x] {
			return
		}
		seen[x] = true
		switch y := x.(type) {
		case *ssa.Slice:
			walk(y.X)
		case *ssa.Phi:
			for _, e := range y.Edges {
				walk(e)
			}
		case *ssa.UnOp:
			if y.Op == token.MUL {
				if fl := core.ForwardLoad(y); fl != ssa.Value(y) {
					walk(fl)
					return
				}
			}
			leaves = append(leaves, x)
		default:
			leaves = append(leaves, x)
		}
	}
	walk(v)
	return leaves
}

// isFreshPoolBuf: v is *pbytes.Get(..) of this activation.
func isFreshPoolBuf(v ssa.Value) bool {
	ld, ok := core.Unwrap(v).(*ssa.UnOp)
	if !ok || ld.Op != token.MUL {
		return false
	}
	call, ok := ld.X.(*ssa.Call)
	return ok && isPbytes(call, "Get")
}

func runC10(c *core.Ctx) {
	e, ok := newEv(c)
	if !ok {
		return
	}
	p, r := c.P, e.r
	c.Rule("R1", "only fresh pool buffers enter the write queue; clone=false callers transfer ownership of a fresh buffer", 2)
	c.Rule("R2", "the copy covers the whole payload and its count is checked", 1)
	c.Rule("R3", "recycle only after the batch's transport.Writev; one fresh pointer per recycled packet", 1)
	c.Rule("R4", "no other Put recycles a buffer that may be queued", 1)
	c.Rule("R5", "synchronous branch does not retain the caller's slice", 1)
	c.Rule("R6", "the sender's scratch lists (batch, recycle list) do not share a backing array", 1)
	runScratchDisjoint(c, e, "R6")
	// the bytes captured are the bytes sent: below the queue the batch is read, never rewritten (C17-R7), and a
	// pooled object is handed to one owner at a time (C19-R3)
	c.Rule("R7", "a dequeued batch is only read by the transport wrappers; pooled objects come from sync.Pool (shared with C17-R7, C19-R3)", 2)
	importObligations(c, runC17, "R7", func(o *core.Obligation) bool { return o.Rule == "R7" })
	importObligations(c, runC19, "R7", func(o *core.Obligation) bool { return o.Rule == "R3" })

	c.Rule("R8", "memory given back to a pool is not handed to the caller: no function returns (a view of) an object it puts, deferred puts included", 1)
	runNoEscapeAfterPut(c, "R8")

	// ---- R1
	for _, E := range r.Enqueuers {
		c.FuncsSeen[p.QName(E)] = true
		var sent []struct {
			v  ssa.Value
			in ssa.Instruction
		}
		for _, si := range e.sendSelects(E) {
			for _, st := range si.States {
				if st.Send != nil && e.isField(st.Chan, r.WriteQueue) {
					sent = append(sent, struct {
						v  ssa.Value
						in ssa.Instruction
					}{st.Send, si.Sel})
				}
			}
		}
		core.AllInstrs(E, func(in ssa.Instruction) {
			if s, ok := in.(*ssa.Send); ok && e.queueSend(s) {
				sent = append(sent, struct {
					v  ssa.Value
					in ssa.Instruction
				}{s.X, in})
			}
		})
		for i, sv := range sent {
			c.Instance("R1")
			name := fmt.Sprintf("%s/enqueue#%d", core.FName(E), i+1)
			e.checkSentValue(c, E, sv.v, sv.in, name, 0)
		}
	}

	// ---- R2 copies
	scan := map[*ssa.Function]bool{}
	var scanL []*ssa.Function
	for _, E := range append(append([]*ssa.Function{}, r.Enqueuers...), e.logicalEnqueuers()...) {
		if !scan[E] {
			scan[E] = true
			scanL = append(scanL, E)
		}
	}
	for _, E := range scanL {
		core.AllInstrs(E, func(in ssa.Instruction) {
			args, ok := core.IsBuiltinCall(in, "copy")
			if !ok {
				return
			}
			c.Instance("R2")
			name := core.FName(E) + "/copy"
			dstFresh := false
			for _, l := range sliceOrigins(args[0]) {
				if isFreshPoolBuf(l) {
					dstFresh = true
				}
			}
			// count compared
			cmp := false
			for _, ref := range *in.(ssa.Value).Referrers() {
				if b, ok := ref.(*ssa.BinOp); ok && (b.Op == token.NEQ || b.Op == token.EQL) {
					cmp = true
				}
			}
			c.Check(dstFresh, "R2", name+"/into-fresh", p.InstrPos(in), "copy destination is the fresh pool buffer", "copy destination is not the fresh pool buffer")
			c.Check(cmp, "R2", name+"/count-checked", p.InstrPos(in), "copied count is compared with the payload length", "the copied count is not compared with the payload length (a short copy would be queued silently)")
			// destination length is the payload length: dst = fresh[:len(src)] or fresh[off:cap]
			if sl, ok := core.Unwrap(args[0]).(*ssa.Slice); ok && sl.High != nil {
				whole := false
				if la, isLen := lenArg(sl.High); isLen && core.SameValue(la, args[1]) {
					whole = true
				}
				if ca, isCap := capArg(sl.High); isCap {
					_ = ca
					whole = true
				}
				c.Check(whole, "R2", name+"/whole-payload", p.InstrPos(in), "destination is sized by the payload length (or the buffer's capacity)", "copy destination is not sized by the payload's length: the payload may be truncated")
			}
		})
	}

	// the fresh buffer is requested by the payload's size in bytes: len of a byte slice or a byte count, never the
	// number of fragments of a vectored payload (the pool then hands out its smallest class and the copy runs short)
	for _, E := range scanL {
		core.AllInstrs(E, func(in ssa.Instruction) {
			if !isPbytes(in, "Get") {
				return
			}
			cc := core.CallCommon(in)
			if cc == nil || len(cc.Args) == 0 {
				return
			}
			c.Instance("R2")
			size := stripConv(cc.Args[len(cc.Args)-1])
			good, why := true, ""
			if la, isLen := lenArg(size); isLen {
				if sl, ok := la.Type().Underlying().(*types.Slice); ok {
					if _, nested := sl.Elem().Underlying().(*types.Slice); nested {
						good, why = false, "len("+la.Name()+") counts the fragments of a [][]byte, not its bytes"
					}
				}
			}
			c.Check(good, "R2", core.FName(E)+"/get/sized-in-bytes", p.InstrPos(in), "the pool buffer is requested by a byte count", "the pool buffer for the private copy is requested by the wrong quantity: "+why)
		})
	}

	// ---- R3
	S := r.Sender
	c.FuncsSeen[p.QName(S)] = true
	var recvBodies []*ssa.BasicBlock
	core.AllInstrs(S, func(in ssa.Instruction) {
		if sel, ok := in.(*ssa.Select); ok && e.queueRecv(sel) {
			for _, st := range core.AnalyseSelect(sel).States {
				if st.Dir == types.RecvOnly && st.Body != nil {
					recvBodies = append(recvBodies, st.Body)
				}
			}
		}
	})
	core.AllInstrs(S, func(in ssa.Instruction) {
		if !isPbytes(in, "Put") {
			return
		}
		c.Instance("R3")
		name := core.FName(S) + "/recycle"
		for _, rb := range recvBodies {
			tgt, path := core.Search(nil, rb, func(x ssa.Instruction) core.Action {
				if e.transportInvoke(x, "Writev", "Write") {
					return core.Barrier
				}
				if x == in {
					return core.Target
				}
				return core.Continue
			}, nil)
			c.Check(tgt == nil, "R3", name+"/after-writev", p.InstrPos(in), "every path from a dequeue to the Put passes transport.Writev", "a dequeued packet can be returned to the pool before transport.Writev wrote it (a concurrent pool user overwrites unsent bytes)", p.PathString(path, tgt)...)
		}
		// pointer freshness: the argument is an Alloc made in the same loop iteration
		arg := core.CallCommon(in).Args[0]
		al, isAlloc := core.Unwrap(arg).(*ssa.Alloc)
		inLoop := false
		if t, _ := core.Search(in, nil, func(x ssa.Instruction) core.Action {
			if x == in {
				return core.Target
			}
			return core.Continue
		}, nil); t != nil {
			inLoop = true
		}
		fresh := isAlloc
		if isAlloc && inLoop {
			// the Alloc must be re-executed in each iteration: reachable from the Put and back
			// between two consecutive Puts the Alloc must be executed again
			t, _ := core.Search(in, nil, func(x ssa.Instruction) core.Action {
				if x == ssa.Instruction(al) {
					return core.Barrier
				}
				if x == in {
					return core.Target
				}
				return core.Continue
			}, nil)
			fresh = t == nil
		}
		c.Check(fresh, "R3", name+"/fresh-pointer", p.InstrPos(in), "each recycled packet is put through its own pointer", "several recycled packets are returned to the pool through one shared pointer (later Gets hand the same backing array to two owners)")
	})

	// every Put in the sender or one of its closures (a deferred clean-up included) returns a packet that this
	// round dequeued: the list it ranges over starts empty (`field[:0]`) and grows by appends only; a re-slice to the
	// capacity exposes the stale entries of earlier batches, which were recycled already
	for _, f := range core.WithAnon(S) {
		core.AllInstrs(f, func(in ssa.Instruction) {
			if !isPbytes(in, "Put") {
				return
			}
			c.Instance("R3")
			arg := core.CallCommon(in).Args[0]
			var vals []ssa.Value
			if al, ok := core.Unwrap(arg).(*ssa.Alloc); ok {
				for _, ref := range *al.Referrers() {
					if st, ok := ref.(*ssa.Store); ok && st.Addr == ssa.Value(al) {
						vals = append(vals, st.Val)
					}
				}
			} else {
				vals = []ssa.Value{arg}
			}
			good, why := len(vals) > 0, "the recycled buffer is not a local cell"
			seen := map[ssa.Value]bool{}
			var list func(v ssa.Value, d int)
			// list: v is the slice of packets being recycled
			list = func(v ssa.Value, d int) {
				v = core.Unwrap(v)
				if seen[v] || d > 12 || !good {
					return
				}
				seen[v] = true
				switch x := v.(type) {
				case *ssa.Phi:
					for _, ed := range x.Edges {
						list(ed, d+1)
					}
				case *ssa.Slice:
					if x.High != nil {
						if k, isC := core.ConstInt(x.High); isC && k == 0 {
							return // starts empty
						}
						if _, isCap := capArg(x.High); isCap {
							good, why = false, "the recycle list is re-sliced to its capacity: entries of earlier batches, already returned to the pool, are put again (two later Gets share one buffer)"
							return
						}
					}
					list(x.X, d+1)
				case *ssa.Call:
					if args, ok := core.IsBuiltinCall(x, "append"); ok && len(args) > 0 {
						list(args[0], d+1)
						return
					}
					good, why = false, "the recycle list comes from "+x.Call.String()
				case *ssa.UnOp:
					if fl := core.ForwardLoad(x); fl != ssa.Value(x) {
						list(fl, d+1)
						return
					}
					good, why = false, "the recycle list is read from "+x.X.String()+" as it was left by earlier batches"
				default:
					good, why = false, "the recycle list is "+v.String()
				}
			}
			var pkt func(v ssa.Value, d int)
			// pkt: v is one packet (or a re-slice of it)
			pkt = func(v ssa.Value, d int) {
				v = core.Unwrap(v)
				if d > 8 || !good {
					return
				}
				switch x := v.(type) {
				case *ssa.Slice:
					pkt(x.X, d+1)
				case *ssa.Phi:
					for _, ed := range x.Edges {
						pkt(ed, d+1)
					}
				case *ssa.Extract:
					if sel, ok := x.Tuple.(*ssa.Select); ok && e.queueRecv(sel) {
						return // the packet just dequeued
					}
					// element of a range-over-slice tuple is not produced by go/ssa (it indexes); anything else is unknown
					good, why = false, "the recycled packet is "+v.String()
				case *ssa.UnOp:
					if ia, ok := x.X.(*ssa.IndexAddr); ok && x.Op == token.MUL {
						list(ia.X, 0)
						return
					}
					if fl := core.ForwardLoad(x); fl != ssa.Value(x) {
						pkt(fl, d+1)
						return
					}
					good, why = false, "the recycled packet is read from "+x.X.String()
				default:
					good, why = false, "the recycled packet is "+v.String()
				}
			}
			for _, v := range vals {
				pkt(v, 0)
			}
			c.Check(good, "R3", core.FName(S)+"/recycle/dequeued-this-round", p.InstrPos(in), "the recycled packet was dequeued by this sender round", "the sender recycles something other than the packets of the batch it just wrote: "+why)
		})
	}

	// ---- R4 other Put sites
	for _, fn := range p.Funcs {
		if core.Outermost(fn) == S || strings.HasPrefix(p.PkgRel(fn), "utils/pool") {
			continue
		}
		core.AllInstrs(fn, func(in ssa.Instruction) {
			if !isPbytes(in, "Put") {
				return
			}
			c.Instance("R4")
			name := "put/" + core.FName(fn)
			arg := core.CallCommon(in).Args[0]
			// which buffer: the Alloc cell (address-taken local) -> its stored values -> origins
			var origins []ssa.Value
			if al, ok := core.Unwrap(arg).(*ssa.Alloc); ok {
				for _, ref := range *al.Referrers() {
					if st, ok := ref.(*ssa.Store); ok && st.Addr == ssa.Value(al) {
						origins = append(origins, sliceOrigins(st.Val)...)
					}
				}
			} else {
				origins = sliceOrigins(arg)
			}
			okOrigin := len(origins) > 0
			for _, o := range origins {
				if !isFreshPoolBuf(o) {
					if _, isAl := o.(*ssa.Alloc); isAl {
						continue
					}
					if ld, ok := o.(*ssa.UnOp); ok && ld.Op == token.MUL && ld.X == core.Unwrap(arg) {
						continue // re-slice of the same local
					}
					okOrigin = false
				}
			}
			c.Check(okOrigin, "R4", name+"/own-buffer", p.InstrPos(in), "recycles a pool buffer obtained in the same activation", "pbytes.Put of a buffer that is not a fresh pool buffer of this activation (may alias a caller's or a queued slice)")
			// not reachable after the buffer was handed to an enqueue-reaching call
			enq := &core.Query{P: p, Pred: e.queueSend, MaxDepth: 4}
			bad := false
			var badAt ssa.Instruction
			core.AllInstrs(fn, func(x ssa.Instruction) {
				cc := core.CallCommon(x)
				if cc == nil || !enq.InstrMay(x, nil) || e.queueSend(x) {
					return
				}
				// does this call receive (a slice of) the same buffer?
				passes := false
				for _, a := range cc.Args {
					for _, o := range sliceOrigins(a) {
						for _, po := range origins {
							if o == po || sameCell(o, po) {
								passes = true
							}
						}
					}
				}
				if !passes {
					return
				}
				t, _ := core.Search(x, nil, func(y ssa.Instruction) core.Action {
					if y == in {
						return core.Target
					}
					if isPbytes(y, "Get") {
						return core.Barrier // next iteration takes a new buffer
					}
					return core.Continue
				}, nil)
				if t != nil {
					bad, badAt = true, x
				}
			})
			c.Check(!bad, "R4", name+"/not-after-handoff", p.InstrPos(in), "the buffer was not handed to the write queue on any path reaching this Put",
				"a buffer handed to the write queue ("+p.InstrPos(badAt)+") can afterwards be returned to the pool by its former owner (recycled while still queued / being written)")
		})
	}

	// ---- R5
	for _, fn := range p.Funcs {
		if !e.isChanMethod(fn) || fn.Parent() != nil {
			continue
		}
		for pi, prm := range fn.Params {
			if !isByteSliceish(prm.Type()) {
				continue
			}
			retained := ""
			for v := range taint(prm) {
				if v.Referrers() == nil {
					continue
				}
				for _, ref := range *v.Referrers() {
					switch x := ref.(type) {
					case *ssa.Store:
						if x.Val == v {
							if f, _ := core.FieldOf(x.Addr); f != nil {
								if _, isAl := x.Addr.(*ssa.FieldAddr).X.(*ssa.Alloc); !isAl {
									retained = "stored into field " + f.Name() + " at " + p.InstrPos(x)
								}
							}
							if _, isG := x.Addr.(*ssa.Global); isG {
								retained = "stored into a global at " + p.InstrPos(x)
							}
						}
					case *ssa.Send:
						if x.X == v && !e.queueSend(x) {
							retained = "sent on a channel at " + p.InstrPos(x)
						}
					case *ssa.MakeClosure:
						// captured by a closure: only a problem when started asynchronously; report conservatively for go
					case *ssa.Go:
						retained = "passed to a go statement at " + p.InstrPos(x)
					}
				}
			}
			_ = pi
			c.Instance("R5")
			c.Check(retained == "", "R5", "no-retain/"+core.FName(fn)+"/"+prm.Name(), p.Pos(fn.Pos()), "the caller's slice is not stored, sent or handed to a goroutine", "the caller's slice is retained beyond the call: "+retained)
		}
	}
}

func sameCell(a, b ssa.Value) bool {
	la, ok1 := a.(*ssa.UnOp)
	lb, ok2 := b.(*ssa.UnOp)
	return ok1 && ok2 && la.X == lb.X
}

func isByteSliceish(t types.Type) bool {
	s, ok := t.Underlying().(*types.Slice)
	if !ok {
		return false
	}
	if b, ok := s.Elem().Underlying().(*types.Basic); ok && b.Kind() == types.Byte {
		return true
	}
	if s2, ok := s.Elem().Underlying().(*types.Slice); ok {
		if b, ok := s2.Elem().Underlying().(*types.Basic); ok && b.Kind() == types.Byte {
			return true
		}
	}
	return false
}

func lenArg(v ssa.Value) (ssa.Value, bool) {
	if call, ok := v.(*ssa.Call); ok {
		if args, ok := core.IsBuiltinCall(call, "len"); ok {
			return args[0], true
		}
	}
	return nil, false
}

func capArg(v ssa.Value) (ssa.Value, bool) {
	if call, ok := v.(*ssa.Call); ok {
		if args, ok := core.IsBuiltinCall(call, "cap"); ok {
			return args[0], true
		}
	}
	return nil, false
}

// checkSentValue: `v` (in fn) is what ends up on the write queue. Its slice origins must be fresh pool buffers;
// a parameter origin is followed: through the clone==false phi idiom (checkParamEnqueue), or - when fn is an
// enqueue helper that sends its parameter as is - to the argument at every call site.
func (e *ev) checkSentValue(c *core.Ctx, fn *ssa.Function, v ssa.Value, at ssa.Instruction, name string, depth int) {
	p := c.P
	if depth > 3 {
		c.Unk("R1", name+"/chain", p.InstrPos(at), "enqueue helper chain too deep")
		return
	}
	for _, leaf := range sliceOrigins(v) {
		switch {
		case isFreshPoolBuf(leaf):
			c.OK("R1", name+"/origin-pool", p.InstrPos(at), "queued packet is a fresh pool buffer")
		default:
			pi := core.ParamOf(fn, leaf)
			if pi < 0 {
				c.Bad("R1", name+"/origin", p.InstrPos(at), "the value sent on the write queue does not derive from a fresh pool buffer: "+leaf.String())
				continue
			}
			// unconditional forwarding by an enqueue helper: look at the callers' arguments
			if core.Unwrap(v) == leaf || onlySlicesOf(v, leaf) {
				if e.isEnqueueHelper(fn) || depth > 0 {
					n := 0
					for _, caller := range p.Funcs {
						core.AllInstrs(caller, func(in ssa.Instruction) {
							cc := core.CallCommon(in)
							if cc == nil || cc.IsInvoke() || cc.StaticCallee() != fn {
								return
							}
							n++
							c.Instance("R1")
							c.CallSites++
							e.checkSentValue(c, caller, cc.Args[pi], in, name+"<-"+core.FName(caller), depth+1)
						})
					}
					if n == 0 {
						c.Unk("R1", name+"/callers", p.Pos(fn.Pos()), "enqueue helper has no static caller")
					}
					continue
				}
			}
			e.checkParamEnqueue(c, fn, pi, v, name, 0)
		}
	}
}

// onlySlicesOf: v is leaf possibly re-sliced (no phi merging other values).
func onlySlicesOf(v, leaf ssa.Value) bool {
	v = core.Unwrap(v)
	for d := 0; d < 6; d++ {
		if v == leaf {
			return true
		}
		sl, ok := v.(*ssa.Slice)
		if !ok {
			return false
		}
		v = core.Unwrap(sl.X)
	}
	return false
}

// checkParamEnqueue: parameter #pi of fn reaches the queue. Accept only if it does so exclusively on the
// branch where a bool "clone" parameter is false, and every caller passes clone=true or transfers a fresh buffer.
func (e *ev) checkParamEnqueue(c *core.Ctx, fn *ssa.Function, pi int, sent ssa.Value, name string, depth int) {
	p := c.P
	if depth > 3 {
		c.Unk("R1", name+"/param-chain", p.Pos(fn.Pos()), "caller chain too deep")
		return
	}
	// find the phi edge(s) through which the parameter enters and the clone test guarding them
	cloneIdx := -1
	guarded := true
	var visit func(v ssa.Value)
	seen := map[ssa.Value]bool{}
	visit = func(v ssa.Value) {
		v = core.Unwrap(v)
		if seen[v] {
			return
		}
		seen[v] = true
		switch y := v.(type) {
		case *ssa.Slice:
			visit(y.X)
		case *ssa.Phi:
			for i, ed := range y.Edges {
				if core.ParamOf(fn, ed) == pi {
					pred := y.Block().Preds[i]
					// the edge pred->phi block must be the false edge of `if <bool param>`
					ok := false
					if len(pred.Instrs) > 0 {
						if ifi, isIf := pred.Instrs[len(pred.Instrs)-1].(*ssa.If); isIf {
							cd := core.CondOf(ifi)
							if bi := core.ParamOf(fn, cd.X); bi >= 0 && cd.Op == token.ILLEGAL && isBool(fn.Params[bi].Type()) && cd.False == y.Block() {
								cloneIdx = bi
								ok = true
							}
						}
					}
					if !ok {
						guarded = false
					}
				} else {
					visit(ed)
				}
			}
		default:
			if core.ParamOf(fn, v) == pi {
				guarded = false // parameter flows in unconditionally
			}
		}
	}
	visit(sent)
	if !guarded || cloneIdx < 0 {
		c.Bad("R1", name+"/caller-slice-queued", p.Pos(fn.Pos()), "a parameter slice of "+core.FName(fn)+" can reach the write queue without being copied (the caller may reuse its buffer while the packet is queued)")
		return
	}
	c.OK("R1", name+"/param-only-when-not-cloning", p.Pos(fn.Pos()), "the parameter slice is queued only on the clone==false branch")
	// callers
	ncallers := 0
	for _, caller := range p.Funcs {
		core.AllInstrs(caller, func(in ssa.Instruction) {
			cc := core.CallCommon(in)
			if cc == nil || cc.IsInvoke() || cc.StaticCallee() != fn {
				return
			}
			ncallers++
			c.Instance("R1")
			c.CallSites++
			cname := fmt.Sprintf("%s/caller/%s", name, core.FName(caller))
			cl := cc.Args[cloneIdx]
			buf := cc.Args[pi]
			if k, ok := cl.(*ssa.Const); ok {
				if constBool(k) {
					c.OK("R1", cname, p.InstrPos(in), "passes clone=true")
					return
				}
				// ownership transfer: fresh buffer, never used afterwards
				fresh := true
				var origins []ssa.Value
				for _, o := range sliceOrigins(buf) {
					origins = append(origins, o)
					if !isFreshPoolBuf(o) {
						// address-taken local holding the fresh buffer
						if ld, ok := o.(*ssa.UnOp); ok {
							if al, ok := ld.X.(*ssa.Alloc); ok {
								allFresh := true
								for _, ref := range *al.Referrers() {
									if st, ok := ref.(*ssa.Store); ok && st.Addr == ssa.Value(al) {
										for _, oo := range sliceOrigins(st.Val) {
											if !isFreshPoolBuf(oo) && !sameCell(oo, o) {
												allFresh = false
											}
										}
									}
								}
								if allFresh {
									continue
								}
							}
						}
						fresh = false
					}
				}
				c.Check(fresh, "R1", cname+"/transfers-fresh-buffer", p.InstrPos(in), "clone=false with a fresh pool buffer (ownership transfer)", "passes clone=false with a buffer that is not a fresh pool buffer of this activation: the caller's slice is queued uncopied")
				// no use after the call until the next Get
				used := false
				var usedAt ssa.Instruction
				core.Search(in, nil, func(x ssa.Instruction) core.Action {
					if isPbytes(x, "Get") {
						return core.Barrier
					}
					if isLenOrCapCall(x) {
						return core.Continue // the length of the caller's own slice header: the memory is not touched
					}
					for _, op := range x.Operands(nil) {
						if *op == nil {
							continue
						}
						for _, oo := range sliceOrigins(*op) {
							for _, o := range origins {
								if oo == o || sameCell(oo, o) {
									if _, isStore := x.(*ssa.Store); isStore {
										continue
									}
									used = true
									usedAt = x
								}
							}
						}
						if al, ok := (*op).(*ssa.Alloc); ok {
							for _, o := range origins {
								if ld, ok := o.(*ssa.UnOp); ok && ld.X == ssa.Value(al) && isPbytes(x, "Put") {
									used, usedAt = true, x
								}
							}
						}
					}
					return core.Continue
				}, nil)
				c.Check(!used, "R1", cname+"/no-use-after-transfer", p.InstrPos(in), "the transferred buffer is not touched again", "the buffer handed over with clone=false is used again by the caller ("+p.InstrPos(usedAt)+"): it may already be queued or written")
				return
			}
			// clone flag forwarded from the caller's own parameter
			if bi := core.ParamOf(caller, cl); bi >= 0 {
				bpi := core.ParamOf(caller, buf)
				if bpi < 0 {
					// buffer computed locally with a forwarded flag: treat as unknown
					c.Unk("R1", cname, p.InstrPos(in), "clone flag forwarded but buffer is not the caller's parameter")
					return
				}
				e.checkForwardedClone(c, caller, bi, bpi, cname, depth+1)
				return
			}
			c.Unk("R1", cname, p.InstrPos(in), "clone flag is neither a constant nor a forwarded parameter")
		})
	}
	if ncallers == 0 {
		c.Unk("R1", name+"/callers", p.Pos(fn.Pos()), "no static caller found")
	}
}

// checkForwardedClone: fn forwards (clone#bi, buf#pi) to the enqueuer; check fn's callers the same way.
func (e *ev) checkForwardedClone(c *core.Ctx, fn *ssa.Function, bi, pi int, name string, depth int) {
	p := c.P
	if depth > 3 {
		c.Unk("R1", name+"/chain", p.Pos(fn.Pos()), "caller chain too deep")
		return
	}
	for _, caller := range p.Funcs {
		core.AllInstrs(caller, func(in ssa.Instruction) {
			cc := core.CallCommon(in)
			if cc == nil || cc.IsInvoke() || cc.StaticCallee() != fn {
				return
			}
			c.Instance("R1")
			cname := fmt.Sprintf("%s<-%s", name, core.FName(caller))
			cl := cc.Args[bi]
			if k, ok := cl.(*ssa.Const); ok && constBool(k) {
				c.OK("R1", cname, p.InstrPos(in), "passes clone=true")
				return
			}
			if k, ok := cl.(*ssa.Const); ok && !constBool(k) {
				buf := cc.Args[pi]
				fresh := true
				var origins []ssa.Value
				for _, o := range sliceOrigins(buf) {
					origins = append(origins, o)
					if isFreshPoolBuf(o) {
						continue
					}
					okCell := false
					if ld, ok := o.(*ssa.UnOp); ok {
						if al, ok := ld.X.(*ssa.Alloc); ok {
							okCell = true
							for _, ref := range *al.Referrers() {
								if st, ok := ref.(*ssa.Store); ok && st.Addr == ssa.Value(al) {
									for _, oo := range sliceOrigins(st.Val) {
										if !isFreshPoolBuf(oo) && !sameCell(oo, o) {
											okCell = false
										}
									}
								}
							}
						}
					}
					if !okCell {
						fresh = false
					}
				}
				c.Check(fresh, "R1", cname+"/transfers-fresh-buffer", p.InstrPos(in), "clone=false with a fresh pool buffer (ownership transfer)", "passes clone=false with a buffer that is not a fresh pool buffer of this activation: the caller's slice is queued uncopied")
				used := false
				var usedAt ssa.Instruction
				core.Search(in, nil, func(x ssa.Instruction) core.Action {
					if isPbytes(x, "Get") {
						return core.Barrier
					}
					if isPbytes(x, "Put") {
						arg := core.CallCommon(x).Args[0]
						for _, o := range origins {
							if ld, ok := o.(*ssa.UnOp); ok && ld.X == core.Unwrap(arg) {
								used, usedAt = true, x
							}
						}
					}
					if cc2 := core.CallCommon(x); cc2 != nil && !isPbytes(x, "Put") && !isLenOrCapCall(x) {
						for _, a := range cc2.Args {
							for _, oo := range sliceOrigins(a) {
								for _, o := range origins {
									if oo == o || sameCell(oo, o) {
										used, usedAt = true, x
									}
								}
							}
						}
					}
					return core.Continue
				}, nil)
				c.Check(!used, "R1", cname+"/no-use-after-transfer", p.InstrPos(in), "the transferred buffer is not touched again", "the buffer handed over with clone=false is used again by the caller ("+p.InstrPos(usedAt)+"): it may already be queued or being written")
				return
			}
			c.Unk("R1", cname, p.InstrPos(in), "clone flag is not a constant at this caller")
		})
	}
}

// runScratchDisjoint: every slice-typed field of the channel struct gets storage of its own. One make() whose
// result (re-sliced) is stored into two such fields gives two lists over one array: appending to the first
// past the start of the second overwrites it (a packet recycled twice, another never). Sharing is accepted
// only when every such store goes through a three-index slice (capacity limited at the carve).
func runScratchDisjoint(c *core.Ctx, e *ev, R string) {
	p, r := c.P, e.r
	isScratch := map[*types.Var]bool{}
	for _, f := range core.FlatFields(r.Chan) {
		if _, ok := f.Type().Underlying().(*types.Slice); ok {
			isScratch[f] = true
		}
	}
	c.Instance(R)
	if len(isScratch) == 0 {
		c.OK(R, "scratch-lists", "", "the channel keeps no slice-typed state")
		return
	}
	n := 0
	for _, fn := range p.Funcs {
		core.AllInstrs(fn, func(in ssa.Instruction) {
			var src ssa.Value
			switch x := in.(type) {
			case *ssa.MakeSlice:
				src = x
			case *ssa.Alloc:
				if _, isArr := x.Type().Underlying().(*types.Pointer).Elem().Underlying().(*types.Array); isArr {
					src = x
				}
			}
			if src == nil {
				return
			}
			fields := map[*types.Var]bool{}
			uncapped := 0
			for v := range taint(src) {
				if v.Referrers() == nil {
					continue
				}
				for _, ref := range *v.Referrers() {
					st, ok := ref.(*ssa.Store)
					if !ok || st.Val != v {
						continue
					}
					f, _ := core.FieldOf(st.Addr)
					if f == nil || !isScratch[f] || fields[f] {
						continue
					}
					fields[f] = true
					capped := false
					if sl, ok := core.Unwrap(v).(*ssa.Slice); ok && sl.Max != nil {
						capped = true
					}
					if !capped {
						uncapped++
					}
				}
			}
			if len(fields) == 0 {
				return
			}
			n++
			c.Instance(R)
			var names []string
			for f := range fields {
				names = append(names, f.Name())
			}
			sort.Strings(names)
			c.Check(len(fields) == 1 || uncapped == 0, R, "scratch-lists/"+core.FName(fn)+"/own-storage", p.InstrPos(in), "allocation feeds one list (or every carve limits its capacity)",
				"one allocation is stored into the lists "+strings.Join(names, ", ")+" without limiting their capacities: appending to one list runs into the other (a queued packet is recycled twice / dropped from the recycle list)")
		})
	}
	if n == 0 {
		c.OK(R, "scratch-lists", "", "no allocation in the repository is stored into the channel's slice fields")
	}
}

// isPoolPut: in (a call or a defer) returns an object to one of the typed pools.
func isPoolPut(in ssa.Instruction) bool {
	o := core.CalleeObj(in)
	if o == nil || o.Pkg() == nil || o.Name() != "Put" {
		return false
	}
	return hasSuffix(o.Pkg().Path(), "/utils/pool/pbytes") || hasSuffix(o.Pkg().Path(), "/utils/pool/pbuffer")
}

// runNoEscapeAfterPut: for every Put of a pooled object outside the pool packages, no return executed after the
// Put (every return, for a deferred Put) yields the object or a view of its memory (Bytes(), *p, a re-slice).
func runNoEscapeAfterPut(c *core.Ctx, R string) {
	p := c.P
	for _, fn := range p.Funcs {
		if strings.HasPrefix(p.PkgRel(fn), "utils/pool") {
			continue
		}
		core.AllInstrs(fn, func(in ssa.Instruction) {
			if !isPoolPut(in) {
				return
			}
			cc := core.CallCommon(in)
			if cc == nil || len(cc.Args) == 0 {
				return
			}
			c.Instance(R)
			obj := core.Unwrap(cc.Args[len(cc.Args)-1])
			derived := map[ssa.Value]bool{obj: true}
			// forward closure over the function's values
			for changed, rounds := true, 0; changed && rounds < 8; rounds++ {
				changed = false
				core.AllInstrs(fn, func(x ssa.Instruction) {
					v, ok := x.(ssa.Value)
					if !ok || derived[v] {
						return
					}
					hit := false
					switch y := x.(type) {
					case *ssa.UnOp:
						hit = y.Op == token.MUL && derived[core.Unwrap(y.X)]
						// a load of a local cell that a derived value was stored into (results are spilled into
						// such cells in functions with defers)
						if al, ok := y.X.(*ssa.Alloc); ok && y.Op == token.MUL && al.Referrers() != nil {
							for _, ref := range *al.Referrers() {
								if st, ok := ref.(*ssa.Store); ok && st.Addr == ssa.Value(al) && derived[core.Unwrap(st.Val)] {
									hit = true
								}
							}
						}
					case *ssa.Slice:
						hit = derived[core.Unwrap(y.X)]
					case *ssa.Phi:
						for _, ed := range y.Edges {
							if derived[core.Unwrap(ed)] {
								hit = true
							}
						}
					case *ssa.ChangeType:
						hit = derived[core.Unwrap(y.X)]
					case *ssa.Convert:
						// []byte -> string copies; string -> []byte copies
					case *ssa.Call:
						if o := core.CalleeObj(y); o != nil && len(y.Call.Args) > 0 && derived[core.Unwrap(y.Call.Args[0])] {
							switch o.Name() {
							case "Bytes", "Next", "AvailableBuffer":
								hit = o.Pkg() != nil && o.Pkg().Path() == "bytes"
							}
						}
					case *ssa.Store:
					}
					if hit {
						derived[v] = true
						changed = true
					}
				})
				// the slice stored into the cell whose address is put
				if al, ok := obj.(*ssa.Alloc); ok && al.Referrers() != nil {
					for _, ref := range *al.Referrers() {
						if st, ok := ref.(*ssa.Store); ok && st.Addr == ssa.Value(al) && !derived[core.Unwrap(st.Val)] {
							derived[core.Unwrap(st.Val)] = true
							changed = true
						}
					}
				}
			}
			// slices that share the backing array of the slice being put (other views of the same buffer)
			putOrigins := map[ssa.Value]bool{}
			if al, ok := obj.(*ssa.Alloc); ok && al.Referrers() != nil {
				for _, ref := range *al.Referrers() {
					if st, ok := ref.(*ssa.Store); ok && st.Addr == ssa.Value(al) {
						for _, o := range sliceOrigins(st.Val) {
							if _, isC := o.(*ssa.Const); !isC {
								putOrigins[o] = true
							}
						}
					}
				}
			}
			aliases := func(v ssa.Value) bool {
				if derived[core.Unwrap(v)] {
					return true
				}
				if _, isSlice := v.Type().Underlying().(*types.Slice); !isSlice || len(putOrigins) == 0 {
					return false
				}
				for _, o := range sliceOrigins(v) {
					if putOrigins[o] {
						return true
					}
				}
				return false
			}
			// a use of the memory after the Put: returned to the caller, or handed to another call
			useOf := func(x ssa.Instruction) bool {
				if x == in {
					return false
				}
				switch y := x.(type) {
				case *ssa.Return:
					for _, r := range y.Results {
						if aliases(r) {
							return true
						}
					}
				case *ssa.Call:
					if isLenOrCapCall(x) || isPoolPut(x) {
						return false
					}
					for _, a := range y.Call.Args {
						if aliases(a) {
							return true
						}
					}
				case *ssa.Send:
					return aliases(y.X)
				}
				return false
			}
			var bad ssa.Instruction
			if _, isDefer := in.(*ssa.Defer); isDefer {
				core.AllInstrs(fn, func(x ssa.Instruction) {
					if ret, ok := x.(*ssa.Return); ok && useOf(ret) && bad == nil {
						bad = x
					}
				})
			} else {
				bad, _ = core.Search(in, nil, func(x ssa.Instruction) core.Action {
					if isPbytes(x, "Get") {
						return core.Barrier // the variable holds a new buffer from here on
					}
					if useOf(x) {
						return core.Target
					}
					return core.Continue
				}, nil)
			}
			name := "put/" + core.FName(fn) + "/no-escape"
			if bad != nil {
				c.Bad(R, name, p.InstrPos(bad), "the function keeps using the object it gave back to the pool at "+p.InstrPos(in)+" (returns it or a view of it, or hands it to another call): that memory belongs to whoever Gets it next")
			} else {
				c.OK(R, name, p.InstrPos(in), "nothing derived from the pooled object is returned or passed on after the Put")
			}
		})
	}
}

func isLenOrCapCall(x ssa.Instruction) bool {
	if _, ok := core.IsBuiltinCall(x, "len"); ok {
		return true
	}
	_, ok := core.IsBuiltinCall(x, "cap")
	return ok
}
