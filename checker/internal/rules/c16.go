package rules

import (
	"go/token"
	"go/types"
	"strings"

	"golang.org/x/tools/go/ssa"
	"verif/checker/internal/core"
)

func init() {
	register(&Property{
		ID:    "C16",
		Title: "Text and JSON codecs round-trip and reject malformed frames",
		Explanation: "Round-trip equality (every string, every JSON tree, integers beyond 2^53) is a value property of encoding/json and of string conversion and is NOT decided. DECIDES the error/flag discipline: " +
			"R1 reject before deliver: in the JSON decoder the delivery is dominated by an unconditional guard on the error of Decoder.Decode into the very object that is delivered, whose static type is map[string]interface{}; on write the Marshal error is guarded before its result is forwarded; " +
			"R2 flags reach the decoder: UseNumber() / DisallowUnknownFields() are called on the decoding Decoder exactly on the true side of the codec field that the constructor fills from its first / second parameter; " +
			"R3 the text codec applies no transformation and hands out no alias of the upstream buffer: the delivered string is produced by a copying conversion (strings.Builder / string(bytes)), no content-changing strings/bytes/unicode function and no unsafe conversion lies on the flow; outbound strings go through strings.NewReader unchanged; " +
			"R4 conversion failures raise (MustToBytes/MustToReader, shared with C14-R4); R5 the literal null is not an object: the delivery is dominated by a non-nil guard on the decoded map. " +
			"ALSO: each JSON flag is applied under its own field alone (not only while the other flag is off); imports are listed in RULES.md. " +
			"DOES NOT DECIDE: equality of decoded and encoded objects, trailing garbage after a valid object, interaction with a frame codec underneath.",
		Assumptions: []string{"encoding/json Decoder semantics"},
		Run:         runC16,
	})
}

func runC16(c *core.Ctx) {
	p := c.P
	c.Rule("R1", "JSON: decode error guarded unconditionally before delivering the decode target; Marshal error guarded", 2)
	c.Rule("R2", "JSON flags applied under the field the constructor fills from the matching parameter", 2)
	c.Rule("R3", "text codec: copying, transformation-free conversion", 2)
	c.Rule("R4", "conversion failures raise (shared with C14-R4)", 1)
	c.Rule("R5", "decoded map is non-nil before delivery (null is not an object)", 1)

	var jsonT, textT *types.Named
	for _, st := range p.StructTypes("codec/format") {
		hr := p.DeclMethod(st, "HandleRead")
		if hr == nil {
			continue
		}
		usesJSON := false
		core.AllInstrs(hr, func(in ssa.Instruction) {
			if o := core.CalleeObj(in); o != nil && o.Pkg() != nil && o.Pkg().Path() == "encoding/json" {
				usesJSON = true
			}
		})
		if usesJSON {
			jsonT = st
		} else {
			textT = st
		}
	}
	if jsonT == nil || textT == nil {
		c.Unk("anchors", "ANCHOR-UNRESOLVED", "", "json / text codec types not resolved in codec/format")
		return
	}
	// ---------------- JSON
	hr := p.DeclMethod(jsonT, "HandleRead")
	hw := p.DeclMethod(jsonT, "HandleWrite")
	c.FuncsSeen[p.QName(hr)] = true
	var decode, newDec ssa.Instruction
	core.AllInstrs(hr, func(in ssa.Instruction) {
		o := core.CalleeObj(in)
		if o == nil || o.Pkg() == nil || o.Pkg().Path() != "encoding/json" {
			return
		}
		switch o.Name() {
		case "Decode":
			decode = in
		case "NewDecoder":
			newDec = in
		}
	})
	delivers := downstreamCalls(hr, "HandleRead")
	c.Instance("R1")
	if decode == nil || len(delivers) == 0 {
		c.Bad("R1", "json/decode-then-deliver", p.Pos(hr.Pos()), "Decoder.Decode or the delivery not found")
	} else {
		target := core.Unwrap(core.CallCommon(decode).Args[1]) // &object (MakeInterface of *Alloc)
		al, _ := target.(*ssa.Alloc)
		okType := false
		if al != nil {
			if pt, ok := al.Type().(*types.Pointer); ok {
				if m, ok := pt.Elem().Underlying().(*types.Map); ok {
					if b, ok := m.Key().Underlying().(*types.Basic); ok && b.Kind() == types.String {
						okType = true
					}
				}
			}
		}
		c.Check(okType, "R1", "json/target-type", p.InstrPos(decode), "decode target is a map with string keys (a non-object top level fails in encoding/json)", "the JSON decode target is not a map[string]...: non-object frames are accepted")
		errv := errOfCall(decode)
		for _, d := range delivers {
			c.Instance("R1")
			// delivered value is the decode target
			same := false
			if ld, ok := core.Unwrap(d.Call.Args[0]).(*ssa.UnOp); ok && al != nil && ld.X == ssa.Value(al) {
				same = true
			}
			c.Check(same, "R1", "json/delivers-target", p.InstrPos(d), "the delivered object is the decode target", "the object delivered downstream is not the one Decode filled")
			// unconditional guard: a guard call taking errv dominates the delivery
			guarded := false
			if errv != nil {
				for _, ref := range *errv.Referrers() {
					rc := core.CallCommon(ref)
					if rc == nil {
						continue
					}
					if f := rc.StaticCallee(); f != nil && p.InRepo(f) && core.Dominates(ref, d) {
						// the callee panics iff err != nil (Assert-style): its only branch on the error leads to panic
						pan := &core.Query{P: p, Pred: func(x ssa.Instruction) bool { _, ok := x.(*ssa.Panic); return ok }}
						if pan.May(f, nil) {
							guarded = true
						}
					}
				}
				// if err != nil { panic } form
				for _, cm := range falseAt(p, d) {
					if cm.Op == token.NEQ && (sameErr(cm.X, errv) || sameErr(cm.Y, errv)) {
						guarded = true
					}
				}
			}
			c.Check(guarded, "R1", "json/decode-error-guarded", p.InstrPos(d), "every Decode error raises before the delivery", "the delivery is not dominated by an unconditional guard on Decode's error (a malformed / empty frame is delivered as a message)")
			// ---- R5
			c.Instance("R5")
			nn := false
			for _, cm := range falseAt(p, d) {
				for _, side := range [][2]ssa.Value{{cm.X, cm.Y}, {cm.Y, cm.X}} {
					if ld, ok := core.Unwrap(side[0]).(*ssa.UnOp); ok && al != nil && ld.X == ssa.Value(al) && core.IsNilConst(side[1]) && cm.Op == token.EQL {
						nn = true
					}
				}
			}
			c.Check(nn, "R5", "json/null-rejected", p.InstrPos(d), "the decoded map is asserted non-nil before delivery", "the literal null decodes into a nil map without error and is delivered as a message (no non-nil guard on the decode target)")
		}
	}
	if hw != nil {
		c.Instance("R1")
		c.FuncsSeen[p.QName(hw)] = true
		var marshal ssa.Instruction
		core.AllInstrs(hw, func(in ssa.Instruction) {
			if core.IsPkgFunc(in, "encoding/json", "Marshal") {
				marshal = in
			}
		})
		good := marshal != nil
		if good {
			used := false
			v := marshal.(ssa.Value)
			for _, ref := range *v.Referrers() {
				if rc := core.CallCommon(ref); rc != nil && rc.StaticCallee() != nil && p.InRepo(rc.StaticCallee()) {
					used = true // tuple passed to a guard (AssertBytes)
				}
			}
			if errv := errOfCall(marshal); errv != nil {
				for _, ref := range *errv.Referrers() {
					if core.CallCommon(ref) != nil {
						used = true
					}
					if _, ok := ref.(*ssa.BinOp); ok {
						used = true
					}
				}
			}
			good = used
		}
		c.Check(good, "R1", "json/marshal-error-guarded", p.Pos(hw.Pos()), "the Marshal error is guarded before forwarding", "json.Marshal's error is not guarded before the result is forwarded")
	}
	// ---- R2 flags
	ctor := p.PkgFunc("codec/format", "JSONCodec")
	flagMethods := []struct {
		method string
		param  int
	}{{"UseNumber", 0}, {"DisallowUnknownFields", 1}}
	for _, fm := range flagMethods {
		c.Instance("R2")
		var call ssa.Instruction
		core.AllInstrs(hr, func(in ssa.Instruction) {
			if o := core.CalleeObj(in); o != nil && o.Name() == fm.method && o.Pkg() != nil && o.Pkg().Path() == "encoding/json" {
				call = in
			}
		})
		if call == nil {
			c.Bad("R2", "json/flag/"+fm.method, p.Pos(hr.Pos()), fm.method+" is never applied to the decoder")
			continue
		}
		// on the decoder that decodes
		onSame := newDec != nil && decode != nil && core.SameValue(core.CallCommon(call).Args[0], core.CallCommon(decode).Args[0])
		// controlled by a field F (true side)
		var field *types.Var
		for _, ifi := range core.Ifs(hr) {
			cd := core.CondOf(ifi)
			if cd.Op == token.ILLEGAL {
				if f, _ := core.FieldOf(cd.X); f != nil && core.EdgeDominates(ifi.Block(), cd.True, call.Block()) {
					field = f
				}
			}
		}
		// the constructor stores parameter #param into F
		filled := false
		if ctor != nil && field != nil {
			core.AllInstrs(ctor, func(in ssa.Instruction) {
				if st, ok := in.(*ssa.Store); ok {
					if f, _ := core.FieldOf(st.Addr); f == field && core.ParamOf(ctor, st.Val) == fm.param {
						filled = true
					}
				}
			})
		}
		// and under that field alone: another flag of the codec being off (or on) is not a precondition
		// (`switch { case a: A(); case b: B() }` applies B only when a is false)
		if field != nil {
			c.Instance("R2")
			alone := true
			for _, f := range knownBools(call) {
				if of, _ := core.FieldOf(f.V); of != nil && of != field && isBool(of.Type()) {
					alone = false
				}
			}
			c.Check(alone, "R2", "json/flag/"+fm.method+"/independent", p.InstrPos(call), "applied whenever its own flag is set", fm.method+" is applied only for some values of another flag of the codec: with both flags set one of them is silently not applied")
		}
		c.Check(onSame && field != nil && filled, "R2", "json/flag/"+fm.method, p.InstrPos(call), fm.method+" applied to the decoding Decoder under the field filled from constructor parameter #"+itoa(fm.param+1),
			fm.method+" is not applied under the codec field that the constructor fills from its parameter #"+itoa(fm.param+1)+" (flags swapped, dropped or applied to another decoder): number preservation / unknown-field rejection silently off")
	}

	// ---------------- text codec
	thr := p.DeclMethod(textT, "HandleRead")
	thw := p.DeclMethod(textT, "HandleWrite")
	denied := func(o *types.Func) bool {
		if o == nil || o.Pkg() == nil {
			return false
		}
		switch o.Pkg().Path() {
		case "strings", "bytes", "unicode", "unicode/utf8":
		default:
			return false
		}
		if rn := core.RecvNamed(o); rn != nil {
			// methods of Builder / Reader / Buffer are identity plumbing
			return false
		}
		switch o.Name() {
		case "NewReader", "NewBuffer", "NewBufferString", "Clone":
			return false
		}
		return true
	}
	for _, fn := range []*ssa.Function{thr, thw} {
		if fn == nil {
			continue
		}
		c.Instance("R3")
		c.FuncsSeen[p.QName(fn)] = true
		bad := ""
		core.AllInstrs(fn, func(in ssa.Instruction) {
			if denied(core.CalleeObj(in)) {
				bad = "content-changing call " + core.CalleeObj(in).FullName() + " at " + p.InstrPos(in)
			}
			if cv, ok := in.(*ssa.Convert); ok {
				if b, ok := cv.X.Type().Underlying().(*types.Basic); ok && b.Kind() == types.UnsafePointer {
					bad = "unsafe conversion at " + p.InstrPos(in)
				}
				if b, ok := cv.Type().Underlying().(*types.Basic); ok && b.Kind() == types.UnsafePointer {
					bad = "unsafe conversion at " + p.InstrPos(in)
				}
			}
			if core.IsPkgFunc(in, "unsafe", "String") || core.IsPkgFunc(in, "unsafe", "Slice") || core.IsPkgFunc(in, "unsafe", "StringData") {
				bad = "unsafe conversion at " + p.InstrPos(in)
			}
		})
		c.Check(bad == "", "R3", "text/"+fn.Name()+"/no-transformation", p.Pos(fn.Pos()), "no content-changing or unsafe conversion on the flow", "the text codec transforms or aliases the payload ("+bad+")")
	}
	if thr != nil {
		c.Instance("R3")
		// the delivered value is a string produced by Builder.String() or a string(bytes) conversion (both copy)
		good := false
		for _, d := range downstreamCalls(thr, "HandleRead") {
			v := core.Unwrap(d.Call.Args[0])
			switch x := v.(type) {
			case *ssa.Call:
				if o := core.CalleeObj(x); o != nil && o.Name() == "String" && core.RecvNamed(o) != nil && core.RecvNamed(o).Name() == "Builder" {
					good = true
				}
			case *ssa.Convert:
				if b, ok := x.Type().Underlying().(*types.Basic); ok && b.Kind() == types.String && isByteSliceish(x.X.Type()) {
					good = true
				}
			}
		}
		c.Check(good, "R3", "text/HandleRead/copying-conversion", p.Pos(thr.Pos()), "the delivered string is a private copy (strings.Builder / string(bytes))", "the delivered string is not produced by a copying conversion: it may alias an upstream read buffer that the next frame overwrites")
	}
	if thw != nil {
		c.Instance("R3")
		// string arm forwards strings.NewReader(s) of the switched value
		good := false
		for _, d := range downstreamCalls(thw, "HandleWrite") {
			if call, ok := core.Unwrap(d.Call.Args[0]).(*ssa.Call); ok && core.IsPkgFunc(call, "strings", "NewReader") {
				if ex, ok := core.Unwrap(call.Call.Args[0]).(*ssa.Extract); ok {
					if ta, ok := ex.Tuple.(*ssa.TypeAssert); ok && core.ParamOf(thw, ta.X) == 2 {
						good = true
					}
				}
				if ta, ok := core.Unwrap(call.Call.Args[0]).(*ssa.TypeAssert); ok && core.ParamOf(thw, ta.X) == 2 {
					good = true
				}
			}
		}
		c.Check(good, "R3", "text/HandleWrite/string-unchanged", p.Pos(thw.Pos()), "a string message is forwarded as strings.NewReader of itself", "the text encoder does not forward the string message itself through strings.NewReader")
	}
	importObligations(c, runC14, "R4", func(o *core.Obligation) bool {
		return strings.Contains(o.Key, "conversion/Must") || strings.Contains(o.Key, "conversion/default")
	})
	// the codecs decode what the layers below hand them: the byte collector keeps a private copy of what it is
	// given (C14-R5), and the delimiter framing the README pipeline puts under the text codec cuts at the delimiter
	// (C04-R5)
	c.Rule("R6", "the text/JSON codecs' inputs are intact: collectors copy what they are written, the delimiter decoder compares the whole delimiter (shared with C14-R5, C04-R5)", 2)
	importObligations(c, runC14, "R6", func(o *core.Obligation) bool { return o.Rule == "R5" })
	importObligations(c, runC04, "R6", func(o *core.Obligation) bool { return o.Rule == "R5" })
	importObligations(c, runC08, "R6", func(o *core.Obligation) bool { return o.Rule == "R7" || o.Rule == "R6" || o.Rule == "R3" })
	importObligations(c, runC10, "R6", func(o *core.Obligation) bool { return o.Rule == "R1" || o.Rule == "R8" })
}
