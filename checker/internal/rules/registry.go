// Package rules holds one file per property; each registers its rule set.
package rules

import (
	"reflect"
	"sort"
	"strings"

	"verif/checker/internal/core"
)

// Property describes one property's static check.
type Property struct {
	ID          string
	Title       string
	Explanation string   // decided / not decided split (evidence.coverage.explanation)
	Assumptions []string // trusted base specific to the property
	Run         func(c *core.Ctx)
}

var registry = map[string]*Property{}

func register(p *Property) { registry[p.ID] = p }

// Get returns the property check or nil.
func Get(id string) *Property { return registry[id] }

// IDs lists registered property ids.
func IDs() []string {
	var out []string
	for k := range registry {
		out = append(out, k)
	}
	sort.Strings(out)
	return out
}

// TrustedBase is common to all properties.
var TrustedBase = []string{
	"go/types, go/ssa and go/packages of golang.org/x/tools v0.29.0 (vendored) model the program faithfully",
	"Go memory model and runtime semantics of channels, select, sync/atomic, sync.Mutex, sync.Pool, context",
	"documented behaviour of std-lib pieces go-netty delegates to (bufio, net.Buffers.WriteTo, io.LimitReader, io.MultiReader, io.ReadFull, encoding/binary, encoding/json, net/http)",
	"user code behind interfaces (handlers, Executor, Transport, io.Reader) honours its interface contract and nothing more",
	"the rule tables in /verif/checker/internal/rules (confirmed by reading the pinned tree)",
}

// importObligations runs another property's rule set in a scratch context and copies the selected
// obligations into c under rule R (used where one structural rule is a necessary condition of two properties).
func importObligations(c *core.Ctx, run func(*core.Ctx), R string, sel func(*core.Obligation) bool) {
	key := reflect.ValueOf(run).Pointer()
	if c.Importing[key] {
		c.SkippedImport = true
		return // mutual import: the outer evaluation of that rule set is the one that counts
	}
	var tmp *core.Ctx
	if v, ok := c.P.Memo.Load(key); ok {
		tmp = v.(*core.Ctx)
	} else {
		tmp = core.NewCtx(c.P, c.Property)
		tmp.Importing = map[uintptr]bool{key: true}
		for k := range c.Importing {
			tmp.Importing[k] = true
		}
		run(tmp)
		if tmp.SkippedImport {
			c.SkippedImport = true
		} else {
			c.P.Memo.Store(key, tmp)
		}
	}
	for _, o := range tmp.Obs {
		if !sel(o) {
			continue
		}
		c.Instance(R)
		parts := strings.SplitN(o.Key, "/", 3)
		construct := o.Key
		if len(parts) == 3 {
			construct = parts[1] + ":" + parts[2]
		}
		switch o.Status {
		case core.Discharged:
			c.OK(R, construct, o.Pos, o.Detail)
		case core.Violated:
			c.Bad(R, construct, o.Pos, o.Detail, o.Path...)
		default:
			c.Unk(R, construct, o.Pos, o.Detail)
		}
	}
	for f := range tmp.FuncsSeen {
		c.FuncsSeen[f] = true
	}
}
