package rules

import (
	"fmt"
	"go/token"
	"go/types"
	"sort"
	"strings"

	"golang.org/x/tools/go/ssa"
	"verif/checker/internal/core"
)

func init() {
	register(&Property{
		ID:    "C03",
		Title: "Pipeline order and event routing match the handler-list model",
		Explanation: "DECIDES: R1 every insertion site (call of the context constructor with neighbours P,N) stores P.next<-new, N.prev<-new and size<-size+1 on every path, P and N were adjacent, nobody else writes the links or the size, " +
			"and AddHandler inserts in argument order through an advancing cursor (delegating only to AddLast under the tail-position guard); " +
			"R2 the eight forwarding loops (HandleActive/Read/Write/Exception/Inactive/Event, Write, Trigger) agree with the family table: direction (next for inbound, prev for outbound), cast field tested = interface invoked = event kind, " +
			"context argument is the very node whose cast field was tested, payload is the method's own parameter, first step is taken before the first test, one step per iteration, at most one invoke per call, nil link ends the walk; " +
			"R3 the constructor fills every handler-interface cast field from a type assertion to that field's own interface on every path, and checkHandler admits exactly that set and panics otherwise; " +
			"R4 Fire* entry points start at head (tail for write) and call the member of their own kind with their own argument; head handler is outbound-only; tail handler closes with the same exception; Channel.Write/Trigger pass their argument unchanged; " +
			"R5 IndexOf/LastIndexOf/ContextAt agree on origin, direction and counter. " +
			"ALSO: ContextAt returns a context only where position >= size is known false; ctx.Write/ctx.Trigger failures are re-fired from the pipeline head (imports listed in RULES.md). " +
			"DOES NOT DECIDE: position arithmetic of AddHandler for every position, out-of-range behaviour beyond the guard, user handlers' forwarding choices, pipeline mutation during event flow.",
		Assumptions: []string{"handlers are added before events flow (the property excludes concurrent mutation)"},
		Run:         runC03,
	})
}

// pipelineRoles resolves the list structure.
type pipeRoles struct {
	ctxT, pipeT       *types.Named
	next, prev        *types.Var
	head, tail, size  *types.Var
	handlerF          *types.Var
	ctor, newPipeline *ssa.Function
	castFields        []*types.Var // handler-interface typed fields of the context
	ctorPrevParam     int
	ctorNextParam     int
	ctorHandlerParam  int
	errs              []string
}

func (pr *pipeRoles) errf(f string, a ...interface{}) {
	pr.errs = append(pr.errs, fmt.Sprintf(f, a...))
}

func isSelfPtr(t types.Type, n *types.Named) bool {
	p, ok := t.(*types.Pointer)
	return ok && types.Identical(p.Elem(), n)
}

func resolvePipe(p *core.Prog) *pipeRoles {
	pr := &pipeRoles{ctorPrevParam: -1, ctorNextParam: -1, ctorHandlerParam: -1}
	r := p.Roles()
	if r.PipelineIface == nil {
		pr.errf("Pipeline interface not found")
		return pr
	}
	hcIface := lookupNamedT(r.Root, "HandlerContext")
	for _, st := range p.StructTypes("") {
		if core.Implements(st, r.PipelineIface) {
			if pr.pipeT != nil {
				pr.errf("more than one struct implements Pipeline")
			}
			pr.pipeT = st
		}
		// context: struct with >=2 pointer-to-self fields implementing HandlerContext
		n := 0
		for i := 0; i < st.Underlying().(*types.Struct).NumFields(); i++ {
			if isSelfPtr(st.Underlying().(*types.Struct).Field(i).Type(), st) {
				n++
			}
		}
		if n >= 2 && (hcIface == nil || core.Implements(st, hcIface)) {
			if pr.ctxT != nil {
				pr.errf("more than one doubly linked context type")
			}
			pr.ctxT = st
		}
	}
	if pr.pipeT == nil || pr.ctxT == nil {
		pr.errf("pipeline / handler-context struct types not resolved")
		return pr
	}
	// pipeline fields
	pst := pr.pipeT.Underlying().(*types.Struct)
	var ends []*types.Var
	for i := 0; i < pst.NumFields(); i++ {
		f := pst.Field(i)
		if isSelfPtr(f.Type(), pr.ctxT) {
			ends = append(ends, f)
		}
	}
	if sz := p.DeclMethod(pr.pipeT, "Size"); sz != nil {
		core.AllInstrs(sz, func(in ssa.Instruction) {
			if ret, ok := in.(*ssa.Return); ok && len(ret.Results) == 1 {
				if f, _ := core.FieldOf(ret.Results[0]); f != nil {
					pr.size = f
				}
			}
		})
	}
	cst := pr.ctxT.Underlying().(*types.Struct)
	var links []*types.Var
	handlerT := lookupNamedT(r.Root, "Handler")
	for i := 0; i < cst.NumFields(); i++ {
		f := cst.Field(i)
		switch {
		case isSelfPtr(f.Type(), pr.ctxT):
			links = append(links, f)
		case types.Identical(f.Type(), r.PipelineIface):
		case handlerT != nil && types.Identical(f.Type(), handlerT):
			pr.handlerF = f
		default:
			if _, ok := f.Type().Underlying().(*types.Interface); ok {
				pr.castFields = append(pr.castFields, f)
			}
		}
	}
	if len(ends) != 2 || len(links) < 2 || pr.size == nil {
		pr.errf("list roles not resolved: %d end fields, %d link fields, size=%v", len(ends), len(links), pr.size != nil)
		return pr
	}
	// constructor: the function that allocates the context type and returns it
	for _, fn := range p.Funcs {
		if fn.Parent() != nil || fn.Signature.Recv() != nil || fn.Signature.Results().Len() != 1 {
			continue
		}
		if !isSelfPtr(fn.Signature.Results().At(0).Type(), pr.ctxT) {
			continue
		}
		if pr.ctor != nil {
			pr.errf("more than one constructor of the context type: %s, %s", core.FName(pr.ctor), core.FName(fn))
		}
		pr.ctor = fn
	}
	if pr.ctor == nil {
		pr.errf("context constructor not found")
		return pr
	}
	// NewPipeline: allocates the pipeline struct
	for _, fn := range p.Funcs {
		if fn.Parent() != nil {
			continue
		}
		core.AllInstrs(fn, func(in ssa.Instruction) {
			if al, ok := in.(*ssa.Alloc); ok && al.Heap {
				if pt, ok := al.Type().(*types.Pointer); ok && types.Identical(pt.Elem(), pr.pipeT) {
					pr.newPipeline = fn
				}
			}
		})
	}
	if pr.newPipeline == nil {
		pr.errf("pipeline constructor not found")
		return pr
	}
	// head/tail + next/prev from the constructor's wiring: p.X = ctor(.., H, ..) ; p.head.next = p.tail
	outbound := lookupNamedT(r.Root, "OutboundHandler")
	np := pr.newPipeline
	core.AllInstrs(np, func(in ssa.Instruction) {
		st, ok := in.(*ssa.Store)
		if !ok {
			return
		}
		f, _ := core.FieldOf(st.Addr)
		if f != ends[0] && f != ends[1] {
			return
		}
		call, ok := st.Val.(*ssa.Call)
		if !ok || call.Call.StaticCallee() != pr.ctor {
			return
		}
		for _, a := range call.Call.Args {
			if mi, ok := a.(*ssa.MakeInterface); ok && outbound != nil {
				if types.Implements(mi.X.Type(), outbound.Underlying().(*types.Interface)) {
					pr.head = f
				} else {
					pr.tail = f
				}
			}
		}
	})
	if pr.head == nil || pr.tail == nil || pr.head == pr.tail {
		pr.errf("head/tail fields not resolved from the pipeline constructor")
		return pr
	}
	core.AllInstrs(np, func(in ssa.Instruction) {
		st, ok := in.(*ssa.Store)
		if !ok {
			return
		}
		f, base := core.FieldOf(st.Addr)
		isLink := false
		for _, l := range links {
			if f == l {
				isLink = true
			}
		}
		if !isLink {
			return
		}
		bf, _ := core.FieldOf(base)
		vf, _ := core.FieldOf(st.Val)
		if bf == pr.head && vf == pr.tail {
			pr.next = f
		}
		if bf == pr.tail && vf == pr.head {
			pr.prev = f
		}
	})
	if pr.next == nil || pr.prev == nil || pr.next == pr.prev {
		pr.errf("next/prev link fields not resolved from the pipeline constructor (head.next=tail; tail.prev=head)")
		return pr
	}
	// constructor parameter roles
	core.AllInstrs(pr.ctor, func(in ssa.Instruction) {
		st, ok := in.(*ssa.Store)
		if !ok {
			return
		}
		f, _ := core.FieldOf(st.Addr)
		i := core.ParamOf(pr.ctor, st.Val)
		if i < 0 {
			return
		}
		switch f {
		case pr.prev:
			pr.ctorPrevParam = i
		case pr.next:
			pr.ctorNextParam = i
		case pr.handlerF:
			pr.ctorHandlerParam = i
		}
	})
	if pr.ctorPrevParam < 0 || pr.ctorNextParam < 0 || pr.ctorHandlerParam < 0 {
		pr.errf("constructor parameters for prev/next/handler not resolved")
	}
	return pr
}

func lookupNamedT(pkg *types.Package, name string) *types.Named {
	if pkg == nil {
		return nil
	}
	o := pkg.Scope().Lookup(name)
	if o == nil {
		return nil
	}
	n, _ := types.Unalias(o.Type()).(*types.Named)
	return n
}

// family table: method of the context type -> (direction, handler interface, invoked method)
type famEntry struct {
	method   string
	outbound bool
	iface    string
	invoke   string
}

var c03Family = []famEntry{
	{"HandleActive", false, "ActiveHandler", "HandleActive"},
	{"HandleRead", false, "InboundHandler", "HandleRead"},
	{"HandleWrite", true, "OutboundHandler", "HandleWrite"},
	{"HandleException", false, "ExceptionHandler", "HandleException"},
	{"HandleInactive", false, "InactiveHandler", "HandleInactive"},
	{"HandleEvent", false, "EventHandler", "HandleEvent"},
	{"Write", true, "OutboundHandler", "HandleWrite"},
	{"Trigger", false, "EventHandler", "HandleEvent"},
}

// stepOf: v = step(x) along a link field: a load of x.link or a call of an accessor returning recv.link.
func (pr *pipeRoles) stepOf(p *core.Prog, v ssa.Value) (x ssa.Value, link *types.Var) {
	v = core.Unwrap(v)
	if f, base := core.FieldOf(v); f == pr.next || f == pr.prev {
		if _, isLoad := v.(*ssa.UnOp); isLoad && f != nil {
			return base, f
		}
	}
	if call, ok := v.(*ssa.Call); ok {
		cal := call.Call.StaticCallee()
		if cal != nil && cal.Blocks != nil && len(cal.Params) == 1 && len(call.Call.Args) == 1 {
			// accessor: single return of recv.link
			var ret *ssa.Return
			n := 0
			core.AllInstrs(cal, func(in ssa.Instruction) {
				if r, ok := in.(*ssa.Return); ok {
					ret = r
					n++
				}
			})
			if n == 1 && len(ret.Results) == 1 {
				if f, base := core.FieldOf(ret.Results[0]); (f == pr.next || f == pr.prev) && f != nil && core.ParamOf(cal, base) == 0 {
					return call.Call.Args[0], f
				}
			}
		}
	}
	return nil, nil
}

func runC03(c *core.Ctx) {
	p := c.P
	pr := resolvePipe(p)
	if len(pr.errs) > 0 {
		for _, e := range pr.errs {
			c.Unk("anchors", "ANCHOR-UNRESOLVED", "", e)
		}
		return
	}
	r := p.Roles()
	c.Rule("R1", "insertion keeps both link directions and the size; neighbours adjacent; no other writer of links/size; AddHandler inserts in argument order", 3)
	c.Rule("R2", "forwarding-loop family agrees with the table (direction, cast field, interface, context identity, payload, first step, single invoke)", 8)
	c.Rule("R3", "constructor fills every cast field from its own interface on every path; checkHandler admits exactly that set", 6)
	c.Rule("R4", "Fire* entry wiring; head outbound-only; tail closes with the same exception; Channel.Write/Trigger pass their argument", 6)
	c.Rule("R5", "IndexOf/LastIndexOf/ContextAt agree on origin, direction and counter", 3)

	runC03R1(c, pr)
	runC03R2(c, pr)
	runC03R3(c, pr)
	runC03R4(c, pr, r)
	runC03R5(c, pr)
	// Channel.Write reaches the pipeline whenever the channel is open: its only early exit is the closed test
	// (shared with C11-R1: the entry observes the closed flag, nothing else, before firing the event)
	c.Rule("R7", "a failure under ctx.Write / ctx.Trigger is re-fired from the head of the pipeline (shared with C07-R1/R2)", 2)
	ctxRecv := "(*" + pr.ctxT.Obj().Name() + ")."
	importObligations(c, runC07, "R7", func(o *core.Obligation) bool {
		return strings.Contains(o.Key, "ctx-member/") || (o.Rule == "R2" && strings.Contains(o.Key, ctxRecv))
	})
	c.Rule("R6", "Channel.Write's early exit is the closed-flag test only (shared with C11-R1)", 1)
	importObligations(c, runC11, "R6", func(o *core.Obligation) bool {
		return o.Rule == "R1" && strings.Contains(o.Key, "entry/") && strings.Contains(o.Key, ").Write")
	})
}

// ---------- R1 ----------
func runC03R1(c *core.Ctx, pr *pipeRoles) {
	p := c.P
	inserters := map[*ssa.Function]bool{}
	for _, fn := range p.Funcs {
		if fn == pr.newPipeline {
			continue
		}
		core.AllInstrs(fn, func(in ssa.Instruction) {
			call, ok := in.(*ssa.Call)
			if !ok || call.Call.StaticCallee() != pr.ctor {
				return
			}
			c.Instance("R1")
			c.FuncsSeen[p.QName(fn)] = true
			inserters[fn] = true
			name := "insert/" + core.FName(fn)
			P := call.Call.Args[pr.ctorPrevParam]
			N := call.Call.Args[pr.ctorNextParam]
			if core.IsNilConst(P) || core.IsNilConst(N) {
				c.Bad("R1", name+"/neighbours", p.InstrPos(call), "context constructed with a nil neighbour outside the pipeline constructor")
				return
			}
			isEnd := func(x ssa.Instruction) bool { return core.IsNormalReturn(x) || x == ssa.Instruction(call) }
			// forward link: Store(P.next <- new)
			fwd := &core.Query{P: p, Pred: func(x ssa.Instruction) bool {
				st, ok := x.(*ssa.Store)
				if !ok {
					return false
				}
				f, base := core.FieldOf(st.Addr)
				return f == pr.next && core.SameValue(base, P) && core.SameValue(st.Val, call)
			}}
			bad, path := fwd.MustPassBetween(call, nil, nil, isEnd, nil)
			c.Check(bad == nil, "R1", name+"/forward-link", p.InstrPos(call), "P.next <- new on every path", "an insertion path does not set the predecessor's next link to the new context (handler skipped on inbound walks)", p.PathString(path, bad)...)
			back := &core.Query{P: p, Pred: func(x ssa.Instruction) bool {
				st, ok := x.(*ssa.Store)
				if !ok {
					return false
				}
				f, base := core.FieldOf(st.Addr)
				return f == pr.prev && core.SameValue(base, N) && core.SameValue(st.Val, call)
			}}
			bad, path = back.MustPassBetween(call, nil, nil, isEnd, nil)
			c.Check(bad == nil, "R1", name+"/back-link", p.InstrPos(call), "N.prev <- new on every path", "an insertion path does not set the successor's prev link to the new context (handler skipped on outbound walks)", p.PathString(path, bad)...)
			inc := &core.Query{P: p, Pred: func(x ssa.Instruction) bool {
				st, ok := x.(*ssa.Store)
				if !ok {
					return false
				}
				f, _ := core.FieldOf(st.Addr)
				if f != pr.size {
					return false
				}
				b, ok := st.Val.(*ssa.BinOp)
				if !ok || b.Op != token.ADD {
					return false
				}
				k, isC := core.ConstInt(b.Y)
				lf, _ := core.FieldOf(b.X)
				return isC && k == 1 && lf == pr.size
			}}
			bad, path = inc.MustPassBetween(call, nil, nil, isEnd, nil)
			c.Check(bad == nil, "R1", name+"/size", p.InstrPos(call), "size <- size+1 on every path", "an insertion path does not increment the size (index views disagree with the list)", p.PathString(path, bad)...)
			// adjacency: N == load(P.next) or P == load(N.prev), read before the first link store
			adj := false
			if x, l := pr.stepOf(p, N); l == pr.next && core.SameValue(x, P) {
				adj = true
			}
			if x, l := pr.stepOf(p, P); l == pr.prev && core.SameValue(x, N) {
				adj = true
			}
			c.Check(adj, "R1", name+"/adjacent", p.InstrPos(call), "the neighbours handed to the constructor are adjacent (N = P.next or P = N.prev)", "the new context is linked between two contexts that are not adjacent (N is not P.next and P is not N.prev)")
		})
	}
	// census: stores to link fields / size
	for _, fn := range p.Funcs {
		for _, f := range []*types.Var{pr.next, pr.prev, pr.size} {
			for _, st := range core.StoresToField(fn, f) {
				if fn == pr.ctor || fn == pr.newPipeline || inserters[fn] {
					continue
				}
				c.Instance("R1")
				c.Bad("R1", "link-writer/"+core.FName(fn)+"/"+f.Name(), p.InstrPos(st), "a function that is neither the constructor nor an insertion routine writes the list links / size")
			}
		}
	}
	// AddHandler: in-order insertion
	ah := p.DeclMethod(pr.pipeT, "AddHandler")
	al := p.DeclMethod(pr.pipeT, "AddLast")
	if ah == nil || al == nil {
		c.Unk("R1", "AddHandler/order", "", "AddHandler/AddLast methods not found on the pipeline type")
		return
	}
	c.Instance("R1")
	c.FuncsSeen[p.QName(ah)] = true
	reachesCtor := map[*ssa.Function]int{}
	var reach func(fn *ssa.Function, d int) bool
	reach = func(fn *ssa.Function, d int) bool {
		if fn == nil || fn.Blocks == nil || d > 5 {
			return false
		}
		if v, ok := reachesCtor[fn]; ok {
			return v == 1
		}
		reachesCtor[fn] = 0
		res := false
		core.AllInstrs(fn, func(in ssa.Instruction) {
			if cc := core.CallCommon(in); cc != nil && !cc.IsInvoke() {
				if cal := cc.StaticCallee(); cal != nil {
					if cal == pr.ctor || reach(cal, d+1) {
						res = true
					}
				}
			}
		})
		if res {
			reachesCtor[fn] = 1
		}
		return res
	}
	positionIdx := -1
	for i, prm := range ah.Params {
		if b, ok := prm.Type().Underlying().(*types.Basic); ok && b.Kind() == types.Int {
			positionIdx = i
		}
	}
	core.AllInstrs(ah, func(in ssa.Instruction) {
		call, ok := in.(*ssa.Call)
		if !ok || call.Call.IsInvoke() {
			return
		}
		cal := call.Call.StaticCallee()
		if cal == nil || cal == pr.ctor || !reach(cal, 0) {
			return
		}
		name := "AddHandler/delegates-to/" + core.FName(cal)
		if cal == al {
			ok := positionIdx >= 0 && pr.underTailGuard(call, ah.Params[positionIdx])
			c.Check(ok, "R1", name, p.InstrPos(call), "AddLast delegation only under the tail-position guard (position == -1 or position == size-1)",
				"AddHandler delegates to AddLast outside the tail-position guard")
			return
		}
		// helper taking the cursor: accepted when it receives a context pointer argument
		takesCursor := false
		for _, a := range call.Call.Args[1:] {
			if isSelfPtr(a.Type(), pr.ctxT) {
				takesCursor = true
			}
		}
		c.Check(takesCursor, "R1", name, p.InstrPos(call), "insertion helper receives the cursor",
			"AddHandler delegates to an insertion routine that does not insert at the requested position in argument order ("+core.FName(cal)+")")
	})
	// cursor advance in AddHandler's own loop
	core.AllInstrs(ah, func(in ssa.Instruction) {
		call, ok := in.(*ssa.Call)
		if !ok || call.Call.StaticCallee() != pr.ctor {
			return
		}
		P := core.Unwrap(call.Call.Args[pr.ctorPrevParam])
		phi, ok := P.(*ssa.Phi)
		name := "AddHandler/cursor-advances"
		if !ok {
			// single insertion or loop-invariant insertion point: in a loop this reverses the order
			tgt, _ := core.Search(call, nil, func(x ssa.Instruction) core.Action {
				if x == ssa.Instruction(call) {
					return core.Target
				}
				return core.Continue
			}, nil)
			c.Check(tgt == nil, "R1", name, p.InstrPos(call), "single insertion", "AddHandler inserts several handlers at a fixed point (argument order reversed)")
			return
		}
		adv := false
		for i, e := range phi.Edges {
			// back edges: predecessor dominated by the phi's block
			if !phi.Block().Dominates(phi.Block().Preds[i]) {
				continue
			}
			if core.SameValue(e, call) {
				adv = true
			} else if x, l := pr.stepOf(p, core.ForwardLoad(e)); l == pr.next && core.SameValue(x, phi) {
				adv = true
			} else {
				adv = false
				break
			}
		}
		c.Check(adv, "R1", name, p.InstrPos(call), "the insertion cursor advances to the new context after each insertion (argument order kept)",
			"the insertion cursor does not advance to the newly inserted context (argument order not kept)")
	})
}

// underTailGuard: call executes only when position == -1 or position == size-1.
func (pr *pipeRoles) underTailGuard(call *ssa.Call, pos *ssa.Parameter) bool {
	blk := call.Block()
	isTailCond := func(ifi *ssa.If) (*ssa.BasicBlock, bool) {
		cd := core.CondOf(ifi)
		if cd.Op != token.EQL && cd.Op != token.NEQ {
			return nil, false
		}
		var other ssa.Value
		if core.Unwrap(cd.X) == ssa.Value(pos) {
			other = cd.Y
		} else if core.Unwrap(cd.Y) == ssa.Value(pos) {
			other = cd.X
		} else {
			return nil, false
		}
		okv := false
		if k, isC := core.ConstInt(other); isC && k == -1 {
			okv = true
		}
		if b, ok := other.(*ssa.BinOp); ok && b.Op == token.SUB {
			if k, isC := core.ConstInt(b.Y); isC && k == 1 {
				if f, _ := core.FieldOf(b.X); f == pr.size {
					okv = true
				}
			}
		}
		if !okv {
			return nil, false
		}
		if cd.Op == token.EQL {
			return cd.True, true
		}
		return cd.False, true
	}
	// every predecessor edge into the call's block must be a tail-condition true edge
	if len(blk.Preds) == 0 {
		return false
	}
	for _, pb := range blk.Preds {
		ifi, ok := pb.Instrs[len(pb.Instrs)-1].(*ssa.If)
		if !ok {
			return false
		}
		succ, ok := isTailCond(ifi)
		if !ok || succ != blk {
			return false
		}
	}
	return true
}

// ---------- R2 ----------
func runC03R2(c *core.Ctx, pr *pipeRoles) {
	p := c.P
	root := p.Roles().Root
	for _, fe := range c03Family {
		fn := p.DeclMethod(pr.ctxT, fe.method)
		name := "forward/" + fe.method
		if fn == nil {
			c.Bad("R2", name, "", "forwarding member "+fe.method+" not found on the context type")
			continue
		}
		c.Instance("R2")
		c.FuncsSeen[p.QName(fn)] = true
		iface := lookupNamedT(root, fe.iface)
		if iface == nil {
			c.Unk("R2", name, p.Pos(fn.Pos()), "handler interface "+fe.iface+" not found")
			continue
		}
		wantLink := pr.next
		if fe.outbound {
			wantLink = pr.prev
		}
		// invoke sites of any handler-interface method
		var invokes []*ssa.Call
		core.AllInstrs(fn, func(in ssa.Instruction) {
			call, ok := in.(*ssa.Call)
			if !ok || !call.Call.IsInvoke() {
				return
			}
			if f, _ := core.FieldOf(call.Call.Value); f != nil && isCastField(pr, f) {
				invokes = append(invokes, call)
			}
		})
		if len(invokes) == 0 {
			c.Bad("R2", name+"/invoke", p.Pos(fn.Pos()), "forwarding member never invokes a handler")
			continue
		}
		recv := fn.Params[0]
		for i, call := range invokes {
			nm := name
			if i > 0 {
				nm = fmt.Sprintf("%s/invoke#%d", name, i+1)
			}
			castF, node := core.FieldOf(call.Call.Value)
			// kind agreement
			c.Check(types.Identical(castF.Type(), iface) && call.Call.Method.Name() == fe.invoke, "R2", nm+"/kind", p.InstrPos(call),
				"cast field, interface and invoked method match the event kind ("+fe.iface+"."+fe.invoke+")",
				fmt.Sprintf("event kind mismatch: member %s tests field %s (%s) and invokes %s; table says %s.%s", fe.method, castF.Name(), castF.Type(), call.Call.Method.Name(), fe.iface, fe.invoke))
			// context identity
			ctxArg := call.Call.Args[0]
			c.Check(core.SameValue(ctxArg, node), "R2", nm+"/context-identity", p.InstrPos(call),
				"the context passed to the handler is the node whose cast field was tested",
				"the handler is invoked with a context other than its own position")
			// payload identity
			payloadOK := true
			for ai, a := range call.Call.Args[1:] {
				if core.ParamOf(fn, a) != ai+1 {
					payloadOK = false
				}
			}
			c.Check(payloadOK && len(call.Call.Args)-1 == len(fn.Params)-1, "R2", nm+"/payload", p.InstrPos(call),
				"the payload forwarded is the member's own parameter, unmodified", "the payload handed to the handler is not the member's own parameter")
			// walk shape: the tested node T is at least one step away from the receiver on every path
			// (T is a step, or a phi all of whose edges are steps), all steps follow wantLink, and every
			// step starts from the receiver, from T, or from a phi over {receiver, T} (one step per test).
			shapeOK, why := true, ""
			T := core.Unwrap(core.ForwardLoad(core.Unwrap(node)))
			isRecv := func(v ssa.Value) bool { return core.SameValue(v, recv) }
			var isStepVal func(v ssa.Value, d int) bool
			isStepVal = func(v ssa.Value, d int) bool {
				if d > 4 {
					return false
				}
				v = core.Unwrap(core.ForwardLoad(core.Unwrap(v)))
				if _, l := pr.stepOf(p, v); l != nil {
					return true
				}
				if phi, ok := v.(*ssa.Phi); ok {
					for _, e := range phi.Edges {
						if core.Unwrap(e) == ssa.Value(phi) {
							continue
						}
						if !isStepVal(e, d+1) {
							return false
						}
					}
					return len(phi.Edges) > 0
				}
				return false
			}
			if !isStepVal(T, 0) {
				shapeOK, why = false, "the tested node is not obtained by stepping along a link (the walk may test the starting context itself)"
			}
			okSource := func(x ssa.Value) bool {
				x = core.Unwrap(core.ForwardLoad(core.Unwrap(x)))
				if isRecv(x) || x == T {
					return true
				}
				if phi, ok := x.(*ssa.Phi); ok {
					for _, e := range phi.Edges {
						e = core.Unwrap(core.ForwardLoad(core.Unwrap(e)))
						if !(isRecv(e) || e == T || e == ssa.Value(phi)) {
							return false
						}
					}
					return true
				}
				return false
			}
			core.AllInstrs(fn, func(in ssa.Instruction) {
				v, ok := in.(ssa.Value)
				if !ok {
					return
				}
				x, l := pr.stepOf(p, v)
				if l == nil {
					return
				}
				if l != wantLink {
					shapeOK, why = false, fmt.Sprintf("walks along %s, table says %s", l.Name(), wantLink.Name())
				}
				if !okSource(x) {
					shapeOK, why = false, "a step does not start from the receiver or from the node just tested (more than one step per test: a handler is skipped)"
				}
			})
			c.Check(shapeOK, "R2", nm+"/walk", p.InstrPos(call), "walk starts at the receiver, first step before the first test, one step per iteration, along "+wantLink.Name(), "walk shape: "+why)
			// at most one invoke per call
			tgt, path := core.Search(call, nil, func(y ssa.Instruction) core.Action {
				for _, o := range invokes {
					if y == ssa.Instruction(o) {
						return core.Target
					}
				}
				return core.Continue
			}, nil)
			c.Check(tgt == nil, "R2", nm+"/once", p.InstrPos(call), "after the invoke the walk ends (handler invoked at most once per call)", "after invoking a handler the walk continues and can invoke another handler (event delivered twice)", p.PathString(path, tgt)...)
			// guards: node != nil and handler != nil dominate the invoke
			c.Check(nonNilGuarded(p, call, core.Unwrap(node)) && nonNilGuarded(p, call, call.Call.Value), "R2", nm+"/guards", p.InstrPos(call),
				"the invoke is guarded by node != nil and handler != nil", "the invoke is not guarded by nil tests of the node and of its cast field")
		}
	}
}

func isCastField(pr *pipeRoles, f *types.Var) bool {
	for _, x := range pr.castFields {
		if x == f {
			return true
		}
	}
	return false
}

// nonNilGuarded: in executes only on the v != nil side of a test of v.
func nonNilGuarded(p *core.Prog, in ssa.Instruction, v ssa.Value) bool {
	// v == nil known false here (possibly through the only consistent predecessor of a merged test)
	for _, cm := range falseAt(p, in) {
		if cm.Op != token.EQL {
			continue
		}
		if (core.SameValue(cm.X, v) && core.IsNilConst(cm.Y)) || (core.SameValue(cm.Y, v) && core.IsNilConst(cm.X)) {
			return true
		}
	}
	for _, ifi := range core.Ifs(in.Parent()) {
		cd := core.CondOf(ifi)
		if cd.Op != token.EQL && cd.Op != token.NEQ {
			continue
		}
		var other ssa.Value
		if core.SameValue(cd.X, v) {
			other = cd.Y
		} else if core.SameValue(cd.Y, v) {
			other = cd.X
		} else {
			continue
		}
		if !core.IsNilConst(other) {
			continue
		}
		nn := cd.True
		if cd.Op == token.EQL {
			nn = cd.False
		}
		if core.EdgeDominates(ifi.Block(), nn, in.Block()) {
			return true
		}
	}
	return false
}

// ---------- R3 ----------
func runC03R3(c *core.Ctx, pr *pipeRoles) {
	p := c.P
	ctor := pr.ctor
	c.FuncsSeen[p.QName(ctor)] = true
	hp := ctor.Params[pr.ctorHandlerParam]
	var want []string
	for _, f := range pr.castFields {
		f := f
		c.Instance("R3")
		want = append(want, f.Type().String())
		q := &core.Query{P: p, Pred: func(x ssa.Instruction) bool {
			st, ok := x.(*ssa.Store)
			if !ok {
				return false
			}
			sf, _ := core.FieldOf(st.Addr)
			if sf != f {
				return false
			}
			v := core.Unwrap(st.Val)
			if ex, ok := v.(*ssa.Extract); ok {
				v = ex.Tuple
			}
			ta, ok := v.(*ssa.TypeAssert)
			if !ok {
				return false
			}
			return types.Identical(ta.AssertedType, f.Type()) && core.ParamOf(ctor, ta.X) == pr.ctorHandlerParam
		}}
		_ = hp
		bad, path := q.MustPassBetween(nil, ctor.Blocks[0], nil, core.IsNormalReturn, nil)
		c.Check(bad == nil, "R3", "ctor/cast/"+f.Name(), p.Pos(ctor.Pos()), "filled from handler.("+f.Type().String()+") on every path",
			"a constructor path leaves cast field "+f.Name()+" unset or fills it from a different interface (handler skipped for that event kind)", p.PathString(path, bad)...)
	}
	sort.Strings(want)
	// family-table interface set == cast field set
	fam := map[string]bool{}
	for _, fe := range c03Family {
		if n := lookupNamedT(p.Roles().Root, fe.iface); n != nil {
			fam[n.String()] = true
		}
	}
	var famL []string
	for k := range fam {
		famL = append(famL, k)
	}
	sort.Strings(famL)
	c.Check(strings.Join(famL, ",") == strings.Join(want, ","), "R3", "cast-fields-vs-family", p.Pos(ctor.Pos()), "cast fields = handler kinds of the forwarding family", fmt.Sprintf("cast fields %v differ from the forwarding family's interfaces %v", want, famL))
	// checkHandler: AST type switch
	var chk *ssa.Function
	for _, fn := range p.Funcs {
		if fn.Parent() == nil && p.PkgRel(fn) == "." && fn.Signature.Recv() == nil && fn.Signature.Results().Len() == 0 && fn.Signature.Variadic() && fn.Signature.Params().Len() == 1 {
			// candidate: variadic of Handler
			if sl, ok := fn.Signature.Params().At(0).Type().(*types.Slice); ok && sl.Elem().String() == p.Module+".Handler" {
				chk = fn
			}
		}
	}
	if chk == nil {
		c.Unk("R3", "checkHandler", "", "admission check (func(...Handler)) not found")
		return
	}
	c.FuncsSeen[p.QName(chk)] = true
	// the admitted interfaces: every comma-ok type assertion on a handler value (a type switch is lowered to
	// the same chain of assertions)
	var cases []string
	var asserts []*ssa.TypeAssert
	failEdge := map[edgeKey]bool{} // edges taken when an assertion succeeded
	seenCase := map[string]bool{}
	core.AllInstrs(chk, func(in ssa.Instruction) {
		ta, ok := in.(*ssa.TypeAssert)
		if !ok || !ta.CommaOk {
			return
		}
		if _, isIface := ta.AssertedType.Underlying().(*types.Interface); !isIface {
			return
		}
		asserts = append(asserts, ta)
		if t := ta.AssertedType.String(); !seenCase[t] {
			seenCase[t] = true
			cases = append(cases, t)
		}
	})
	for _, ifi := range core.Ifs(chk) {
		cd := core.CondOf(ifi)
		if ex, ok := cd.X.(*ssa.Extract); ok && cd.Op == token.ILLEGAL && ex.Index == 1 {
			if ta, ok := ex.Tuple.(*ssa.TypeAssert); ok && ta.CommaOk {
				failEdge[edgeKey{ifi.Block(), cd.True}] = true
			}
		}
	}
	sort.Strings(cases)
	c.Instance("R3")
	c.Check(strings.Join(cases, ",") == strings.Join(want, ","), "R3", core.FName(chk)+"/cases", p.Pos(chk.Pos()), "admits exactly the cast-field interfaces", fmt.Sprintf("admission check cases %v differ from the cast-field interfaces %v", cases, want))
	// a handler that satisfies none of them: every path that fails all assertions raises before the next
	// handler is looked at or the function returns
	pan := &core.Query{P: p, Pred: func(x ssa.Instruction) bool { _, ok := x.(*ssa.Panic); return ok }}
	defaultPanics := len(asserts) > 0
	if len(asserts) > 0 {
		first := asserts[0]
		for _, a := range asserts {
			if core.Dominates(a, first) {
				first = a
			}
		}
		t, _ := core.Search(first, nil, func(x ssa.Instruction) core.Action {
			if pan.InstrMay(x, nil) {
				return core.Barrier
			}
			if x == ssa.Instruction(first) || core.IsNormalReturn(x) {
				return core.Target
			}
			return core.Continue
		}, func(a, b *ssa.BasicBlock) bool { return !failEdge[edgeKey{a, b}] })
		if t != nil {
			defaultPanics = false
		}
	}
	c.Check(defaultPanics, "R3", core.FName(chk)+"/default-panics", p.Pos(chk.Pos()), "a handler matching no interface raises", "admission check has no panicking default arm (a handler implementing no handler interface is admitted silently)")
}

// ---------- R4 ----------
func runC03R4(c *core.Ctx, pr *pipeRoles, r *core.Roles) {
	p := c.P
	type fire struct {
		name, member string
		end          *types.Var
	}
	fires := []fire{
		{"FireChannelActive", "HandleActive", pr.head},
		{"FireChannelRead", "HandleRead", pr.head},
		{"FireChannelWrite", "HandleWrite", pr.tail},
		{"FireChannelException", "HandleException", pr.head},
		{"FireChannelInactive", "HandleInactive", pr.head},
		{"FireChannelEvent", "HandleEvent", pr.head},
	}
	for _, f := range fires {
		fn := p.DeclMethod(pr.pipeT, f.name)
		name := "fire/" + f.name
		if fn == nil {
			c.Bad("R4", name, "", "entry point not found on the pipeline type")
			continue
		}
		c.Instance("R4")
		c.FuncsSeen[p.QName(fn)] = true
		member := p.DeclMethod(pr.ctxT, f.member)
		n, good := 0, true
		why := ""
		core.AllInstrs(fn, func(in ssa.Instruction) {
			call, ok := in.(*ssa.Call)
			if !ok || call.Call.IsInvoke() {
				return
			}
			cal := call.Call.StaticCallee()
			if cal == nil || cal.Signature.Recv() == nil || !isSelfPtr(cal.Signature.Recv().Type(), pr.ctxT) {
				return
			}
			n++
			if cal != member {
				good = false
				why = "calls " + core.FName(cal) + " instead of " + f.member
			}
			if ef, _ := core.FieldOf(call.Call.Args[0]); ef != f.end {
				good = false
				why = "starts at the wrong end of the list (want " + f.end.Name() + ")"
			}
			for ai, a := range call.Call.Args[1:] {
				if core.ParamOf(fn, a) != ai+1 {
					good = false
					why = "does not pass its own argument"
				}
			}
		})
		// exactly one call on every path
		q := &core.Query{P: p, Pred: func(x ssa.Instruction) bool {
			cc := core.CallCommon(x)
			return cc != nil && !cc.IsInvoke() && cc.StaticCallee() == member
		}}
		if bad, _ := q.MustPassBetween(nil, fn.Blocks[0], nil, core.IsNormalReturn, nil); bad != nil {
			good = false
			why = "some path does not fire the event"
		}
		c.Check(good && n == 1, "R4", name, p.Pos(fn.Pos()), "starts at "+f.end.Name()+" and calls "+f.member+" with its own argument", "entry wiring: "+why)
	}
	// head handler outbound-only, tail handler closes with same exception
	six := []string{"ActiveHandler", "InboundHandler", "OutboundHandler", "ExceptionHandler", "InactiveHandler", "EventHandler"}
	implSet := func(t types.Type) string {
		var s []string
		for _, n := range six {
			if it := lookupNamedT(r.Root, n); it != nil && (types.Implements(t, it.Underlying().(*types.Interface)) || types.Implements(types.NewPointer(t), it.Underlying().(*types.Interface))) {
				s = append(s, n)
			}
		}
		return strings.Join(s, ",")
	}
	core.AllInstrs(pr.newPipeline, func(in ssa.Instruction) {
		call, ok := in.(*ssa.Call)
		if !ok || call.Call.StaticCallee() != pr.ctor {
			return
		}
		mi, ok := call.Call.Args[pr.ctorHandlerParam].(*ssa.MakeInterface)
		if !ok {
			return
		}
		set := implSet(mi.X.Type())
		// which end?
		var end *types.Var
		for _, ref := range *call.Referrers() {
			if st, ok := ref.(*ssa.Store); ok {
				end, _ = core.FieldOf(st.Addr)
			}
		}
		c.Instance("R4")
		if end == pr.head {
			c.Check(set == "OutboundHandler", "R4", "head-handler/kinds", p.InstrPos(call), "head handler is outbound-only", "head handler implements "+set+" (must be outbound only: it terminates the outbound walk and must not intercept inbound events)")
		} else if end == pr.tail {
			c.Check(set == "ExceptionHandler", "R4", "tail-handler/kinds", p.InstrPos(call), "tail handler is exception-only", "tail handler implements "+set+" (must only catch unhandled exceptions)")
			// HandleException reaches Channel.Close(ex) with same ex on every path
			var he *ssa.Function
			if n, ok := types.Unalias(mi.X.Type()).(*types.Named); ok {
				he = p.Method(n, "HandleException")
			}
			if he == nil {
				c.Unk("R4", "tail-handler/closes", p.InstrPos(call), "tail HandleException not found")
				return
			}
			c.FuncsSeen[p.QName(he)] = true
			exIdx := len(he.Params) - 1
			q := &core.Query{P: p, Pred: func(x ssa.Instruction) bool {
				cc := core.CallCommon(x)
				if cc == nil || !cc.IsInvoke() || cc.Method.Name() != "Close" || len(cc.Args) != 1 {
					return false
				}
				return core.ParamOf(he, cc.Args[0]) == exIdx
			}}
			bad, path := q.MustPassBetween(nil, he.Blocks[0], nil, core.IsNormalReturn, nil)
			c.Check(bad == nil, "R4", "tail-handler/closes", p.Pos(he.Pos()), "closes the channel with the very exception on every path", "an unhandled exception reaching the tail does not close the channel with that exception on every path", p.PathString(path, bad)...)
		}
	})
	// Channel.Write -> FireChannelWrite(message); Channel.Trigger -> FireChannelEvent(event)
	for _, w := range [][2]string{{"Write", "FireChannelWrite"}, {"Trigger", "FireChannelEvent"}} {
		fn := p.DeclMethod(r.Chan, w[0])
		if fn == nil {
			c.Bad("R4", "channel/"+w[0], "", "method not found")
			continue
		}
		c.Instance("R4")
		c.FuncsSeen[p.QName(fn)] = true
		found := false
		for _, f := range core.WithAnon(fn) {
			core.AllInstrs(f, func(in ssa.Instruction) {
				if !ifaceInvoke(in, r.PipelineIface, w[1]) {
					return
				}
				cc := core.CallCommon(in)
				if len(cc.Args) == 1 && isParamOrCaptured(fn, f, cc.Args[0], 1) {
					found = true
				}
			})
		}
		c.Check(found, "R4", "channel/"+w[0], p.Pos(fn.Pos()), "fires "+w[1]+" with the caller's argument unchanged", "Channel."+w[0]+" does not fire "+w[1]+" with the caller's own argument")
	}
}

// isParamOrCaptured: v is parameter #idx of outer, possibly read through a closure capture.
func isParamOrCaptured(outer, inner *ssa.Function, v ssa.Value, idx int) bool {
	v = core.Unwrap(v)
	if core.ParamOf(outer, v) == idx {
		return true
	}
	// load of a free var that captures the parameter's cell
	if ld, ok := v.(*ssa.UnOp); ok && ld.Op == token.MUL {
		if fv, ok := ld.X.(*ssa.FreeVar); ok {
			for i, x := range inner.FreeVars {
				if x != fv {
					continue
				}
				// find MakeClosure in outer
				res := false
				core.AllInstrs(outer, func(in ssa.Instruction) {
					if mc, ok := in.(*ssa.MakeClosure); ok && mc.Fn == inner && i < len(mc.Bindings) {
						if al, ok := mc.Bindings[i].(*ssa.Alloc); ok {
							for _, r := range *al.Referrers() {
								if st, ok := r.(*ssa.Store); ok && st.Addr == al && idx < len(outer.Params) && st.Val == ssa.Value(outer.Params[idx]) {
									res = true
								}
							}
						}
					}
				})
				return res
			}
		}
	}
	if fv, ok := v.(*ssa.FreeVar); ok {
		for i, x := range inner.FreeVars {
			if x == fv {
				res := false
				core.AllInstrs(outer, func(in ssa.Instruction) {
					if mc, ok := in.(*ssa.MakeClosure); ok && mc.Fn == inner && i < len(mc.Bindings) && idx < len(outer.Params) {
						if core.Unwrap(mc.Bindings[i]) == ssa.Value(outer.Params[idx]) {
							res = true
						}
					}
				})
				return res
			}
		}
	}
	return false
}

// ---------- R5 ----------
func runC03R5(c *core.Ctx, pr *pipeRoles) {
	p := c.P
	type view struct {
		name      string
		end, link *types.Var
		counter   string // "up0", "downSize", "up0bounded"
	}
	views := []view{{"IndexOf", pr.head, pr.next, "up0"}, {"LastIndexOf", pr.tail, pr.prev, "downSize"}, {"ContextAt", pr.head, pr.next, "up0"}}
	for _, v := range views {
		fn := p.DeclMethod(pr.pipeT, v.name)
		name := "view/" + v.name
		if fn == nil {
			c.Bad("R5", name, "", "method not found")
			continue
		}
		c.Instance("R5")
		c.FuncsSeen[p.QName(fn)] = true
		// cursor phi (in the method itself or in a repo helper it calls for the walk)
		var cur *ssa.Phi
		var cnt *ssa.Phi
		walkFn := fn
		hasPhi := func(f *ssa.Function) bool {
			h := false
			core.AllInstrs(f, func(in ssa.Instruction) {
				if ph, ok := in.(*ssa.Phi); ok && isSelfPtr(ph.Type(), pr.ctxT) {
					h = true
				}
			})
			return h
		}
		if !hasPhi(fn) {
			core.AllInstrs(fn, func(in ssa.Instruction) {
				if cc := core.CallCommon(in); cc != nil && !cc.IsInvoke() {
					if cal := cc.StaticCallee(); cal != nil && p.InRepo(cal) && hasPhi(cal) {
						walkFn = cal
					}
				}
			})
		}
		core.AllInstrs(walkFn, func(in ssa.Instruction) {
			if ph, ok := in.(*ssa.Phi); ok {
				if isSelfPtr(ph.Type(), pr.ctxT) && cur == nil {
					cur = ph
				}
				if b, ok := ph.Type().Underlying().(*types.Basic); ok && b.Kind() == types.Int && cnt == nil {
					cnt = ph
				}
			}
		})
		if cur == nil || cnt == nil {
			c.Unk("R5", name, p.Pos(fn.Pos()), "cursor / counter loop variables not recognised")
			continue
		}
		okOrigin, okStep := false, true
		for i, e := range cur.Edges {
			back := cur.Block().Dominates(cur.Block().Preds[i])
			if !back {
				if f, _ := core.FieldOf(e); f == v.end {
					okOrigin = true
				}
			} else {
				x, l := pr.stepOf(p, e)
				if l != v.link || core.Unwrap(x) != ssa.Value(cur) {
					okStep = false
				}
			}
		}
		c.Check(okOrigin, "R5", name+"/origin", p.Pos(fn.Pos()), "walk starts at "+v.end.Name(), "index view starts at the wrong end (want "+v.end.Name()+")")
		c.Check(okStep, "R5", name+"/direction", p.Pos(fn.Pos()), "walk follows "+v.link.Name()+" one step per iteration", "index view does not follow "+v.link.Name()+" one step per iteration")
		okInit, okInc := false, true
		for i, e := range cnt.Edges {
			back := cnt.Block().Dominates(cnt.Block().Preds[i])
			if !back {
				switch v.counter {
				case "up0":
					if k, isC := core.ConstInt(e); isC && k == 0 {
						okInit = true
					}
				case "downSize":
					if b, ok := e.(*ssa.BinOp); ok && b.Op == token.SUB {
						if k, isC := core.ConstInt(b.Y); isC && k == 1 {
							if f, _ := core.FieldOf(b.X); f == pr.size {
								okInit = true
							}
						}
					}
				}
			} else {
				b, ok := e.(*ssa.BinOp)
				if !ok || b.X != ssa.Value(cnt) {
					okInc = false
					continue
				}
				k, isC := core.ConstInt(b.Y)
				if !isC || k != 1 || (v.counter == "up0" && b.Op != token.ADD) || (v.counter == "downSize" && b.Op != token.SUB) {
					okInc = false
				}
			}
		}
		c.Check(okInit && okInc, "R5", name+"/counter", p.Pos(fn.Pos()), "counter origin and step agree with the walk", "index view counter does not agree with the walk (origin/step)")
		if v.name == "ContextAt" {
			// guarded by position < size: some If compares the position parameter with size and the out-of-range side returns nil
			g := false
			for _, ifi := range core.Ifs(fn) {
				cd := core.CondOf(ifi)
				fx, _ := core.FieldOf(cd.X)
				fy, _ := core.FieldOf(cd.Y)
				if (fx == pr.size && core.ParamOf(fn, cd.Y) == 1) || (fy == pr.size && core.ParamOf(fn, cd.X) == 1) {
					g = true
				}
			}
			c.Check(g, "R5", name+"/range-guard", p.Pos(fn.Pos()), "position compared with size before walking", "ContextAt walks without comparing the position with the size")
			// and the comparison is the right one: where a context is returned, position >= size is known to be false
			// (position == size would walk onto the tail sentinel and hand out a context that is not a handler)
			if g {
				c.Instance("R5")
				strict := true
				core.AllInstrs(fn, func(in ssa.Instruction) {
					ret, ok := in.(*ssa.Return)
					if !ok || len(ret.Results) != 1 || core.IsNilConst(core.Unwrap(ret.Results[0])) {
						return
					}
					if k, isC := core.Unwrap(ret.Results[0]).(*ssa.Const); isC && k.IsNil() {
						return
					}
					known := false
					for _, cm := range falseAt(p, ret) {
						fx, _ := core.FieldOf(stripConv(cm.X))
						fy, _ := core.FieldOf(stripConv(cm.Y))
						if cm.Op == token.GEQ && core.ParamOf(fn, stripConv(cm.X)) == 1 && fy == pr.size {
							known = true
						}
						if cm.Op == token.LEQ && fx == pr.size && core.ParamOf(fn, stripConv(cm.Y)) == 1 {
							known = true
						}
					}
					if !known {
						strict = false
					}
				})
				c.Check(strict, "R5", name+"/range-guard-strict", p.Pos(fn.Pos()), "a context is returned only for position < size", "ContextAt can return a context for position == size (or beyond): the bound test admits the position one past the last handler, the walk ends on the tail sentinel")
			}
		}
		if v.name != "ContextAt" {
			// found-branch returns the counter
			okRet := false
			core.AllInstrs(fn, func(in ssa.Instruction) {
				if ret, ok := in.(*ssa.Return); ok && len(ret.Results) == 1 && ret.Results[0] == ssa.Value(cnt) {
					okRet = true
				}
			})
			c.Check(okRet, "R5", name+"/returns-counter", p.Pos(fn.Pos()), "returns the counter at the match", "does not return the walk counter at the match")
		}
	}
}
