package rules

import (
	"fmt"
	"go/token"
	"go/types"
	"strings"

	"golang.org/x/tools/go/ssa"
	"verif/checker/internal/core"
)

func init() {
	register(&Property{
		ID:    "C07",
		Title: "Handler panics and transport failures are contained and routed as exceptions",
		Explanation: "DECIDES (containment as a property of the call structure): R1 every site that fires an active/read/write/user/inactive event into the pipeline (Pipeline.FireChannel* invokes and bound method values, from every entry: read loop, Channel.Write, Channel.Trigger, Close) executes inside a frame whose deferred closure calls recover() itself and routes the value; HandlerContext.Write/Trigger register such a frame themselves; the idle-timer callbacks trigger inside one; " +
			"R2 every recovering closure in the core routes the recovered value - converted by AsException - to Pipeline.FireChannelException (or, for the goroutine roots, to Close) on every path of its non-nil branch, only skips routing on the channel-already-closed side, and never re-panics; invokeMethod closes the channel for a non-timeout net.Error found with errors.As; " +
			"R3 every goroutine root started by go-netty (go, Executor.Exec, time.AfterFunc) from which a delivery or transport call is reachable is recover-guarded from its first instruction; R4 AsException returns the very error value for errors and nil for nil; utils.Assert* panic with the error value itself; " +
			"R5 no error result of transport.Write/Writev/Flush in the core is dropped. " +
			"ALSO: assert helpers return normally only for a nil error; FireChannelException fires on every path (imports listed in RULES.md). " +
			"DOES NOT DECIDE: behaviour when exception handlers themselves panic (excluded by the property), usability of the channel after a swallowed read error, user code outside deliveries (initialisers, Async callbacks).",
		Assumptions: []string{"exception handlers do not panic (property precondition)"},
		Run:         runC07,
	})
}

var deliveryFires = []string{"FireChannelActive", "FireChannelRead", "FireChannelWrite", "FireChannelEvent", "FireChannelInactive"}

// allFuncsWithBound: repo functions plus the synthetic bound-method wrappers they create.
func allFuncsWithBound(p *core.Prog) []*ssa.Function {
	seen := map[*ssa.Function]bool{}
	var out []*ssa.Function
	for _, fn := range p.Funcs {
		if !seen[fn] {
			seen[fn] = true
			out = append(out, fn)
		}
		core.AllInstrs(fn, func(in ssa.Instruction) {
			if mc, ok := in.(*ssa.MakeClosure); ok {
				if f, ok := mc.Fn.(*ssa.Function); ok && !seen[f] && f.Blocks != nil && strings.Contains(f.Synthetic, "bound") {
					seen[f] = true
					out = append(out, f)
				}
			}
		})
	}
	return out
}

func runC07(c *core.Ctx) {
	e, ok := newEv(c)
	if !ok {
		return
	}
	p, r := c.P, e.r
	c.Rule("R1", "every event delivery site runs inside a routing recover frame", 7)
	c.Rule("R2", "every recovering closure routes the recovered value (AsException) to FireChannelException / Close and never re-panics", 5)
	c.Rule("R3", "goroutine roots that can reach deliveries or transport calls are recover-guarded", 2)
	c.Rule("R4", "AsException and utils.Assert* keep the identity of error values", 2)
	c.Rule("R5", "no transport Write/Writev/Flush error is dropped in the core", 6)

	prot := e.protFuncs(true)       // frames that route or close (goroutine roots)
	protRoute := e.protFuncs(false) // frames that route to the exception handlers

	// ---- R1: fire sites
	for _, fn := range allFuncsWithBound(p) {
		if rel := p.PkgRel(fn); rel != "." && fn.Pkg != nil {
			// codecs/handlers outside the core fire nothing into the pipeline head; if they do it is a nested delivery
			continue
		}
		core.AllInstrs(fn, func(in ssa.Instruction) {
			if !ifaceInvoke(in, r.PipelineIface, deliveryFires...) {
				return
			}
			c.Instance("R1")
			c.CallSites++
			c.FuncsSeen[core.FName(fn)] = true
			kind := core.CallCommon(in).Method.Name()
			okp, why := e.protectedSite(in, protRoute, 0)
			c.Check(okp, "R1", "fire-site/"+core.FName(core.Outermost(fn))+"/"+kind, p.InstrPos(in),
				"delivery happens inside a routing recover frame ("+why+")",
				"event delivery outside any routing recover frame: a handler panic escapes into the caller / kills the goroutine ("+why+")")
		})
	}
	// context members Write / Trigger are frames themselves
	pr := resolvePipe(p)
	if len(pr.errs) == 0 {
		for _, m := range []string{"Write", "Trigger"} {
			fn := p.DeclMethod(pr.ctxT, m)
			c.Instance("R1")
			if fn == nil {
				c.Bad("R1", "ctx-member/"+m, "", "HandlerContext."+m+" implementation not found")
				continue
			}
			fr, has := protRoute[fn]
			okf := has && fr.Defer.Block() == fn.Blocks[0]
			if okf {
				// the delivery invoke must come after the defer
				core.AllInstrs(fn, func(in ssa.Instruction) {
					if cc := core.CallCommon(in); cc != nil && cc.IsInvoke() && strings.HasPrefix(cc.Method.Name(), "Handle") && !core.Dominates(fr.Defer, in) {
						okf = false
					}
				})
			}
			c.Check(okf, "R1", "ctx-member/"+m, p.Pos(fn.Pos()), "registers a routing recover frame before delivering",
				"HandlerContext."+m+" delivers without a routing recover frame of its own (a panic escapes into the calling handler / timer goroutine)")
		}
	}
	// timer callbacks: HandlerContext.Trigger invokes in AfterFunc roots are inside a frame
	hcIface := lookupNamedT(r.Root, "HandlerContext")
	for _, root := range e.goroutineRoots() {
		if root.kind != "AfterFunc" {
			continue
		}
		for _, f := range calleesWithin(p, root.fn, 2) {
			core.AllInstrs(f, func(in ssa.Instruction) {
				if hcIface == nil || !ifaceInvoke(in, hcIface, "Trigger", "Write") {
					return
				}
				c.Instance("R1")
				okp, why := e.protectedSite(in, protRoute, 0)
				c.Check(okp, "R1", "timer-trigger/"+core.FName(root.fn), p.InstrPos(in), "timer callback triggers inside a routing recover frame",
					"the idle-timer callback triggers its event outside a routing recover frame ("+why+")")
			})
		}
	}

	// ---- R2: every recover frame in the core routes
	for _, fn := range p.Funcs {
		if p.PkgRel(fn) != "." {
			continue
		}
		for _, fr := range recoverFrames(fn) {
			c.Instance("R2")
			c.FuncsSeen[core.FName(fn)] = true
			isRoot := core.Outermost(fn) == r.Sender || e.isGoroutineRootFunc(core.Outermost(fn))
			okr, why := e.routingFrame(fr, isRoot)
			c.Check(okr, "R2", "recover/"+core.FName(fr.Closure), p.InstrPos(fr.Defer), "routes the recovered value", "recover closure does not route the panic: "+why)
		}
	}
	// deferred closures that call recover() indirectly never recover: flag closures deferred whose callee calls recover through a helper
	for _, fn := range p.Funcs {
		core.AllInstrs(fn, func(in ssa.Instruction) {
			if _, ok := core.IsBuiltinCall(in, "recover"); !ok {
				return
			}
			host := in.Parent()
			// host must be the direct target of some defer
			direct := false
			for _, g := range p.Funcs {
				core.AllInstrs(g, func(x ssa.Instruction) {
					if d, ok := x.(*ssa.Defer); ok {
						if f := core.FuncValue(d.Call.Value, nil); f == host || d.Call.StaticCallee() == host {
							direct = true
						}
					}
				})
			}
			if !direct {
				c.Instance("R2")
				c.Bad("R2", "recover-not-deferred/"+core.FName(host), p.InstrPos(in), "recover() is called in a function that is not itself deferred: it always returns nil, so the panic is not contained")
			}
		})
	}
	// invokeMethod-style close on fatal net.Error
	e.checkFatalNetErrorClose(c, "R2")

	// ---- R3
	nroots := 0
	for _, root := range e.goroutineRoots() {
		reach := e.reachesDeliveryOrTransport(root.fn)
		if !reach {
			continue
		}
		nroots++
		c.Instance("R3")
		c.FuncsSeen[core.FName(root.fn)] = true
		okg, why := e.guardedRoot(root.fn, prot, 0)
		c.Check(okg, "R3", "root/"+root.kind+"/"+core.FName(root.fn), p.InstrPos(root.site), "goroutine root is recover-guarded", "goroutine root can die from a panic: "+why)
	}

	// ---- R6: the sender's panic exit (shared with C02-R3)
	c.Rule("R6", "sender recover path: release the flag, then Close with the exception", 1)
	runSenderRecover(c, e, "R6")
	ruleFailedSenderReleasesCloser(c, e, "R6")
	// exceptions are delivered to every handler that declares HandleException, in order (the context records that
	// role for every handler kind), and carry the failure that happened (transport errors are not rewritten)
	c.Rule("R7", "every handler's exception role is recorded by the context constructor; the exact-length reader rewrites only io.EOF (shared with C03-R3, C08-R7)", 2)
	importObligations(c, runC03, "R7", func(o *core.Obligation) bool { return o.Rule == "R3" && strings.Contains(o.Key, "ctor/cast") })
	importObligations(c, runC08, "R7", func(o *core.Obligation) bool { return strings.Contains(o.Key, "maps-only-eof") })
	importObligations(c, runC03, "R7", func(o *core.Obligation) bool {
		return o.Rule == "R4" && (strings.Contains(o.Key, "tail-handler") || strings.Contains(o.Key, "fire/FireChannelException"))
	})

	// ---- R4
	e.checkAsException(c)

	// ---- R5
	for _, fn := range p.Funcs {
		if p.PkgRel(fn) != "." {
			continue
		}
		core.AllInstrs(fn, func(in ssa.Instruction) {
			if !e.transportInvoke(in, "Write", "Writev", "Flush") {
				return
			}
			c.Instance("R5")
			errv := errOfCall(in)
			used := false
			if errv != nil && errv.Referrers() != nil {
				for _, ref := range *errv.Referrers() {
					switch x := ref.(type) {
					case *ssa.DebugRef:
					case *ssa.Store:
						used = true
					case *ssa.Return, *ssa.If, *ssa.BinOp, *ssa.Phi, *ssa.MakeInterface:
						used = true
					default:
						if core.CallCommon(x) != nil {
							used = true
						}
					}
				}
			}
			c.Check(used, "R5", "transport-error/"+core.FName(fn)+"/"+core.CallCommon(in).Method.Name(), p.InstrPos(in), "error result is returned, tested or passed to a guard", "the error result of a transport write/flush is dropped")
		})
	}
}

type gRoot struct {
	fn   *ssa.Function
	kind string
	site ssa.Instruction
}

// goroutineRoots: functions started by `go`, Executor.Exec(arg) or time.AfterFunc(d, arg) in the repo.
func (e *ev) goroutineRoots() []gRoot {
	var out []gRoot
	add := func(v ssa.Value, kind string, site ssa.Instruction) {
		f := core.FuncValue(v, nil)
		if f == nil {
			return
		}
		f = unbound(f)
		if f.Blocks == nil || !e.p.InRepo(f) {
			return
		}
		out = append(out, gRoot{f, kind, site})
	}
	for _, fn := range e.p.Funcs {
		core.AllInstrs(fn, func(in ssa.Instruction) {
			switch x := in.(type) {
			case *ssa.Go:
				if f := x.Call.StaticCallee(); f != nil && f.Blocks != nil {
					out = append(out, gRoot{unbound(f), "go", in})
				} else {
					add(x.Call.Value, "go", in)
				}
			default:
				cc := core.CallCommon(in)
				if cc == nil {
					return
				}
				if cc.IsInvoke() && ifaceInvoke(in, e.r.ExecutorIface, "Exec") && len(cc.Args) == 1 {
					add(cc.Args[0], "Exec", in)
				}
				if core.IsPkgFunc(in, "time", "AfterFunc") && len(cc.Args) == 2 {
					add(cc.Args[1], "AfterFunc", in)
				}
			}
		})
	}
	return out
}

func (e *ev) isGoroutineRootFunc(fn *ssa.Function) bool {
	for _, r := range e.goroutineRoots() {
		if r.fn == fn || core.Outermost(r.fn) == fn {
			return true
		}
		// root closure whose only job is to call fn
		single := false
		core.AllInstrs(r.fn, func(in ssa.Instruction) {
			if cc := core.CallCommon(in); cc != nil && cc.StaticCallee() == fn {
				single = true
			}
		})
		if single {
			return true
		}
	}
	return false
}

func (e *ev) isDeliveryOrTransport(in ssa.Instruction) bool {
	if ifaceInvoke(in, e.r.PipelineIface, "FireChannelActive", "FireChannelRead", "FireChannelWrite", "FireChannelEvent", "FireChannelInactive", "FireChannelException") {
		return true
	}
	if e.transportInvoke(in, "Write", "Writev", "Flush", "Read") {
		return true
	}
	if hc := lookupNamedT(e.r.Root, "HandlerContext"); hc != nil && ifaceInvoke(in, hc, "Trigger", "Write") {
		return true
	}
	return false
}

func (e *ev) reachesDeliveryOrTransport(fn *ssa.Function) bool {
	q := &core.Query{P: e.p, Pred: e.isDeliveryOrTransport, MaxDepth: 5}
	return q.May(fn, nil)
}

// guardedRoot: fn registers a recover frame in its entry block, or every instruction of fn that may
// reach a delivery / transport call is a call of a guarded function or sits inside a frame.
func (e *ev) guardedRoot(fn *ssa.Function, prot map[*ssa.Function]*recoverFrame, d int) (bool, string) {
	if d > 4 {
		return false, "call chain too deep"
	}
	for _, fr := range recoverFrames(fn) {
		if fr.Defer.Block() == fn.Blocks[0] {
			// nothing that can reach a delivery precedes the defer
			q := &core.Query{P: e.p, Pred: e.isDeliveryOrTransport, MaxDepth: 5}
			pre := false
			for _, in := range fn.Blocks[0].Instrs {
				if in == ssa.Instruction(fr.Defer) {
					break
				}
				if q.InstrMay(in, nil) {
					pre = true
				}
			}
			if !pre {
				return true, ""
			}
		}
	}
	q := &core.Query{P: e.p, Pred: e.isDeliveryOrTransport, MaxDepth: 5}
	why := ""
	good := true
	core.AllInstrs(fn, func(in ssa.Instruction) {
		if !good || !q.InstrMay(in, nil) {
			return
		}
		if _, isDefer := in.(*ssa.Defer); isDefer {
			return
		}
		if e.isDeliveryOrTransport(in) {
			if ok, w := e.protectedSite(in, prot, 0); !ok {
				good, why = false, "unprotected "+in.String()+" at "+e.p.InstrPos(in)+" ("+w+")"
			}
			return
		}
		for _, cal := range e.p.Callees(in, nil) {
			if cal.Blocks == nil {
				continue
			}
			if ok, w := e.guardedRoot(cal, prot, d+1); !ok {
				good, why = false, fmt.Sprintf("calls %s which is not recover-guarded (%s)", core.FName(cal), w)
			}
		}
	})
	return good, why
}

// checkFatalNetErrorClose: the recover closure of the delivery helper closes the channel for a
// non-timeout net.Error located with errors.As (so wrapped errors are seen).
func (e *ev) checkFatalNetErrorClose(c *core.Ctx, rule string) {
	p := c.P
	found := false
	for _, fn := range p.Funcs {
		if p.PkgRel(fn) != "." {
			continue
		}
		for _, fr := range recoverFrames(fn) {
			f := fr.Closure
			// does it call Close conditionally on a net.Error?
			var closeCall ssa.Instruction
			core.AllInstrs(f, func(in ssa.Instruction) {
				if e.closesWith(in, nil) {
					closeCall = in
				}
			})
			routes := false
			core.AllInstrs(f, func(in ssa.Instruction) {
				if e.routesException(in, fr.Rec) {
					routes = true
				}
			})
			if !routes {
				continue // goroutine-root closers are handled by R2
			}
			if closeCall == nil {
				continue
			}
			found = true
			c.Instance(rule)
			name := "fatal-net-error/" + core.FName(f)
			// errors.As(x, *net.Error) true edge and Timeout() false edge dominate the close
			var asCall, toCall ssa.Value
			core.AllInstrs(f, func(in ssa.Instruction) {
				if core.IsPkgFunc(in, "errors", "As") {
					cc := core.CallCommon(in)
					if len(cc.Args) == 2 {
						if pt, ok := core.Unwrap(cc.Args[1]).Type().(*types.Pointer); ok && core.NamedIs(pt.Elem(), "net", "Error") {
							asCall = in.(ssa.Value)
						}
					}
				}
				if cc := core.CallCommon(in); cc != nil && cc.IsInvoke() && cc.Method.Name() == "Timeout" {
					toCall = in.(ssa.Value)
				}
			})
			okAs, okTo := false, false
			if asCall != nil {
				for _, ts := range e.trueEdgesOf(asCall) {
					if ts.Dominates(closeCall.Block()) {
						okAs = true
					}
				}
			}
			if toCall != nil {
				for _, ifi := range core.Ifs(f) {
					cd := core.CondOf(ifi)
					if cd.X == toCall && cd.Op.String() == "ILLEGAL" && core.EdgeDominates(ifi.Block(), cd.False, closeCall.Block()) {
						okTo = true
					}
				}
			}
			c.Check(okAs, rule, name+"/errors.As", p.InstrPos(closeCall), "the close is guarded by errors.As(err, *net.Error) (wrapped transport errors are recognised)",
				"the channel is closed for transport failures only when the panic value is directly a net.Error: a transport error wrapped by a codec (utils.Assert(err, msg)) no longer closes the channel and the read loop spins on a dead transport")
			c.Check(okTo, rule, name+"/not-timeout", p.InstrPos(closeCall), "timeouts do not close", "the close on net.Error is not restricted to non-timeout errors")
		}
	}
	if !found {
		c.Instance(rule)
		c.Bad(rule, "fatal-net-error", "", "no delivery helper closes the channel on a non-timeout net.Error (a failing transport read would spin forever)")
	}
}

func (e *ev) checkAsException(c *core.Ctx) {
	p := c.P
	fn := p.PkgFunc("", "AsException")
	c.Instance("R4")
	if fn == nil {
		c.Unk("R4", "AsException", "", "function AsException not found in the root package")
	} else {
		c.FuncsSeen[core.FName(fn)] = true
		// every return is nil, the asserted error value itself, or a freshly built error on the not-ok side
		var ta *ssa.TypeAssert
		core.AllInstrs(fn, func(in ssa.Instruction) {
			if t, ok := in.(*ssa.TypeAssert); ok && t.CommaOk && core.ParamOf(fn, t.X) == 0 && isErrorT(t.AssertedType) {
				ta = t
			}
		})
		good := ta != nil
		why := "no comma-ok assertion of the argument to error"
		if ta != nil {
			var val, okv ssa.Value
			for _, ref := range *ta.Referrers() {
				if ex, ok := ref.(*ssa.Extract); ok {
					if ex.Index == 0 {
						val = ex
					} else {
						okv = ex
					}
				}
			}
			// on the ok-true edge every return returns val
			if okv == nil || val == nil {
				good, why = false, "assertion result unused"
			} else {
				for _, ts := range e.trueEdgesOf(okv) {
					tgt, _ := core.Search(nil, ts, func(x ssa.Instruction) core.Action {
						if ret, ok := x.(*ssa.Return); ok {
							if len(ret.Results) == 1 && core.Unwrap(ret.Results[0]) == val {
								return core.Barrier
							}
							return core.Target
						}
						return core.Continue
					}, nil)
					if tgt != nil {
						good, why = false, "when the panic value is an error, AsException does not return that very value (errors.As/Is on the exception, and the net.Error close, stop working)"
					}
				}
				if len(e.trueEdgesOf(okv)) == 0 {
					good, why = false, "ok result of the assertion does not feed a branch"
				}
			}
			// nil in -> nil out
			nilRet := false
			core.AllInstrs(fn, func(in ssa.Instruction) {
				if ret, ok := in.(*ssa.Return); ok && len(ret.Results) == 1 && core.IsNilConst(ret.Results[0]) {
					nilRet = true
				}
			})
			if !nilRet {
				good, why = false, "AsException(nil) does not return nil"
			}
		}
		c.Check(good, "R4", "AsException/identity", p.Pos(fn.Pos()), "error values keep their identity; nil stays nil", why)
	}
	// utils.Assert*: the no-message panic value is the error parameter itself
	up := p.Pkg("utils")
	if up == nil {
		return
	}
	for _, name := range []string{"Assert", "AssertLength", "AssertLong", "AssertBytes"} {
		fn := up.Func(name)
		if fn == nil {
			continue
		}
		c.Instance("R4")
		errIdx := -1
		for i, prm := range fn.Params {
			if isErrorT(prm.Type()) {
				errIdx = i
			}
		}
		good := false
		core.AllInstrs(fn, func(in ssa.Instruction) {
			if pn, ok := in.(*ssa.Panic); ok {
				if core.ParamOf(fn, pn.X) == errIdx {
					good = true
				}
			}
		})
		// and the panic is guarded by err != nil (no panic on nil)
		c.Check(good && errIdx >= 0, "R4", "utils."+name+"/panic-value", p.Pos(fn.Pos()), "panics with the error value itself", "utils."+name+" does not panic with the error value itself (transport errors lose their identity before reaching invokeMethod)")
		// and it raises for every non-nil error: a normal return is reachable only through the err == nil side
		if errIdx >= 0 {
			errPrm := ssa.Value(fn.Params[errIdx])
			nilSide := map[[2]*ssa.BasicBlock]bool{}
			for _, ifi := range core.Ifs(fn) {
				cd := core.CondOf(ifi)
				if cd.Op != token.EQL && cd.Op != token.NEQ {
					continue
				}
				x, y := cd.X, cd.Y
				if core.IsNilConst(x) {
					x, y = y, x
				}
				if x != errPrm || !core.IsNilConst(y) {
					continue
				}
				side := cd.True
				if cd.Op == token.NEQ {
					side = cd.False
				}
				nilSide[[2]*ssa.BasicBlock{ifi.Block(), side}] = true
			}
			c.Instance("R4")
			tgt, path := core.Search(nil, fn.Blocks[0], func(x ssa.Instruction) core.Action {
				if core.IsNormalReturn(x) {
					return core.Target
				}
				return core.Continue
			}, func(a, b *ssa.BasicBlock) bool { return !nilSide[[2]*ssa.BasicBlock{a, b}] })
			c.Check(tgt == nil, "R4", "utils."+name+"/raises-on-every-error", p.Pos(fn.Pos()), "returns normally only when the error is nil", "utils."+name+" can return normally with a non-nil error (a failed or partial transport read/write is treated as success: no exception is routed, the stream continues after a truncated message)", p.PathString(path, tgt)...)
		}
	}
}
