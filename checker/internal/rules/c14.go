package rules

import (
	"fmt"
	"go/ast"
	"go/token"
	"go/types"
	"sort"
	"strings"

	"golang.org/x/tools/go/ssa"
	"verif/checker/internal/core"
)

func init() {
	register(&Property{
		ID:    "C14",
		Title: "Accepted outbound types are sent byte-exact; conversions preserve content",
		Explanation: "Byte equality for every content is a value property and is NOT decided. DECIDES the routing and API-usage clauses whose violation loses or duplicates bytes for some reader behaviour: " +
			"R1 each head arm forwards the switched value itself (m, m.Bytes(), m.WriteTo(w), ReadFrom(m)) with exactly one write call whose error reaches a guard; the default arm raises and performs no write; the admitted set is the five types the property names; " +
			"R2 io.Reader.Read usage contract at every Read of a non-transport reader in the core and utils: the count is used, the bytes buf[:n] are consumed on a path that is not conditional on err == nil (data returned together with io.EOF), the slice written is buf[:n] of that n; ReadByte returns a byte only when n > 0; " +
			"R3 ReadFrom compares the written count with the read count and returns the write error before reading more; R4 ToReader's cases are a subset of ToBytes', both have an error-returning default, MustTo* panic on error, StealBytes compares the reported count with the stolen length, CountOf sums every element; " +
			"R5 io.Writer implementations in go-netty do not retain p (no store of p or a slice of it into a field / global / channel; copies only); R6 the wrappers keep one write sink (shared with C17). " +
			"ALSO: ReadFrom's failed-write exit returns the write's error; assert helpers raise for every non-nil error; pool buffers are requested by byte count. " +
			"DOES NOT DECIDE: content equality; arbitrary user WriterTo implementations beyond R5's contract.",
		Assumptions: []string{"io.Reader / io.Writer contracts as documented"},
		Run:         runC14,
	})
}

func runC14(c *core.Ctx) {
	e, ok := newEv(c)
	if !ok {
		return
	}
	p, r := c.P, e.r
	c.Rule("R1", "head arms forward the message itself, once, checked; default raises without writing", 6)
	c.Rule("R2", "Read usage contract (count used, data before error, buf[:n])", 2)
	c.Rule("R3", "short-write detection in ReadFrom", 1)
	c.Rule("R4", "conversion tables agree and fail closed", 4)
	c.Rule("R5", "io.Writer implementations do not retain p", 3)
	c.Rule("R6", "wrappers keep one write sink (shared with C17)", 4)
	c.Rule("R7", "a streamed chunk handed to the write queue is not recycled or reused by the producer, and the sender's scratch lists do not overlap (shared with C10-R1/R4/R6)", 1)
	importObligations(c, runC10, "R7", func(o *core.Obligation) bool {
		return o.Rule == "R6" || o.Rule == "R2" || o.Rule == "R3" || (o.Rule == "R1" || o.Rule == "R4") && (strings.Contains(o.Key, "no-use-after-transfer") || strings.Contains(o.Key, "not-after-handoff") || strings.Contains(o.Key, "transfers-fresh-buffer"))
	})

	// "checked" means checked by a helper that raises for every error
	c.Rule("R8", "the check helpers raise for every non-nil error (shared with C07-R4)", 2)
	importObligations(c, runC07, "R8", func(o *core.Obligation) bool { return strings.Contains(o.Key, "/raises-on-every-error") })

	hh, arms, deflt := headArms(p)
	if hh == nil {
		c.Unk("anchors", "ANCHOR-UNRESOLVED", "", "head handler's type switch not resolved")
	} else {
		c.FuncsSeen[p.QName(hh)] = true
		want := []string{"*bytes.Buffer", "[][]byte", "[]byte", "io.Reader", "io.WriterTo"}
		var got []string
		for i, arm := range arms {
			tname := types.TypeString(arm.typ, func(pk *types.Package) string { return pk.Name() })
			got = append(got, tname)
			c.Instance("R1")
			name := "head-arm/" + tname
			var writes []ssa.Instruction
			identity, checked := true, true
			core.Search(nil, arm.body, func(in ssa.Instruction) core.Action {
				cc := core.CallCommon(in)
				if cc == nil || !cc.IsInvoke() {
					return core.Continue
				}
				isChanWrite := ifaceInvoke(in, r.ChannelIface, "Write1", "Writev", "CtxWrite1", "CtxWritev", "ReadFrom")
				isWriteTo := cc.Method.Name() == "WriteTo" && core.Unwrap(cc.Value) == arm.value
				if !isChanWrite && !isWriteTo {
					return core.Continue
				}
				writes = append(writes, in)
				// identity of what is written
				if isChanWrite {
					a := core.Unwrap(cc.Args[len(cc.Args)-1])
					okId := a == arm.value
					if call, ok := a.(*ssa.Call); ok && !okId {
						// m.Bytes() and friends: a method call on m without further arguments
						if len(call.Call.Args) == 1 && core.Unwrap(call.Call.Args[0]) == arm.value {
							if o := core.CalleeObj(call); o != nil && (o.Name() == "Bytes" || o.Name() == "String") {
								okId = true
							}
						}
					}
					if !okId {
						identity = false
					}
				}
				if isWriteTo {
					// destination is the channel's writer
					dst, ok := core.Unwrap(cc.Args[0]).(*ssa.Call)
					if !ok || !ifaceInvoke(dst, r.ChannelIface, "Writer") {
						identity = false
					}
				}
				// error reaches a guard
				errv := errOfCall(in)
				used := false
				if errv != nil {
					for _, ref := range *errv.Referrers() {
						if rc := core.CallCommon(ref); rc != nil {
							used = true
						}
						if _, ok := ref.(*ssa.BinOp); ok {
							used = true
						}
					}
				}
				if !used {
					checked = false
				}
				return core.Continue
			}, func(a, b *ssa.BasicBlock) bool {
				for j, o := range arms {
					if j != i && (b == o.body || b == o.ta.Block()) {
						return false
					}
				}
				return deflt == nil || b != deflt
			})
			c.Check(len(writes) == 1, "R1", name+"/one-write", p.InstrPos(arm.ta), "exactly one write call", fmt.Sprintf("the arm performs %d write calls (want exactly one): bytes lost or duplicated", len(writes)))
			c.Check(identity, "R1", name+"/identity", p.InstrPos(arm.ta), "writes the switched value itself", "the arm does not write the switched message value itself (re-sliced, truncated or a different value)")
			c.Check(checked, "R1", name+"/checked", p.InstrPos(arm.ta), "the write error reaches a guard", "the arm drops the error of its write call")
		}
		sort.Strings(got)
		c.Instance("R1")
		c.Check(strings.Join(got, ",") == strings.Join(want, ","), "R1", "head-arm/admitted-set", p.Pos(hh.Pos()), "admits exactly "+strings.Join(want, ", "), "head handler admits "+strings.Join(got, ", ")+" (property names "+strings.Join(want, ", ")+")")
		c.Instance("R1")
		if deflt == nil {
			c.Bad("R1", "head-arm/default", p.Pos(hh.Pos()), "no default arm")
		} else {
			panics, writes := false, false
			core.Search(nil, deflt, func(in ssa.Instruction) core.Action {
				if _, ok := in.(*ssa.Panic); ok {
					panics = true
					return core.Barrier
				}
				if cc := core.CallCommon(in); cc != nil && cc.IsInvoke() && ifaceInvoke(in, r.ChannelIface, "Write1", "Writev", "ReadFrom", "Writer") {
					writes = true
				}
				if core.IsNormalReturn(in) {
					panics = false
					return core.Target
				}
				return core.Continue
			}, nil)
			c.Check(panics && !writes, "R1", "head-arm/default", p.Pos(hh.Pos()), "unsupported types raise and write nothing", "the default arm does not raise on every path / performs a write (an unsupported type is silently dropped or partially written)")
		}
	}

	// ---- R2 Read usage
	for _, fn := range p.Funcs {
		rel := p.PkgRel(fn)
		if rel != "." && rel != "utils" {
			continue
		}
		core.AllInstrs(fn, func(in ssa.Instruction) {
			cc := core.CallCommon(in)
			if cc == nil || !cc.IsInvoke() || cc.Method.Name() != "Read" || len(cc.Args) != 1 {
				return
			}
			if e.isTransportType(cc.Value.Type()) {
				return
			}
			if fn.Name() == "Read" && len(fn.Params) == 2 {
				through := false
				for _, o := range sliceOrigins(cc.Args[0]) {
					if core.ParamOf(fn, o) == 1 {
						through = true
					}
				}
				if through {
					return // pass-through Read wrapper: fills the caller's buffer and returns (n, err) to the caller
				}
			}
			c.Instance("R2")
			c.FuncsSeen[p.QName(fn)] = true
			name := "read-usage/" + p.QName(fn)
			var nv, errv ssa.Value
			for _, ref := range *in.(ssa.Value).Referrers() {
				if ex, ok := ref.(*ssa.Extract); ok {
					if ex.Index == 0 {
						nv = ex
					} else {
						errv = ex
					}
				}
			}
			used := nv != nil && nv.Referrers() != nil && len(*nv.Referrers()) > 0
			c.Check(used, "R2", name+"/count-used", p.InstrPos(in), "the count returned by Read is used", "the count returned by Read is discarded: a (0, nil) read yields phantom bytes and a short read is taken for a full buffer")
			if !used {
				return
			}
			// data consumed not conditional on err == nil: some use of a slice bounded by n (or of buf after n>0 test)
			// is reachable from the read without passing an `err == nil` edge
			buf := cc.Args[0]
			consumes := func(x ssa.Instruction) bool {
				xc := core.CallCommon(x)
				if xc == nil || x == in {
					if ret, ok := x.(*ssa.Return); ok {
						// ReadByte style: returns buf[0]
						for _, rv := range ret.Results {
							for _, o := range sliceOrigins(rv) {
								if ia, ok := o.(*ssa.UnOp); ok {
									if idx, ok := ia.X.(*ssa.IndexAddr); ok && sameBuf(idx.X, buf) {
										return true
									}
								}
							}
						}
					}
					return false
				}
				for _, a := range xc.Args {
					if sl, ok := core.Unwrap(a).(*ssa.Slice); ok && sameBuf(sl.X, buf) {
						return true
					}
				}
				return false
			}
			t, _ := core.Search(in, nil, func(x ssa.Instruction) core.Action {
				if consumes(x) {
					return core.Target
				}
				return core.Continue
			}, func(a, b *ssa.BasicBlock) bool { return !isErrNilEdge(a, b, errv) })
			c.Check(t != nil, "R2", name+"/data-before-error", p.InstrPos(in), "the bytes read are consumed on a path that does not require err == nil", "the bytes returned by Read are only consumed when err == nil: data delivered together with io.EOF (or another error) is lost")
			// the slice written is buf[:n]
			okSlice := true
			core.AllInstrs(fn, func(x ssa.Instruction) {
				xc := core.CallCommon(x)
				if xc == nil || x == in {
					return
				}
				// handing the buffer to another read refills it, it does not forward its content
				if (xc.IsInvoke() && (xc.Method.Name() == "Read" || xc.Method.Name() == "ReadAt")) || core.IsPkgFunc(x, "io", "ReadFull") || core.IsPkgFunc(x, "io", "ReadAtLeast") {
					return
				}
				for _, a := range xc.Args {
					if sl, ok := core.Unwrap(a).(*ssa.Slice); ok && sameBuf(sl.X, buf) && core.Dominates(in, x) {
						if isPbytes(x, "Put") {
							continue
						}
						if sl.High == nil || !core.SameValue(sl.High, nv) {
							okSlice = false
						}
					}
				}
			})
			c.Check(okSlice, "R2", name+"/slice-is-buf-n", p.InstrPos(in), "what is forwarded is buf[:n] of this read", "a slice of the read buffer other than buf[:n] is forwarded (stale bytes of an earlier read are sent / data truncated)")
		})
	}
	// ReadByte: returns a byte only when n > 0
	for _, fn := range p.Funcs {
		if p.PkgRel(fn) != "utils" || fn.Name() != "ReadByte" {
			continue
		}
		c.Instance("R2")
		okrb := true
		core.AllInstrs(fn, func(in ssa.Instruction) {
			ret, ok := in.(*ssa.Return)
			if !ok || len(ret.Results) != 2 {
				return
			}
			if k, isC := core.ConstInt(ret.Results[0]); isC && k == 0 {
				return
			}
			// returns a buffer byte: must be on the n > 0 side, with a nil error
			guarded := false
			for _, ifi := range core.Ifs(fn) {
				cd := core.CondOf(ifi)
				if cd.Op == token.GTR {
					if k, isC := core.ConstInt(cd.Y); isC && k == 0 && core.EdgeDominates(ifi.Block(), cd.True, ret.Block()) {
						guarded = true
					}
				}
			}
			if !guarded || !core.IsNilConst(ret.Results[1]) {
				okrb = false
			}
		})
		c.Check(okrb, "R2", "ReadByte/byte-only-when-read", p.Pos(fn.Pos()), "a byte is returned only when Read delivered one, with a nil error", "ReadByte can return a byte that was not read (n == 0) or return a valid byte together with an error (binary.ReadUvarint drops it)")
	}

	// ---- R3 ReadFrom
	if rf := p.DeclMethod(r.Chan, "ReadFrom"); rf != nil {
		c.Instance("R3")
		c.FuncsSeen[p.QName(rf)] = true
		short := lookupGlobal2(p, "io", "ErrShortWrite")
		cmpOK, retShort := false, false
		var wcall ssa.Instruction
		core.AllInstrs(rf, func(in ssa.Instruction) {
			if cc := core.CallCommon(in); cc != nil && !cc.IsInvoke() && cc.StaticCallee() != nil && e.isChanMethod(cc.StaticCallee()) && strings.HasPrefix(strings.ToLower(cc.StaticCallee().Name()), "write") {
				wcall = in
			}
			if ret, ok := in.(*ssa.Return); ok && len(ret.Results) == 2 {
				// directly, or merged with other outcomes of a step helper (φ)
				seen := map[ssa.Value]bool{}
				var walk func(v ssa.Value, d int)
				walk = func(v ssa.Value, d int) {
					v = core.Unwrap(v)
					if seen[v] || d > 6 {
						return
					}
					seen[v] = true
					switch x := v.(type) {
					case *ssa.UnOp:
						if g, ok := x.X.(*ssa.Global); ok && g.Name() == "ErrShortWrite" {
							retShort = true
						}
					case *ssa.Phi:
						for _, ed := range x.Edges {
							walk(ed, d+1)
						}
					}
				}
				walk(ret.Results[1], 0)
			}
		})
		_ = short
		if wcall != nil {
			var wn ssa.Value
			for _, ref := range *wcall.(ssa.Value).Referrers() {
				if ex, ok := ref.(*ssa.Extract); ok && ex.Index == 0 {
					wn = ex
				}
			}
			if wn != nil {
				for _, ref := range *wn.Referrers() {
					if b, ok := ref.(*ssa.BinOp); ok && (b.Op == token.NEQ || b.Op == token.EQL || b.Op == token.LSS) {
						cmpOK = true
					}
				}
			}
			// write error returned before the next read
			errv := errOfCall(wcall)
			t, _ := core.Search(wcall, nil, func(x ssa.Instruction) core.Action {
				if cc := core.CallCommon(x); cc != nil && cc.IsInvoke() && cc.Method.Name() == "Read" {
					return core.Target
				}
				return core.Continue
			}, func(a, b *ssa.BasicBlock) bool { return !isErrNonNilEdge(a, b, errv) })
			_ = t
			t2, _ := core.Search(wcall, nil, func(x ssa.Instruction) core.Action {
				if cc := core.CallCommon(x); cc != nil && cc.IsInvoke() && cc.Method.Name() == "Read" {
					return core.Target
				}
				return core.Continue
			}, func(a, b *ssa.BasicBlock) bool { return !isErrNilEdge(a, b, errv) })
			c.Check(t2 == nil, "R3", "ReadFrom/write-error-stops", p.InstrPos(wcall), "a write error ends the copy loop", "ReadFrom keeps reading after a write error")
			// and it is that error the caller gets: a return taken because the write failed yields the write's error
			// (not the read's, which is nil at that point: the call would report success for a chunk that was dropped)
			c.Instance("R3")
			wrong := ""
			if errv != nil {
				for _, b := range rf.Blocks {
					if len(b.Instrs) == 0 {
						continue
					}
					for _, s := range b.Succs {
						if !isErrNonNilEdge(b, s, errv) {
							continue
						}
						core.AllInstrs(rf, func(x ssa.Instruction) {
							ret, ok := x.(*ssa.Return)
							if !ok || len(ret.Results) != 2 || !core.EdgeDominates(b, s, ret.Block()) {
								return
							}
							r := core.Unwrap(ret.Results[1])
							if !sameErr(r, errv) && r != errv {
								wrong = p.InstrPos(ret)
							}
						})
					}
				}
			}
			c.Check(errv != nil && wrong == "", "R3", "ReadFrom/write-error-returned", p.InstrPos(wcall), "the failed-write exit returns the write error", "ReadFrom's exit for a failed write ("+wrong+") returns something other than the write's error: the caller is told the data was written although the chunk was refused")
		}
		c.Check(wcall != nil && cmpOK && retShort, "R3", "ReadFrom/short-write", p.Pos(rf.Pos()), "written count compared with the read count; io.ErrShortWrite on mismatch", "ReadFrom does not detect a short write (written count not compared / io.ErrShortWrite never returned)")
	}

	// ---- R4 conversion tables (AST)
	runC14R4(c)

	// ---- R5 io.Writer implementations do not retain p
	for _, fn := range p.Funcs {
		if fn.Parent() != nil || fn.Name() != "Write" || fn.Signature.Recv() == nil || len(fn.Params) != 2 || !isByteSliceish(fn.Params[1].Type()) {
			continue
		}
		if fn.Signature.Results().Len() != 2 {
			continue
		}
		c.Instance("R5")
		c.FuncsSeen[p.QName(fn)] = true
		retained := ""
		prm := fn.Params[1]
		// aliases of p: p itself and slices of it (NOT the result of append(x, p...), which copies)
		alias := map[ssa.Value]bool{prm: true}
		changed := true
		for changed {
			changed = false
			core.AllInstrs(fn, func(in ssa.Instruction) {
				if sl, ok := in.(*ssa.Slice); ok && alias[sl.X] && !alias[sl] {
					alias[sl] = true
					changed = true
				}
				if ph, ok := in.(*ssa.Phi); ok && !alias[ph] {
					for _, ed := range ph.Edges {
						if alias[ed] {
							alias[ph] = true
							changed = true
						}
					}
				}
			})
		}
		core.AllInstrs(fn, func(in ssa.Instruction) {
			switch x := in.(type) {
			case *ssa.Store:
				if alias[x.Val] {
					if f, _ := core.FieldOf(x.Addr); f != nil {
						if _, isAl := x.Addr.(*ssa.FieldAddr).X.(*ssa.Alloc); !isAl {
							retained = "stored into field " + f.Name() + " at " + p.InstrPos(in)
						}
					}
					if _, isG := x.Addr.(*ssa.Global); isG {
						retained = "stored into a global at " + p.InstrPos(in)
					}
				}
			case *ssa.Send:
				if alias[x.X] {
					retained = "sent on a channel at " + p.InstrPos(in)
				}
			case *ssa.Call:
				if args, ok := core.IsBuiltinCall(x, "append"); ok && alias[args[0]] {
					retained = "used as the base of an append (result aliases p) at " + p.InstrPos(in)
				}
			}
		})
		c.Check(retained == "", "R5", "writer-retains/"+p.QName(fn), p.Pos(fn.Pos()), "p is only copied or handed to a synchronous callee", "an io.Writer implementation retains p ("+retained+"): a WriterTo that reuses its buffer between Write calls corrupts the retained data")
	}

	// ---- R6
	importObligations(c, runC17, "R6", func(o *core.Obligation) bool { return o.Rule == "R1" })
}

func sameBuf(a, b ssa.Value) bool {
	a, b = core.Unwrap(a), core.Unwrap(b)
	if a == b || core.SameValue(a, b) {
		return true
	}
	// both slices/loads of the same underlying local
	oa, ob := sliceOrigins(a), sliceOrigins(b)
	for _, x := range oa {
		for _, y := range ob {
			if x == y || sameCell(x, y) {
				return true
			}
		}
	}
	return false
}

func lookupGlobal2(p *core.Prog, pkgPath, name string) *ssa.Global {
	for _, sp := range p.SSA.AllPackages() {
		if sp.Pkg.Path() == pkgPath {
			g, _ := sp.Members[name].(*ssa.Global)
			return g
		}
	}
	return nil
}

func runC14R4(c *core.Ctx) {
	p := c.P
	pk := p.ByPath[p.Module+"/utils"]
	up := p.Pkg("utils")
	if pk == nil || up == nil {
		return
	}
	caseSet := func(name string) (map[string]bool, bool, *ssa.Function) {
		fn := up.Func(name)
		if fn == nil {
			return nil, false, nil
		}
		decl := p.FuncDecl[fn.Object().(*types.Func)]
		set := map[string]bool{}
		hasDefault := false
		ast.Inspect(decl, func(n ast.Node) bool {
			ts, ok := n.(*ast.TypeSwitchStmt)
			if !ok {
				return true
			}
			for _, cl := range ts.Body.List {
				cc := cl.(*ast.CaseClause)
				if cc.List == nil {
					// default returns an error
					for _, st := range cc.Body {
						if rs, ok := st.(*ast.ReturnStmt); ok && len(rs.Results) == 2 {
							if id, ok := rs.Results[1].(*ast.Ident); !ok || id.Name != "nil" {
								hasDefault = true
							}
						}
					}
					continue
				}
				for _, ex := range cc.List {
					if tv, ok := pk.TypesInfo.Types[ex]; ok {
						set[tv.Type.String()] = true
					}
				}
			}
			return false
		})
		return set, hasDefault, fn
	}
	tb, dB, fB := caseSet("ToBytes")
	tr, dR, fR := caseSet("ToReader")
	c.Instance("R4")
	if fB == nil || fR == nil {
		c.Unk("R4", "conversion/functions", "", "utils.ToBytes / utils.ToReader not found")
		return
	}
	c.FuncsSeen[p.QName(fB)] = true
	c.FuncsSeen[p.QName(fR)] = true
	subset := true
	var missing []string
	for k := range tr {
		if !tb[k] {
			subset = false
			missing = append(missing, k)
		}
	}
	c.Check(subset, "R4", "conversion/ToReader-subset-of-ToBytes", p.Pos(fR.Pos()), "every carrier ToReader accepts is accepted by ToBytes", fmt.Sprintf("ToReader accepts %v which ToBytes does not", missing))
	c.Instance("R4")
	c.Check(dB && dR, "R4", "conversion/default-returns-error", p.Pos(fB.Pos()), "unsupported carriers yield an error", "a conversion helper's default arm does not return an error (unsupported type converted to nothing silently)")
	for _, nm := range []string{"MustToBytes", "MustToReader"} {
		fn := up.Func(nm)
		if fn == nil {
			continue
		}
		c.Instance("R4")
		// panics (via Assert) on the err != nil side
		q := &core.Query{P: p, MaxDepth: 3, Pred: func(x ssa.Instruction) bool { _, ok := x.(*ssa.Panic); return ok }}
		c.Check(q.May(fn, nil), "R4", "conversion/"+nm+"-panics", p.Pos(fn.Pos()), "raises on conversion error", nm+" does not raise on a conversion error")
	}
	if sb := up.Func("StealBytes"); sb != nil {
		c.Instance("R4")
		cmpd := false
		core.AllInstrs(sb, func(in ssa.Instruction) {
			if b, ok := in.(*ssa.BinOp); ok && b.Op == token.NEQ {
				if _, isLen := lenArg(stripConv(b.Y)); isLen {
					cmpd = true
				}
				if _, isLen := lenArg(stripConv(b.X)); isLen {
					cmpd = true
				}
			}
		})
		c.Check(cmpd, "R4", "conversion/StealBytes-count", p.Pos(sb.Pos()), "the count reported by WriteTo is compared with the stolen length", "StealBytes does not compare the reported count with the stolen length")
	}
	if co := up.Func("CountOf"); co != nil {
		c.Instance("R4")
		// single loop, no early exit: every return is reached from the loop exit
		early := false
		nret := 0
		core.AllInstrs(co, func(in ssa.Instruction) {
			if _, ok := in.(*ssa.Return); ok {
				nret++
			}
		})
		if nret != 1 {
			early = true
		}
		adds := false
		core.AllInstrs(co, func(in ssa.Instruction) {
			if b, ok := in.(*ssa.BinOp); ok && b.Op == token.ADD {
				if _, isLen := lenArg(stripConv(b.Y)); isLen {
					adds = true
				}
			}
		})
		c.Check(!early && adds, "R4", "conversion/CountOf-sums-all", p.Pos(co.Pos()), "sums len of every element, no early exit", "CountOf does not sum the length of every element")
	}
}
