package rules

import (
	"fmt"
	"go/token"
	"go/types"
	"strings"

	"golang.org/x/tools/go/ssa"
	"verif/checker/internal/core"
)

func init() {
	register(&Property{
		ID:    "C02",
		Title: "No stranded writes: accepted payloads are sent and flushed unprompted",
		Explanation: "DECIDES the lost-wake-up freedom of the release-then-recheck hand-off as path rules over the two functions that implement it: " +
			"R1 every successful enqueue is followed on every path by CAS(running, idle->running), and every successful CAS anywhere is followed on every path by starting the sender (or, inside the sender, by draining the queue); " +
			"R2 the sender never returns with the flag set, observes the queue after its last release on every path, and after observing it non-empty always attempts the CAS before returning; " +
			"R3 the sender's deferred recover releases the flag before closing; R4 transport.Flush lies between every Writev and the release, and every synchronous write is followed by Flush on its success branch; " +
			"R5 every access to the flag is atomic and fits one of the protocol roles. " +
			"ALSO: the Executors the library ships start their action with a go statement on every path (R9, shared with C18). DOES NOT DECIDE: that a user-supplied Executor or the Go scheduler eventually runs the action, that transport.Writev terminates, fairness; the argument 'R1 and R2 imply no stranded packet' is the standard hand-written one (DESIGN.md C02), not model-checked.",
		Assumptions: []string{"Executor.Exec eventually runs the action it is given", "transport.Writev/Flush return"},
		Run:         runC02,
	})
}

func runC02(c *core.Ctx) {
	e, ok := newEv(c)
	if !ok {
		return
	}
	p, r := c.P, e.r
	S := r.Sender
	c.Rule("R1", "enqueue => CAS(running, idle->running) on every path; successful CAS => sender started (or queue drained, in the sender) on every path", 2)
	c.Rule("R2", "sender: release before every return; queue observed after the last release; non-empty => CAS attempted before returning", 1)
	c.Rule("R3", "sender's deferred recover stores idle before closing", 1)
	c.Rule("R4", "Flush between Writev and release; sync writes flush on success", 1)
	c.Rule("R5", "every access to the sender flag is atomic and fits a protocol role", 3)
	c.FuncsSeen[p.QName(S)] = true

	acq := &core.Query{P: p, Pred: e.runningAcquire}

	ruleEnqueueRingsBell(c, e, "R1")
	// ---- R1b: every successful CAS leads to the sender running
	start := &core.Query{P: p, Pred: e.startsSender}
	for _, fn := range p.Funcs {
		core.AllInstrs(fn, func(in ssa.Instruction) {
			if !e.runningAcquire(in) {
				return
			}
			c.Instance("R1")
			name := "acquire/" + core.FName(fn)
			call := in.(ssa.Value)
			trueSuccs := e.trueEdgesOf(call)
			if len(trueSuccs) == 0 {
				c.Unk("R1", name, p.InstrPos(in), "result of CAS(running, idle->running) does not feed a branch (idiom not recognised)")
				return
			}
			for _, ts := range trueSuccs {
				if core.Outermost(ts.Parent()) == S {
					// in the sender: the drain (dequeue) must be reachable again before any release/return;
					// that every return is preceded by a release is R2.
					tgt, _ := core.Search(nil, ts, func(x ssa.Instruction) core.Action {
						if e.queueRecv(x) {
							return core.Target
						}
						if core.IsNormalReturn(x) || e.runningRelease(x) {
							return core.Barrier
						}
						return core.Continue
					}, nil)
					c.Check(tgt != nil, "R1", name+"/reacquire-drains", p.InstrPos(in),
						"after re-acquiring, the sender goes back to draining the queue",
						"after winning the CAS the sender does not go back to the dequeue (packets stranded)")
					continue
				}
				bad, path := start.MustPassBetween(nil, ts, nil, core.IsNormalReturn, nil)
				c.Check(bad == nil, "R1", name+"/starts-sender", p.InstrPos(in),
					"winning the CAS starts the sender on every path",
					"a path wins CAS(running, idle->running) but does not start the sender (flag stuck at running, writes stranded)", p.PathString(path, bad)...)
			}
		})
	}

	// ---- R2
	rel := &core.Query{P: p, Pred: e.runningRelease}
	// (a) release before every normal return: from entry and from each re-acquire true edge
	{
		c.Instance("R2")
		bad, path := rel.MustPassBetween(nil, S.Blocks[0], nil, core.IsNormalReturn, nil)
		c.Check(bad == nil, "R2", core.FName(S)+"/release-before-return", p.Pos(S.Pos()),
			"every normal return of the sender is preceded by Store(running, idle)",
			"the sender can return normally without releasing the flag", p.PathString(path, bad)...)
		core.AllInstrs(S, func(in ssa.Instruction) {
			if !e.runningAcquire(in) {
				return
			}
			for _, ts := range e.trueEdgesOf(in.(ssa.Value)) {
				bad, path := rel.MustPassBetween(nil, ts, nil, core.IsNormalReturn, nil)
				c.Check(bad == nil, "R2", core.FName(S)+"/release-after-reacquire", p.InstrPos(in),
					"after re-acquiring, every normal return is preceded by another release",
					"after re-acquiring the flag the sender can return without releasing it", p.PathString(path, bad)...)
			}
		})
	}
	// (b),(c) for each release in S proper
	obs := &core.Query{P: p, Pred: func(in ssa.Instruction) bool { return e.queueLen(in) || e.nonBlockingQueueRecv(in) }}
	core.AllInstrs(S, func(in ssa.Instruction) {
		if !e.runningRelease(in) {
			return
		}
		c.Instance("R2")
		name := core.FName(S) + "/release"
		bad, path := obs.MustPassBetween(in, nil, nil, core.IsNormalReturn, nil)
		c.Check(bad == nil, "R2", name+"/recheck-after-release", p.InstrPos(in),
			"the queue is observed after the release on every path to return",
			"the sender can return after releasing the flag without re-checking the queue (lost wake-up)", p.PathString(path, bad)...)
		// every queue-length observation reachable after the release (before a re-acquire) must route non-empty to a CAS
		seen := map[ssa.Instruction]bool{}
		n := 0
		core.Search(in, nil, func(x ssa.Instruction) core.Action {
			if e.runningAcquire(x) {
				return core.Barrier
			}
			if e.queueLen(x) && !seen[x] {
				seen[x] = true
				n++
				e.checkNonEmptyLeadsToCAS(c, x, fmt.Sprintf("%s/recheck#%d", name, n), acq)
			}
			return core.Continue
		}, nil)
		if n == 0 {
			c.Unk("R2", name+"/recheck-form", p.InstrPos(in), "no len(writeQueue) observation after the release; re-check idiom not recognised")
		}
	})

	// ---- R3
	runSenderRecover(c, e, "R3")

	// ---- R4
	core.AllInstrs(S, func(in ssa.Instruction) {
		if !e.transportInvoke(in, "Writev", "Write") {
			return
		}
		c.Instance("R4")
		tgt, path := core.Search(in, nil, func(x ssa.Instruction) core.Action {
			if e.transportInvoke(x, "Flush") {
				return core.Barrier
			}
			if e.runningRelease(x) {
				return core.Target
			}
			return core.Continue
		}, nil)
		c.Check(tgt == nil, "R4", core.FName(S)+"/flush-before-release", p.InstrPos(in),
			"transport.Flush lies on every path from the batch write to the release of the flag",
			"the sender can release the flag after a Writev without flushing the transport (bytes parked in a buffer)", p.PathString(path, tgt)...)
	})
	for _, fn := range p.Funcs {
		if !e.isChanMethod(fn) || core.Outermost(fn) == S {
			continue
		}
		core.AllInstrs(fn, func(in ssa.Instruction) {
			if !e.transportInvoke(in, "Write", "Writev") {
				return
			}
			c.Instance("R4")
			errv := errOfCall(in)
			tgt, path := core.Search(in, nil, func(x ssa.Instruction) core.Action {
				if e.transportInvoke(x, "Flush") {
					return core.Barrier
				}
				if core.IsNormalReturn(x) {
					return core.Target
				}
				return core.Continue
			}, func(a, b *ssa.BasicBlock) bool { return !isErrNonNilEdge(a, b, errv) })
			c.Check(tgt == nil, "R4", "sync-write/"+core.FName(fn)+"/flush-on-success", p.InstrPos(in),
				"the success branch of the synchronous write flushes before returning",
				"a synchronous write can return success without flushing the transport", p.PathString(path, tgt)...)
		})
	}

	// ---- R6 (shared with C17-R1): Transport.Flush of every shipped wrapper really drains its buffered writer
	c.Rule("R6", "every wrapper variant that owns a bufio.Writer flushes that writer in Flush and returns its error (nothing stays parked in a transport buffer)", 2)
	importObligations(c, runC17, "R6", func(o *core.Obligation) bool { return strings.Contains(o.Key, "/Flush/") || o.Rule == "R5" })

	// ---- R7 the sender can always make progress: its batch holds at least one packet
	c.Rule("R7", "the sender's batch capacity is at least 1 whenever the queue exists (otherwise the drain loop never dequeues and spins)", 1)
	runBatchCapacity(c, e, "R7")

	// ---- R11 what the sender dequeues it writes
	c.Rule("R11", "a packet taken off the queue is recycled only after the batch's transport.Writev (shared with C10-R3)", 1)
	importObligations(c, runC10, "R11", func(o *core.Obligation) bool { return o.Rule == "R3" })

	// ---- R10 a refused chunk is reported
	c.Rule("R10", "ReadFrom reports a refused chunk with the write's error (shared with C14-R3)", 1)
	importObligations(c, runC14, "R10", func(o *core.Obligation) bool { return strings.Contains(o.Key, "ReadFrom/write-error") })

	// ---- R9 the started sender really runs
	c.Rule("R9", "every Executor of the library starts its action on another goroutine on every path (shared with C18-R10)", 1)
	ruleExecutorsAreAsync(c, e, "R9")

	// ---- R8 one release per ownership
	c.Rule("R8", "the sender releases the flag once per ownership and never after handing the flag to a newly started sender", 1)
	runReleaseOnce(c, e, "R8")

	// ---- R5 census
	for _, fn := range p.Funcs {
		core.AllInstrs(fn, func(in ssa.Instruction) {
			fa, ok := in.(*ssa.FieldAddr)
			if !ok {
				return
			}
			if f, _ := core.FieldOf(fa); f != r.Running {
				return
			}
			for _, ref := range core.AddrUses(fa) {
				c.Instance("R5")
				name := "flag-access/" + core.FName(fn)
				a := core.AsAtomic(ref)
				switch {
				case a == nil:
					c.Bad("R5", name, p.InstrPos(ref), "non-atomic access to the sender flag: "+ref.String())
				case e.runningAcquire(ref):
					c.OK("R5", name+"/cas-acquire", p.InstrPos(ref), "CAS idle->running")
				case e.runningRelease(ref):
					if core.Outermost(fn) == S {
						c.OK("R5", name+"/store-idle", p.InstrPos(ref), "release by the sender")
					} else {
						c.Bad("R5", name+"/store-idle", p.InstrPos(ref), "the flag is released outside the sender (ownership protocol void)")
					}
				case a.Kind == "load":
					c.OK("R5", name+"/load", p.InstrPos(ref), "atomic load")
				default:
					c.Bad("R5", name, p.InstrPos(ref), "unclassified access to the sender flag ("+a.Kind+"): fits no protocol role")
				}
			}
		})
	}
}

// trueEdgesOf: successor blocks taken when boolean value v is true (If on v or on !v),
// following a one-level wrapper return (the caller branches on the call result).
func (e *ev) trueEdgesOf(v ssa.Value) []*ssa.BasicBlock {
	var out []*ssa.BasicBlock
	refs := v.Referrers()
	if refs == nil {
		return nil
	}
	for _, ref := range *refs {
		switch x := ref.(type) {
		case *ssa.If:
			out = append(out, x.Block().Succs[0])
		case *ssa.UnOp:
			if x.Op.String() == "!" {
				for _, r2 := range *x.Referrers() {
					if ifi, ok := r2.(*ssa.If); ok {
						out = append(out, ifi.Block().Succs[1])
					}
				}
			}
		case *ssa.Return:
			// wrapper: branch at callers
			fn := x.Parent()
			if len(x.Results) != 1 {
				continue
			}
			for _, caller := range e.p.Funcs {
				core.AllInstrs(caller, func(in ssa.Instruction) {
					if call, ok := in.(*ssa.Call); ok && call.Call.StaticCallee() == fn {
						out = append(out, e.trueEdgesOf(call)...)
					}
				})
			}
		}
	}
	return out
}

func (e *ev) nonBlockingQueueRecv(in ssa.Instruction) bool {
	s, ok := in.(*ssa.Select)
	return ok && !s.Blocking && e.queueRecv(s)
}

// checkNonEmptyLeadsToCAS: lenInstr = len(writeQueue); its non-empty outcome must attempt the CAS
// before the sender returns.
func (e *ev) checkNonEmptyLeadsToCAS(c *core.Ctx, lenInstr ssa.Instruction, name string, acq *core.Query) {
	p := c.P
	lv := lenInstr.(ssa.Value)
	isLen := func(v ssa.Value) bool { return v == lv }
	found := false
	for _, ifi := range core.Ifs(lenInstr.Parent()) {
		_, nonEmpty, ok := emptinessEdges(ifi, isLen)
		if !ok {
			continue
		}
		found = true
		bad, path := acq.MustPassBetween(nil, nonEmpty, nil, func(x ssa.Instruction) bool {
			return core.IsNormalReturn(x)
		}, nil)
		c.Check(bad == nil, "R2", name+"/nonempty-attempts-cas", p.InstrPos(lenInstr),
			"when the queue is observed non-empty after the release the sender attempts CAS(running, idle->running) before returning",
			"the sender can return after observing a non-empty queue without attempting to re-acquire (stranded write)", p.PathString(path, bad)...)
	}
	if !found {
		c.Unk("R2", name+"/nonempty-attempts-cas", p.InstrPos(lenInstr), "len(writeQueue) after the release is not compared with 0 in a branch (idiom not recognised)")
	}
}

// errOfCall returns the error result value of a call (single error result or last tuple element).
func errOfCall(in ssa.Instruction) ssa.Value {
	v, ok := in.(ssa.Value)
	if !ok {
		return nil
	}
	if isErrorT(v.Type()) {
		return v
	}
	refs := v.Referrers()
	if refs == nil {
		return nil
	}
	for _, ref := range *refs {
		if ex, ok := ref.(*ssa.Extract); ok && isErrorT(ex.Type()) {
			return ex
		}
	}
	return nil
}

// isErrNonNilEdge: edge a->b is taken only when errv != nil (directly, or through a phi/named result store).
func isErrNonNilEdge(a, b *ssa.BasicBlock, errv ssa.Value) bool {
	if errv == nil || len(a.Instrs) == 0 {
		return false
	}
	ifi, ok := a.Instrs[len(a.Instrs)-1].(*ssa.If)
	if !ok {
		return false
	}
	c := core.CondOf(ifi)
	var other ssa.Value
	if sameErr(c.X, errv) {
		other = c.Y
	} else if sameErr(c.Y, errv) {
		other = c.X
	} else {
		return false
	}
	if !core.IsNilConst(other) {
		return false
	}
	switch c.Op.String() {
	case "==":
		return b == c.False
	case "!=":
		return b == c.True
	}
	return false
}

// sameErr: v is errv or a load of a cell into which errv was the last store in the block (named results).
func sameErr(v, errv ssa.Value) bool {
	return sameErrD(v, errv, 0)
}

func sameErrD(v, errv ssa.Value, d int) bool {
	if v == errv {
		return true
	}
	// `err = a(); ... else err = b(); if err != nil`: the test covers whichever call produced the value
	if phi, ok := v.(*ssa.Phi); ok && d < 4 {
		for _, e := range phi.Edges {
			if sameErrD(e, errv, d+1) {
				return true
			}
		}
		return false
	}
	if ld, ok := v.(*ssa.UnOp); ok && ld.Op.String() == "*" {
		// find the latest store to the same address before the load in the same block
		b := ld.Block()
		var last ssa.Value
		for _, in := range b.Instrs {
			if in == ld {
				break
			}
			if st, ok := in.(*ssa.Store); ok && st.Addr == ld.X {
				last = st.Val
			}
		}
		return last == errv
	}
	return false
}

func runSenderRecover(c *core.Ctx, e *ev, R string) {
	p, S := c.P, e.r.Sender
	// deferred closures in S's entry region that call recover()
	var found bool
	core.AllInstrs(S, func(in ssa.Instruction) {
		d, ok := in.(*ssa.Defer)
		if !ok {
			return
		}
		f := core.FuncValue(d.Call.Value, nil)
		if f == nil || f.Blocks == nil {
			return
		}
		var rec ssa.Value
		core.AllInstrs(f, func(x ssa.Instruction) {
			if _, ok := core.IsBuiltinCall(x, "recover"); ok {
				rec = x.(ssa.Value)
			}
		})
		if rec == nil {
			return
		}
		found = true
		c.Instance(R)
		name := core.FName(S) + "/recover"
		// the defer must be registered before anything can panic: in the entry block, before any call
		if d.Block() != S.Blocks[0] {
			c.Bad(R, name+"/registered-first", p.InstrPos(d), "the recovering defer is not registered in the entry block of the sender")
		}
		// non-nil edge(s) of recover
		var nonNil []*ssa.BasicBlock
		for _, ifi := range core.Ifs(f) {
			cd := core.CondOf(ifi)
			var other ssa.Value
			if cd.X == rec {
				other = cd.Y
			} else if cd.Y == rec {
				other = cd.X
			} else {
				continue
			}
			if !core.IsNilConst(other) {
				continue
			}
			if cd.Op.String() == "!=" {
				nonNil = append(nonNil, cd.True)
			} else if cd.Op.String() == "==" {
				nonNil = append(nonNil, cd.False)
			}
		}
		if len(nonNil) == 0 {
			c.Unk(R, name+"/release-on-panic", p.InstrPos(d), "recover() result is not nil-tested in a branch")
			return
		}
		rel := &core.Query{P: p, Pred: e.runningRelease}
		for _, nb := range nonNil {
			bad, path := rel.MustPassBetween(nil, nb, nil, core.IsNormalReturn, nil)
			c.Check(bad == nil, R, name+"/release-on-panic", p.InstrPos(d),
				"the panic exit of the sender stores idle on every path", "the sender's recover path can finish without releasing the flag (every later write is stranded)", p.PathString(path, bad)...)
			// release precedes Close
			tgt, path2 := core.Search(nil, nb, func(x ssa.Instruction) core.Action {
				if e.runningRelease(x) {
					return core.Barrier
				}
				if cc := core.CallCommon(x); cc != nil {
					if cal := cc.StaticCallee(); cal != nil && cal == e.r.Closer {
						return core.Target
					}
					if ifaceInvoke(x, e.r.ChannelIface, "Close") {
						return core.Target
					}
				}
				return core.Continue
			}, nil)
			c.Check(tgt == nil, R, name+"/release-before-close", p.InstrPos(d),
				"the flag is released before the channel is closed from the recover path",
				"the recover path closes the channel before releasing the flag (Close waits for the sender: self-deadlock / delayed close)", p.PathString(path2, tgt)...)
		}
	})
	if !found {
		c.Instance(R)
		c.Bad(R, core.FName(S)+"/recover", p.Pos(S.Pos()), "the sender has no deferred recover: a transport failure kills the goroutine with the flag set")
	}
}

func isErrorT(t types.Type) bool {
	return types.Identical(types.Unalias(t), types.Universe.Lookup("error").Type())
}

// ruleEnqueueRingsBell: from every accept point (successful enqueue) every path to a return attempts
// CAS(running, idle->running). Shared by C02 (R1) and C06 (R5).
func ruleEnqueueRingsBell(c *core.Ctx, e *ev, R string) {
	p := c.P
	acq := &core.Query{P: p, Pred: e.runningAcquire}
	pts := e.acceptPoints()
	if len(pts) == 0 {
		c.Instance(R)
		c.Unk(R, "accept-points", "", "no accept point found (enqueue idiom not recognised)")
	}
	for _, a := range pts {
		c.Instance(R)
		c.FuncsSeen[p.QName(a.fn)] = true
		bad, path := acq.MustPassBetween(a.from, a.body, nil, core.IsNormalReturn, a.edgeOK)
		pos := p.Pos(a.fn.Pos())
		if a.from != nil {
			pos = p.InstrPos(a.from)
		} else if a.body != nil && len(a.body.Instrs) > 0 {
			pos = p.InstrPos(a.body.Instrs[0])
		}
		c.Check(bad == nil, R, a.desc+"/rings-the-bell", pos,
			"every path from the enqueue to a return attempts CAS(running, idle->running)",
			"a path from a successful enqueue returns without attempting to start the sender (stranded write)", p.PathString(path, bad)...)
	}
}

// lowerBoundGE1: a conservative lower bound of integer expression v, given that parameter `pos` is >= 1.
// Returns (bound, known).
func lowerBound(v ssa.Value, fn *ssa.Function, pos int, d int) (int64, bool) {
	if d > 8 {
		return 0, false
	}
	v = stripConv(v)
	if k, ok := core.ConstInt(v); ok {
		return k, true
	}
	if core.ParamOf(fn, v) == pos {
		return 1, true
	}
	switch x := v.(type) {
	case *ssa.BinOp:
		a, oka := lowerBound(x.X, fn, pos, d+1)
		b, okb := lowerBound(x.Y, fn, pos, d+1)
		switch x.Op {
		case token.ADD:
			if oka && okb {
				return a + b, true
			}
		case token.QUO:
			if k, isC := core.ConstInt(x.Y); isC && k > 0 && oka && a >= 0 {
				return a / k, true
			}
		case token.MUL:
			if oka && okb && a >= 0 && b >= 0 {
				return a * b, true
			}
		case token.SHR:
			if oka && a >= 0 {
				return 0, true
			}
		}
	case *ssa.Phi:
		min, ok := int64(0), false
		for _, e := range x.Edges {
			b, okb := lowerBound(e, fn, pos, d+1)
			if !okb {
				return 0, false
			}
			if !ok || b < min {
				min, ok = b, true
			}
		}
		return min, ok
	case *ssa.Call:
		if args, ok := core.IsBuiltinCall(x, "min"); ok {
			m, okm := int64(0), false
			for _, a := range args {
				b, okb := lowerBound(a, fn, pos, d+1)
				if !okb {
					return 0, false
				}
				if !okm || b < m {
					m, okm = b, true
				}
			}
			return m, okm
		}
		if args, ok := core.IsBuiltinCall(x, "max"); ok {
			best, okb2 := int64(0), false
			for _, a := range args {
				if b, okb := lowerBound(a, fn, pos, d+1); okb && (!okb2 || b > best) {
					best, okb2 = b, true
				}
			}
			return best, okb2
		}
	}
	return 0, false
}

func runBatchCapacity(c *core.Ctx, e *ev, R string) {
	p, r := c.P, e.r
	// the batch: the slice field of the channel whose (re-sliced) load feeds the Writev argument in the sender
	S := r.Sender
	var batchF *types.Var
	core.AllInstrs(S, func(in ssa.Instruction) {
		if !e.transportInvoke(in, "Writev") {
			return
		}
		for v := range web(core.CallCommon(in).Args[0]) {
			if sl, ok := v.(*ssa.Slice); ok {
				if f, _ := core.FieldOf(sl.X); f != nil {
					batchF = f
				}
			}
		}
	})
	c.Instance(R)
	if batchF == nil {
		// batch allocated locally per run: capacity expression in the sender itself
		c.Note("sender batch is not a channel field; capacity rule looks at make() in the sender")
	}
	found := false
	for _, fn := range p.Funcs {
		if fn.Parent() != nil {
			continue
		}
		core.AllInstrs(fn, func(in ssa.Instruction) {
			mk, ok := in.(*ssa.MakeSlice)
			if !ok {
				return
			}
			// flows into the batch field?
			flows := false
			for v := range taint(mk) {
				if v.Referrers() == nil {
					continue
				}
				for _, ref := range *v.Referrers() {
					if st, ok := ref.(*ssa.Store); ok {
						if f, _ := core.FieldOf(st.Addr); f == batchF && batchF != nil {
							flows = true
						}
					}
				}
			}
			if !flows {
				return
			}
			found = true
			// which parameter is the queue size (the one used for make(chan))
			pos := -1
			core.AllInstrs(fn, func(x ssa.Instruction) {
				if mc, ok := x.(*ssa.MakeChan); ok && isChanOfBytesT(mc.Type()) {
					pos = core.ParamOf(fn, mc.Size)
				}
			})
			lb, known := lowerBound(mk.Cap, fn, pos, 0)
			switch {
			case !known:
				c.Unk(R, "batch-capacity/"+core.FName(fn), p.InstrPos(mk), "lower bound of the sender's batch capacity not derivable from the queue-size parameter (expression not recognised)")
			default:
				c.Check(lb >= 1, R, "batch-capacity/"+core.FName(fn), p.InstrPos(mk), "batch capacity >= 1 for every queue size >= 1", fmt.Sprintf("for the smallest queue size the sender's batch capacity is %d: the drain loop (len < cap) never dequeues, the sender spins and accepted payloads are never handed to the transport", lb))
			}
		})
	}
	if !found && batchF != nil {
		c.Unk(R, "batch-capacity", "", "allocation of the sender's batch slice not found")
	} else if !found {
		c.OK(R, "batch-capacity", "", "no pre-allocated batch field")
	}
}

// runReleaseOnce: ownership of the sender flag ends with one release. In the sender (its closures and the
// functions it defers included):
//
//	(A) after a release, no second release is reachable unless the sender re-acquired the flag and kept it
//	    (the success edge of an acquire test in the sender itself);
//	(B) after the sender started another sender (Exec/go of the sender function after a successful acquire,
//	    directly or through a helper) the flag belongs to that one: no release by this activation at all.
//
// A release in a deferred function counts at every normal return unless it is on the recover() != nil side only.
// Without this, a stale release clears the flag under the feet of the running sender and the next write
// starts a second one: two senders share the batch and the transport.
func runReleaseOnce(c *core.Ctx, e *ev, R string) {
	p, S := c.P, e.r.Sender
	relQ := &core.Query{P: p, MaxDepth: 2, Pred: e.runningRelease}
	startQ := &core.Query{P: p, MaxDepth: 2, Pred: e.startsSender}
	// does a deferred function of S release on the normal (non-panic) path?
	deferredRelease := false
	var deferredWhere ssa.Instruction
	core.AllInstrs(S, func(in ssa.Instruction) {
		df, ok := in.(*ssa.Defer)
		if !ok {
			return
		}
		var d *ssa.Function
		if f := df.Call.StaticCallee(); f != nil {
			d = f
		} else if f := core.FuncValue(df.Call.Value, nil); f != nil {
			d = f
		}
		if d == nil || d.Blocks == nil {
			return
		}
		d = unbound(d)
		// recover() results and the edges on which they are non-nil
		panicOnly := map[*ssa.BasicBlock]bool{}
		for _, f := range core.WithAnon(d) {
			for _, ifi := range core.Ifs(f) {
				cd := core.CondOf(ifi)
				if cd.Op != token.NEQ && cd.Op != token.EQL {
					continue
				}
				isRec := func(v ssa.Value) bool {
					call, ok := core.Unwrap(v).(*ssa.Call)
					if !ok {
						return false
					}
					b, ok := call.Call.Value.(*ssa.Builtin)
					return ok && b.Name() == "recover"
				}
				var other ssa.Value
				if isRec(cd.X) {
					other = cd.Y
				} else if isRec(cd.Y) {
					other = cd.X
				}
				if other == nil || !core.IsNilConst(other) {
					continue
				}
				side := cd.True
				if cd.Op == token.EQL {
					side = cd.False
				}
				for _, b := range f.Blocks {
					if core.EdgeDominates(ifi.Block(), side, b) {
						panicOnly[b] = true
					}
				}
			}
		}
		for _, f := range core.WithAnon(d) {
			core.AllInstrs(f, func(x ssa.Instruction) {
				if relQ.InstrMay(x, nil) && !panicOnly[x.Block()] {
					deferredRelease, deferredWhere = true, x
				}
			})
		}
	})
	isRel := func(x ssa.Instruction) bool {
		switch x.(type) {
		case *ssa.Defer, *ssa.Go:
			return false // runs later: accounted for at the returns / not part of this activation
		}
		return relQ.InstrMay(x, nil)
	}
	isEnd := func(x ssa.Instruction) bool {
		if isRel(x) {
			return true
		}
		return deferredRelease && core.IsNormalReturn(x)
	}
	// acquire tests in S whose success side keeps the flag (does not start another sender)
	keeps := map[edgeKey]bool{}
	for _, f := range core.WithAnon(S) {
		for _, ifi := range core.Ifs(f) {
			cd := core.CondOf(ifi)
			if cd.Op != token.ILLEGAL || !e.isAcquireValue(cd.X) {
				continue
			}
			t, _ := core.Search(nil, cd.True, func(x ssa.Instruction) core.Action {
				if startQ.InstrMay(x, nil) {
					return core.Target
				}
				if isRel(x) {
					return core.Barrier
				}
				return core.Continue
			}, nil)
			if t == nil {
				keeps[edgeKey{ifi.Block(), cd.True}] = true
			}
		}
	}
	n := 0
	for _, f := range core.WithAnon(S) {
		if core.EnclosingFunc(f) != nil && f != S {
			continue // deferred / nested functions are accounted for at the returns of S
		}
		core.AllInstrs(f, func(in ssa.Instruction) {
			switch {
			case isRel(in):
				n++
				c.Instance(R)
				t, path := core.Search(in, nil, func(x ssa.Instruction) core.Action {
					if isEnd(x) {
						return core.Target
					}
					return core.Continue
				}, func(a, b *ssa.BasicBlock) bool { return !keeps[edgeKey{a, b}] })
				why := "after releasing the flag the sender can release it again without having re-acquired it"
				if t != nil && core.IsNormalReturn(t) && deferredWhere != nil {
					why += " (the deferred release at " + p.InstrPos(deferredWhere) + " runs at this return)"
				}
				c.Check(t == nil, R, "release-once/"+core.FName(f), p.InstrPos(in), "no second release without a retained re-acquire", why+": it clears the flag of whichever sender owns it by then, and the next write starts a second sender", p.PathString(path, t)...)
			case startQ.InstrMay(in, nil):
				n++
				c.Instance(R)
				t, path := core.Search(in, nil, func(x ssa.Instruction) core.Action {
					if isEnd(x) {
						return core.Target
					}
					return core.Continue
				}, nil)
				c.Check(t == nil, R, "no-release-after-handover/"+core.FName(f), p.InstrPos(in), "the sender does not release after starting its successor", "the sender starts another sender and releases the flag afterwards: the flag it clears belongs to the new sender (two senders run at once)", p.PathString(path, t)...)
			}
		})
	}
	if n == 0 {
		c.Instance(R)
		c.Unk(R, "release-once", p.Pos(S.Pos()), "the sender never releases the flag (protocol not recognised)")
	}
}
