package rules

import (
	"fmt"
	"go/types"
	"sort"
	"strings"

	"golang.org/x/tools/go/ssa"
	"verif/checker/internal/core"
)

func init() {
	register(&Property{
		ID:    "C09",
		Title: "A message's bytes are contiguous on the wire under concurrent writers",
		Explanation: "The atomic unit of the write side is one low-level write call (one lock hold or one queue slot, C01), so contiguity of a message reduces to a countable structural fact: how many low-level writes one message becomes. DECIDES: " +
			"R1 for each arm of the head handler's type switch the number of low-level writes one message may perform is '1' or 'many' (a write inside a loop, or the channel's io.Writer handed to a callee that decides the number of Write calls); a 'many' arm needs a message-scope lock, none exists: reported per arm; " +
			"R2 a vectored write is one unit (single enqueue / single transport.Writev under the lock; shared with C01); R3 every message type the shipped codecs hand downstream is resolved, in switch order, to the arm it lands in and to its write count (std-lib single-Write WriterTo types are tabled); a shipped type that lands in a 'many' arm is reported per type; " +
			"R5 sender ownership (two senders would interleave batches; shared with C01/C02). " +
			"Known findings on the pinned tree: the io.WriterTo arm (callee-decided writes; io.MultiReader from the delimiter codec writes one part per Write) and the io.Reader arm (one write per 1024-byte chunk). " +
			"DOES NOT DECIDE: interleaving frequency, contiguity inside a transport wrapper (C17); xhttp writers that bypass the head handler are evidence only.",
		Assumptions: []string{"strings.Reader / bytes.Reader / bytes.Buffer WriteTo perform a single Write (std-lib)"},
		Run:         runC09,
	})
}

type headArm struct {
	typ   types.Type
	body  *ssa.BasicBlock
	ta    *ssa.TypeAssert
	value ssa.Value
}

// headArms: arms of the type switch of the head handler's HandleWrite, in switch order.
func headArms(p *core.Prog) (*ssa.Function, []*headArm, *ssa.BasicBlock) {
	pr := resolvePipe(p)
	if len(pr.errs) > 0 {
		return nil, nil, nil
	}
	var hh *ssa.Function
	outbound := lookupNamedT(p.TPkg(""), "OutboundHandler")
	core.AllInstrs(pr.newPipeline, func(in ssa.Instruction) {
		call, ok := in.(*ssa.Call)
		if !ok || call.Call.StaticCallee() != pr.ctor {
			return
		}
		if mi, ok := call.Call.Args[pr.ctorHandlerParam].(*ssa.MakeInterface); ok && outbound != nil {
			if types.Implements(mi.X.Type(), outbound.Underlying().(*types.Interface)) {
				if n, ok := types.Unalias(mi.X.Type()).(*types.Named); ok {
					hh = p.Method(n, "HandleWrite")
				}
			}
		}
	})
	if hh == nil {
		return nil, nil, nil
	}
	var arms []*headArm
	var deflt *ssa.BasicBlock
	msg := hh.Params[len(hh.Params)-1]
	// follow the chain of typeassert,ok on the message parameter
	b := hh.Blocks[0]
	for d := 0; d < 32 && b != nil; d++ {
		var ta *ssa.TypeAssert
		for _, in := range b.Instrs {
			if t, ok := in.(*ssa.TypeAssert); ok && t.CommaOk && core.Unwrap(t.X) == ssa.Value(msg) {
				ta = t
			}
		}
		if ta == nil {
			deflt = b
			break
		}
		ifi, ok := b.Instrs[len(b.Instrs)-1].(*ssa.If)
		if !ok {
			break
		}
		arm := &headArm{typ: ta.AssertedType, body: b.Succs[0], ta: ta}
		for _, ref := range *ta.Referrers() {
			if ex, ok := ref.(*ssa.Extract); ok && ex.Index == 0 {
				arm.value = ex
			}
		}
		_ = ifi
		arms = append(arms, arm)
		b = b.Succs[1]
	}
	return hh, arms, deflt
}

// writeCount classifies how many low-level writes the implementation method m of the channel performs: "1" or "many".
func (e *ev) writeUnits(fn *ssa.Function, depth int) (string, string) {
	if fn == nil || depth > 4 {
		return "many", "unresolved"
	}
	unit := func(in ssa.Instruction) bool {
		if e.queueSend(in) {
			return true
		}
		return e.transportInvoke(in, "Write", "Writev")
	}
	res, why := "0", ""
	bump := func(k, w string) {
		if k == "many" {
			res, why = "many", w
		} else if k == "1" && res == "0" {
			res = "1"
		}
	}
	core.AllInstrs(fn, func(in ssa.Instruction) {
		isUnit := unit(in)
		var sub string
		var subWhy string
		if !isUnit {
			cc := core.CallCommon(in)
			if cc == nil || cc.IsInvoke() {
				return
			}
			cal := cc.StaticCallee()
			if cal == nil || !e.p.InRepo(cal) || !e.isChanMethod(cal) {
				return
			}
			sub, subWhy = e.writeUnits(cal, depth+1)
			if sub == "0" {
				return
			}
		} else {
			sub = "1"
		}
		// in a loop?
		if t, _ := core.Search(in, nil, func(x ssa.Instruction) core.Action {
			if x == in {
				return core.Target
			}
			return core.Continue
		}, nil); t != nil {
			bump("many", "low-level write inside a loop at "+e.p.InstrPos(in))
			return
		}
		bump(sub, subWhy)
	})
	return res, why
}

// singleWriteWriterTo: std-lib types whose WriteTo performs exactly one Write.
var singleWriteWriterTo = map[string]bool{"*strings.Reader": true, "*bytes.Reader": true, "*bytes.Buffer": true}

func runC09(c *core.Ctx) {
	e, ok := newEv(c)
	if !ok {
		return
	}
	p, r := c.P, e.r
	c.Rule("R1", "each head arm performs one low-level write per message (or holds a message-scope lock)", 5)
	c.Rule("R2", "a vectored write is one unit (shared with C01)", 2)
	c.Rule("R3", "message types emitted by the shipped codecs land in single-write arms", 3)
	c.Rule("R5", "a single sender owns the transport (shared with C01/C02)", 1)
	hh, arms, _ := headArms(p)
	if hh == nil || len(arms) == 0 {
		c.Unk("anchors", "ANCHOR-UNRESOLVED", "", "head handler's type switch not resolved")
		return
	}
	c.FuncsSeen[p.QName(hh)] = true
	armCount := map[int]string{}
	for i, arm := range arms {
		c.Instance("R1")
		tname := types.TypeString(arm.typ, func(pk *types.Package) string { return pk.Name() })
		name := "head-arm/" + tname
		res, why := "0", ""
		// instructions of the arm: from its body until the switch join / return
		core.Search(nil, arm.body, func(in ssa.Instruction) core.Action {
			cc := core.CallCommon(in)
			if cc == nil {
				return core.Continue
			}
			if _, isDefer := in.(*ssa.Defer); isDefer {
				return core.Continue
			}
			if cc.IsInvoke() && ifaceInvoke(in, r.ChannelIface, "Write1", "Writev", "CtxWrite1", "CtxWritev", "ReadFrom") {
				impl := p.DeclMethod(r.Chan, cc.Method.Name())
				c.FuncsSeen[p.QName(impl)] = true
				k, w := e.writeUnits(impl, 0)
				inLoop := false
				if t, _ := core.Search(in, nil, func(x ssa.Instruction) core.Action {
					if x == in {
						return core.Target
					}
					return core.Continue
				}, nil); t != nil {
					inLoop = true
				}
				switch {
				case inLoop:
					res, why = "many", "the arm calls "+cc.Method.Name()+" in a loop"
				case k == "many":
					res, why = "many", "Channel."+cc.Method.Name()+": "+w
				case res == "1":
					res, why = "many", "the arm performs more than one low-level write call"
				case res == "0":
					res = "1"
				}
				return core.Continue
			}
			// the channel's io.Writer handed to a dynamic callee
			if cc.IsInvoke() {
				for _, a := range cc.Args {
					if call, ok := core.Unwrap(a).(*ssa.Call); ok && call.Call.IsInvoke() && ifaceInvoke(call, r.ChannelIface, "Writer") {
						res, why = "many", "the channel's io.Writer is handed to "+cc.Method.Name()+" of the message: the callee decides how many Write calls (each an independent low-level write) it makes"
					}
				}
			}
			return core.Continue
		}, func(a, b *ssa.BasicBlock) bool {
			// stay inside the arm: do not enter other arms' bodies / the next type test
			for j, o := range arms {
				if j != i && (b == o.body || b == o.ta.Block()) {
					return false
				}
			}
			return true
		})
		armCount[i] = res
		switch res {
		case "1":
			c.OK("R1", name, p.InstrPos(arm.ta), "one low-level write per message")
		case "0":
			c.Bad("R1", name, p.InstrPos(arm.ta), "the arm performs no low-level write (message dropped)")
		default:
			c.Bad("R1", name, p.InstrPos(arm.ta), "one message becomes several independent low-level writes without a message-scope lock ("+why+"): bytes of concurrently written messages interleave on the wire")
		}
	}

	// ---- R3 shipped emitters
	type emit struct {
		fn   *ssa.Function
		typ  types.Type
		desc string
		in   ssa.Instruction
	}
	var emits []emit
	for _, fn := range p.Funcs {
		rel := p.PkgRel(fn)
		if !strings.HasPrefix(rel, "codec/") || fn.Name() != "HandleWrite" {
			continue
		}
		for _, call := range downstreamCalls(fn, "HandleWrite") {
			arg := call.Call.Args[0]
			switch x := arg.(type) {
			case *ssa.MakeInterface:
				emits = append(emits, emit{fn, x.X.Type(), "", call})
			case *ssa.ChangeInterface:
				// interface-typed value: where does it come from?
				if src, ok := x.X.(*ssa.Call); ok && core.IsPkgFunc(src, "io", "MultiReader") {
					emits = append(emits, emit{fn, nil, "io.MultiReader", call})
				} else if src, ok := x.X.(*ssa.Call); ok {
					emits = append(emits, emit{fn, src.Type(), "", call})
				}
			}
		}
	}
	sort.Slice(emits, func(i, j int) bool { return p.InstrPos(emits[i].in) < p.InstrPos(emits[j].in) })
	for _, em := range emits {
		c.Instance("R3")
		c.FuncsSeen[p.QName(em.fn)] = true
		tdesc := em.desc
		if em.typ != nil {
			tdesc = types.TypeString(em.typ, func(pk *types.Package) string { return pk.Name() })
		}
		name := "emits/" + p.PublicName(em.fn) + "/" + tdesc
		// first arm whose type the emitted type satisfies
		land := -1
		for i, arm := range arms {
			if em.typ != nil {
				if it, ok := arm.typ.Underlying().(*types.Interface); ok {
					if types.Implements(em.typ, it) {
						land = i
						break
					}
				} else if types.Identical(em.typ, arm.typ) {
					land = i
					break
				}
			} else if em.desc == "io.MultiReader" {
				// *io.multiReader implements io.WriterTo (one Write per part) and io.Reader
				if it, ok := arm.typ.Underlying().(*types.Interface); ok && (it.NumMethods() == 1 && (it.Method(0).Name() == "WriteTo" || it.Method(0).Name() == "Read")) {
					land = i
					break
				}
			}
		}
		if land < 0 {
			c.Bad("R3", name, p.InstrPos(em.in), "a shipped codec emits a message type no head arm accepts")
			continue
		}
		armT := types.TypeString(arms[land].typ, func(pk *types.Package) string { return pk.Name() })
		count := armCount[land]
		if count == "many" && armT == "io.WriterTo" && singleWriteWriterTo[tdesc] {
			count = "1" // std-lib WriteTo of this type performs a single Write
		}
		c.Note("emitter %s: %s -> arm %s -> %s", p.QName(em.fn), tdesc, armT, count)
		c.Check(count == "1", "R3", name, p.InstrPos(em.in), "lands in arm "+armT+": one low-level write",
			fmt.Sprintf("a message of type %s emitted by a shipped codec lands in head arm %s and becomes several independent low-level writes: concurrent writers interleave inside the framed message", tdesc, armT))
	}

	// ---- R2 / R5 imports
	importObligations(c, runC01, "R2", func(o *core.Obligation) bool {
		return (o.Rule == "R2" && strings.Contains(o.Key, "single-send")) || o.Rule == "R5"
	})
	importObligations(c, runC01, "R5", func(o *core.Obligation) bool {
		return strings.Contains(o.Key, "sender-owns-flag") || strings.Contains(o.Key, "start-site") || strings.Contains(o.Key, "transport-write-site")
	})
	importObligations(c, runC02, "R5", func(o *core.Obligation) bool {
		return strings.Contains(o.Key, "flag-access/") || o.Rule == "R8"
	})
	// a queued message is not overwritten by another writer's bytes: buffers handed to the queue are private
	// and are not recycled while queued (C10), and codecs hand down no scratch shared between messages (C04)
	c.Rule("R6", "a queued message's buffer is not reused for another message before it is written (shared with C10-R1/R4/R6 and C04-R3)", 2)
	importObligations(c, runC10, "R6", func(o *core.Obligation) bool {
		return o.Rule == "R1" || o.Rule == "R3" || o.Rule == "R4" || o.Rule == "R6" || o.Rule == "R8"
	})
	importObligations(c, runC04, "R6", func(o *core.Obligation) bool { return o.Rule == "R3" })
	// the write lock and the sender flag serialise writers only if every method works on the one channel object
	c.Rule("R8", "the channel's methods have pointer receivers (shared with C12-R11)", 1)
	importObligations(c, runC12, "R8", func(o *core.Obligation) bool { return o.Rule == "R11" })
	// below the single sender the wrapper keeps one write sink: a batch never overtakes bytes still buffered
	c.Rule("R7", "transport wrappers write through one sink (shared with C17-R1)", 2)
	importObligations(c, runC17, "R7", func(o *core.Obligation) bool { return o.Rule == "R1" || o.Rule == "R5" })
}
