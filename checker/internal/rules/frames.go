package rules

import (
	"go/token"
	"go/types"

	"golang.org/x/tools/go/ssa"
	"verif/checker/internal/core"
)

// recoverFrame describes a deferred closure that calls recover() itself.
type recoverFrame struct {
	Host    *ssa.Function // function registering the defer
	Defer   *ssa.Defer
	Closure *ssa.Function
	Rec     ssa.Value // the recover() call
}

// recoverFrames lists the deferred recovering closures of fn. recover() only works
// when called directly by the deferred function, so a closure that calls a helper
// which calls recover() does not count.
func recoverFrames(fn *ssa.Function) []*recoverFrame {
	var out []*recoverFrame
	core.AllInstrs(fn, func(in ssa.Instruction) {
		d, ok := in.(*ssa.Defer)
		if !ok {
			return
		}
		f := core.FuncValue(d.Call.Value, nil)
		if f == nil {
			f = d.Call.StaticCallee()
		}
		if f == nil || f.Blocks == nil {
			return
		}
		var rec ssa.Value
		core.AllInstrs(f, func(x ssa.Instruction) {
			if _, ok := core.IsBuiltinCall(x, "recover"); ok {
				rec = x.(ssa.Value)
			}
		})
		if rec != nil {
			out = append(out, &recoverFrame{Host: fn, Defer: d, Closure: f, Rec: rec})
		}
	})
	return out
}

// nonNilEdges: successor blocks taken when v != nil.
func nonNilEdges(fn *ssa.Function, v ssa.Value) []*ssa.BasicBlock {
	var out []*ssa.BasicBlock
	for _, ifi := range core.Ifs(fn) {
		cd := core.CondOf(ifi)
		if cd.Op != token.EQL && cd.Op != token.NEQ {
			continue
		}
		var other ssa.Value
		if cd.X == v {
			other = cd.Y
		} else if cd.Y == v {
			other = cd.X
		} else {
			continue
		}
		if !core.IsNilConst(other) {
			continue
		}
		if cd.Op == token.NEQ {
			out = append(out, cd.True)
		} else {
			out = append(out, cd.False)
		}
	}
	return out
}

// isAsExceptionOf: v = AsException(rec) (any repo function named by role: returns error from interface{}),
// or rec itself converted.
func (e *ev) exceptionOf(v, rec ssa.Value) bool {
	v = core.Unwrap(v)
	if v == rec {
		return true
	}
	if call, ok := v.(*ssa.Call); ok && len(call.Call.Args) == 1 {
		f := call.Call.StaticCallee()
		if f != nil && e.p.InRepo(f) && core.Unwrap(call.Call.Args[0]) == rec {
			return true
		}
	}
	if ex, ok := v.(*ssa.Extract); ok {
		if ta, ok := ex.Tuple.(*ssa.TypeAssert); ok && core.Unwrap(ta.X) == rec {
			return true
		}
	}
	return false
}

// routesException: in is Pipeline.FireChannelException(x) with x derived from rec.
func (e *ev) routesException(in ssa.Instruction, rec ssa.Value) bool {
	if !ifaceInvoke(in, e.r.PipelineIface, "FireChannelException") {
		return false
	}
	cc := core.CallCommon(in)
	return len(cc.Args) == 1 && e.exceptionOf(cc.Args[0], rec)
}

// closesWith: in is channel Close(x) (static or via Channel interface) with x derived from rec.
func (e *ev) closesWith(in ssa.Instruction, rec ssa.Value) bool {
	cc := core.CallCommon(in)
	if cc == nil {
		return false
	}
	var arg ssa.Value
	if cc.IsInvoke() {
		if cc.Method.Name() != "Close" || len(cc.Args) != 1 || !ifaceInvoke(in, e.r.ChannelIface, "Close") {
			return false
		}
		arg = cc.Args[0]
	} else {
		if cc.StaticCallee() != e.r.Closer || len(cc.Args) != 2 {
			return false
		}
		arg = cc.Args[1]
	}
	return rec == nil || e.exceptionOf(arg, rec)
}

// closedOpenEdgeFilter excludes the "channel already closed" side of `closed == 0` tests, so that
// "route only while open" (invokeMethod) is accepted.
func (e *ev) notClosedSide(fn *ssa.Function) func(a, b *ssa.BasicBlock) bool {
	skip := map[[2]*ssa.BasicBlock]bool{}
	for _, ifi := range core.Ifs(fn) {
		cd := core.CondOf(ifi)
		if cd.Op != token.EQL && cd.Op != token.NEQ {
			continue
		}
		var load, other ssa.Value
		if in, ok := cd.X.(ssa.Instruction); ok && e.closedLoad(in) {
			load, other = cd.X, cd.Y
		} else if in, ok := cd.Y.(ssa.Instruction); ok && e.closedLoad(in) {
			load, other = cd.Y, cd.X
		}
		if load == nil {
			// IsActive() call
			continue
		}
		if k, ok := core.ConstInt(other); ok && k == 0 {
			closedSide := cd.False
			if cd.Op == token.NEQ {
				closedSide = cd.True
			}
			skip[[2]*ssa.BasicBlock{ifi.Block(), closedSide}] = true
		}
	}
	return func(a, b *ssa.BasicBlock) bool { return !skip[[2]*ssa.BasicBlock{a, b}] }
}

// routingFrame: the frame routes a recovered panic to the exception handlers (or closes with it)
// on every path of its non-nil branch and never re-panics. Returns ok and a reason.
func (e *ev) routingFrame(fr *recoverFrame, acceptClose bool) (bool, string) {
	f := fr.Closure
	// recover() must run on every path through the deferred closure: a return that is not dominated by the
	// recover() call lets the panic continue unwinding (e.g. an early `if closed { return }` in front of it)
	recIn, _ := fr.Rec.(ssa.Instruction)
	skipped := false
	core.AllInstrs(f, func(x ssa.Instruction) {
		if core.IsNormalReturn(x) && recIn != nil && !core.Dominates(recIn, x) {
			skipped = true
		}
	})
	if skipped {
		return false, "the deferred closure can return without calling recover() (early return in front of it): the panic keeps unwinding into the caller"
	}
	edges := nonNilEdges(f, fr.Rec)
	pred := func(x ssa.Instruction) bool {
		return e.routesException(x, fr.Rec) || (acceptClose && e.closesWith(x, fr.Rec))
	}
	q := &core.Query{P: e.p, Pred: pred}
	if len(edges) == 0 {
		// unconditional use: Close(AsException(recover())) - AsException(nil) = nil is fine for Close
		if acceptClose {
			if bad, _ := q.MustPassBetween(nil, f.Blocks[0], nil, core.IsNormalReturn, nil); bad == nil {
				return true, ""
			}
		}
		return false, "recover() result is not nil-tested and not routed unconditionally"
	}
	filter := e.notClosedSide(f)
	for _, nb := range edges {
		if bad, _ := q.MustPassBetween(nil, nb, nil, core.IsNormalReturn, filter); bad != nil {
			return false, "a path of the recover branch returns without routing the recovered value to Pipeline.FireChannelException" + map[bool]string{true: " or Close", false: ""}[acceptClose]
		}
	}
	repanic := false
	core.AllInstrs(f, func(x ssa.Instruction) {
		if _, ok := x.(*ssa.Panic); ok {
			repanic = true
		}
	})
	if repanic {
		return false, "the recover closure re-panics"
	}
	return true, ""
}

// protFuncs: functions that run their body (after the defer) inside a routing recover frame.
func (e *ev) protFuncs(acceptClose bool) map[*ssa.Function]*recoverFrame {
	out := map[*ssa.Function]*recoverFrame{}
	for _, fn := range e.p.Funcs {
		for _, fr := range recoverFrames(fn) {
			if ok, _ := e.routingFrame(fr, acceptClose); ok {
				out[fn] = fr
				break
			}
		}
	}
	return out
}

// protectedSite: instruction `in` executes inside a routing recover frame:
//
//	(a) its function registered such a frame before `in`; or
//	(b) its function is a closure / bound method value handed to a helper that calls its
//	    function parameter after registering such a frame (invokeMethod idiom);
//	(c) its function is only called (statically) from protected sites.
func (e *ev) protectedSite(in ssa.Instruction, prot map[*ssa.Function]*recoverFrame, depth int) (bool, string) {
	fn := in.Parent()
	if fr, ok := prot[fn]; ok && core.Dominates(fr.Defer, in) {
		return true, "frame in " + core.FName(fn)
	}
	if depth > 4 {
		return false, "call chain too deep"
	}
	return e.protectedFunc(fn, prot, depth)
}

// protectedFunc: every use of fn as a value / callee is in a protected position.
func (e *ev) protectedFunc(fn *ssa.Function, prot map[*ssa.Function]*recoverFrame, depth int) (bool, string) {
	uses := 0
	okAll := true
	why := ""
	for _, user := range e.p.Funcs {
		core.AllInstrs(user, func(x ssa.Instruction) {
			// closure creation
			if mc, ok := x.(*ssa.MakeClosure); ok && (mc.Fn == ssa.Value(fn) || isBoundWrapperOf(mc.Fn, fn)) {
				for _, ref := range *mc.Referrers() {
					uses++
					ok2, w := e.protectedUse(ref, mc, prot, depth)
					if !ok2 {
						okAll = false
						why = w
					}
				}
				return
			}
			cc := core.CallCommon(x)
			if cc == nil {
				return
			}
			if !cc.IsInvoke() && cc.StaticCallee() == fn {
				if _, isMC := cc.Value.(*ssa.MakeClosure); isMC {
					return // counted above
				}
				uses++
				if _, isGo := x.(*ssa.Go); isGo {
					okAll = false
					why = "started with go at " + e.p.InstrPos(x)
					return
				}
				ok2, w := e.protectedSite(x, prot, depth+1)
				if !ok2 {
					okAll = false
					why = "called from unprotected " + core.FName(user) + " (" + w + ")"
				}
				return
			}
			// function constant passed as argument
			for _, a := range cc.Args {
				if f, ok := a.(*ssa.Function); ok && f == fn {
					uses++
					ok2, w := e.protectedUse(x, a, prot, depth)
					if !ok2 {
						okAll = false
						why = w
					}
				}
			}
		})
	}
	if uses == 0 {
		return false, core.FName(fn) + " has no protected caller in the repository"
	}
	return okAll, why
}

// protectedUse: the function value fv is used by instruction ref in a protected way.
func (e *ev) protectedUse(ref ssa.Instruction, fv ssa.Value, prot map[*ssa.Function]*recoverFrame, depth int) (bool, string) {
	cc := core.CallCommon(ref)
	if cc == nil {
		return false, "function value escapes at " + e.p.InstrPos(ref)
	}
	if _, isGo := ref.(*ssa.Go); isGo {
		return false, "started with go at " + e.p.InstrPos(ref)
	}
	// called directly: func(){...}()
	if cc.Value == fv {
		if _, isDefer := ref.(*ssa.Defer); isDefer {
			return false, "deferred"
		}
		return e.protectedSite(ref, prot, depth+1)
	}
	// passed to a helper
	callee := cc.StaticCallee()
	if callee == nil || callee.Blocks == nil {
		return false, "passed to a dynamic or external callee at " + e.p.InstrPos(ref)
	}
	idx := -1
	for i, a := range cc.Args {
		if a == fv {
			idx = i
		}
	}
	if idx < 0 || idx >= len(callee.Params) {
		return false, "argument position not resolved"
	}
	prm := callee.Params[idx]
	// the helper must call prm only at protected sites and not leak it
	good, n := true, 0
	why := ""
	for _, r := range *prm.Referrers() {
		rc := core.CallCommon(r)
		if rc == nil || rc.Value != ssa.Value(prm) {
			// stored to a cell for capture etc.: follow one level (spilled param)
			if st, ok := r.(*ssa.Store); ok {
				if al, ok := st.Addr.(*ssa.Alloc); ok {
					g2, w2, n2 := e.cellCallsProtected(al, prot, depth)
					if !g2 {
						good = false
						why = w2
					}
					n += n2
					continue
				}
			}
			if _, ok := r.(*ssa.DebugRef); ok {
				continue
			}
			good = false
			why = "helper " + core.FName(callee) + " lets its function parameter escape"
			continue
		}
		n++
		if _, isGo := r.(*ssa.Go); isGo {
			good = false
			why = "helper starts the function with go"
			continue
		}
		if ok2, w := e.protectedSite(r, prot, depth+1); !ok2 {
			good = false
			why = "helper " + core.FName(callee) + " calls its parameter outside a routing recover frame (" + w + ")"
		}
	}
	if n == 0 {
		good = false
		why = "helper " + core.FName(callee) + " never calls its function parameter"
	}
	return good, why
}

func (e *ev) cellCallsProtected(al *ssa.Alloc, prot map[*ssa.Function]*recoverFrame, depth int) (bool, string, int) {
	// the cell is captured by closures of the same function: find loads that are called
	good, n := true, 0
	why := ""
	var visit func(v ssa.Value)
	visit = func(v ssa.Value) {
		for _, r := range *v.Referrers() {
			switch x := r.(type) {
			case *ssa.UnOp:
				if x.Op == token.MUL {
					for _, r2 := range *x.Referrers() {
						if rc := core.CallCommon(r2); rc != nil && rc.Value == ssa.Value(x) {
							n++
							if _, isDefer := r2.(*ssa.Defer); isDefer {
								continue // deferred callbacks (done()) are not deliveries
							}
							if ok2, w := e.protectedSite(r2, prot, depth+1); !ok2 {
								good = false
								why = w
							}
						}
					}
				}
			case *ssa.MakeClosure:
				f := x.Fn.(*ssa.Function)
				for i, b := range x.Bindings {
					if b == v && i < len(f.FreeVars) {
						visit(f.FreeVars[i])
					}
				}
			}
		}
	}
	visit(al)
	return good, why, n
}

var _ = types.Identical

// isBoundWrapperOf: v is the synthetic bound-method wrapper of method fn (the closure behind `x.fn` used as a value).
func isBoundWrapperOf(v ssa.Value, fn *ssa.Function) bool {
	w, ok := v.(*ssa.Function)
	return ok && w != fn && w.Synthetic != "" && unbound(w) == fn
}
