package rules

import (
	"go/token"
	"go/types"
	"strings"

	"golang.org/x/tools/go/ssa"
	"verif/checker/internal/core"
)

func init() {
	register(&Property{
		ID:    "C20",
		Title: "Idle handlers fire only after a full idle period and never after inactive",
		Explanation: "DECIDES (for both idle handler types, resolved by the types of their fields): R1 in the timer callback the idle event is triggered only on the true side of `time.Since(lastActivity) >= idleTime` computed from the handler's own fields and of `cachedContext != nil`, on that very context; " +
			"R2 HandleActive stores time.Now() as last activity, caches the context and arms time.AfterFunc(idleTime, callback); the activity method (HandleRead / HandleWrite) stores time.Now() and resets the timer with idleTime on every path and forwards the message exactly once; " +
			"R3 every normal path of the callback ends in Reset(idleTime) of the timer FIELD read and nil-tested in the same critical section (not of a copy taken earlier); R4 HandleInactive stops the timer, nils the timer and the cached context on every path and forwards inactive once; " +
			"R5 the trigger sits in a frame whose deferred closure calls recover() itself and routes to FireChannelException (with C07); R6 every access to the mutable fields is inside the handler's lock (writes under the write lock), and trigger/forwarding calls are outside it. " +
			"ALSO: the idle-duration field is the constructor's parameter unchanged; the channel is released only after active was delivered; HandlerContext.Trigger's recover frame is part of the route. " +
			"DOES NOT DECIDE: actual firing times, timer granularity, the idleTime >= 1s policy, time.Timer.Reset races with an expired timer.",
		Assumptions: []string{"Go timer semantics", "wall-clock elapsed time is only decided as 'the delivery is guarded by the elapsed-time test'"},
		Run:         runC20,
	})
}

type idleRoles struct {
	t                          *types.Named
	timerF, lastF, idleF, ctxF *types.Var
	mu                         *types.Var
	lockHelpers                map[*ssa.Function]string // "W" or "R"
	callback                   *ssa.Function
	activity                   string // HandleRead or HandleWrite
	p                          *core.Prog
}

func resolveIdle(p *core.Prog) []*idleRoles {
	var out []*idleRoles
	hc := lookupNamedT(p.TPkg(""), "HandlerContext")
	for _, st := range p.StructTypes("") {
		ir := &idleRoles{t: st, lockHelpers: map[*ssa.Function]string{}, p: p}
		for _, f := range fieldsOfNamed(st) {
			switch {
			case isPtrTo(f.Type(), "time", "Timer"):
				ir.timerF = f
			case core.NamedIs(f.Type(), "time", "Time"):
				ir.lastF = f
			case core.NamedIs(f.Type(), "time", "Duration"):
				ir.idleF = f
			case hc != nil && types.Identical(f.Type(), hc):
				ir.ctxF = f
			case core.NamedIs(f.Type(), "sync", "RWMutex") || core.NamedIs(f.Type(), "sync", "Mutex"):
				ir.mu = f
			}
		}
		if ir.timerF == nil || ir.lastF == nil || ir.idleF == nil || ir.ctxF == nil {
			continue
		}
		// lock helpers
		for i := 0; i < st.NumMethods(); i++ {
			fn := p.FuncOf(st.Method(i))
			if fn == nil || fn.Blocks == nil || len(fn.Params) != 2 {
				continue
			}
			if _, ok := fn.Params[1].Type().Underlying().(*types.Signature); !ok {
				continue
			}
			kind := ""
			callsParam := false
			core.AllInstrs(fn, func(in ssa.Instruction) {
				if _, isDefer := in.(*ssa.Defer); isDefer {
					return
				}
				if mutexCall(in, ir.mu, "Lock") {
					kind = "W"
				}
				if mutexCall(in, ir.mu, "RLock") {
					kind = "R"
				}
				if cc := core.CallCommon(in); cc != nil && cc.Value == ssa.Value(fn.Params[1]) {
					callsParam = true
				}
			})
			if kind != "" && callsParam {
				ir.lockHelpers[fn] = kind
			}
		}
		// callback = function handed to time.AfterFunc in a method of st
		for i := 0; i < st.NumMethods(); i++ {
			fn := p.FuncOf(st.Method(i))
			if fn == nil {
				continue
			}
			for _, f := range core.WithAnon(fn) {
				core.AllInstrs(f, func(in ssa.Instruction) {
					if core.IsPkgFunc(in, "time", "AfterFunc") {
						if cb := core.FuncValue(core.CallCommon(in).Args[1], nil); cb != nil {
							ir.callback = unbound(cb)
						}
					}
				})
			}
		}
		if p.DeclMethod(st, "HandleWrite") != nil {
			ir.activity = "HandleWrite"
		} else {
			ir.activity = "HandleRead"
		}
		out = append(out, ir)
	}
	return out
}

func fieldsOfNamed(n *types.Named) []*types.Var {
	return core.FlatFields(n)
}

func isPtrTo(t types.Type, pkg, name string) bool {
	p, ok := t.(*types.Pointer)
	return ok && core.NamedIs(p.Elem(), pkg, name)
}

// lockOf: the lock kind under which instruction `in` runs: it is inside a closure whose every use is as the
// argument of a lock helper, or after an explicit Lock/RLock in the same function ("" = none).
func (ir *idleRoles) lockOf(p *core.Prog, in ssa.Instruction) string {
	return lockKind(p, in, ir.mu)
}

func runC20(c *core.Ctx) {
	p := c.P
	idles := resolveIdle(p)
	c.Rule("R1", "idle event triggered only under elapsed >= idleTime and cached context != nil, on that context", 2)
	c.Rule("R2", "active and every activity refresh the clock and (re)arm the timer with idleTime; message forwarded once", 4)
	c.Rule("R3", "callback re-arms the timer field (nil-tested in the same critical section) on every normal path", 2)
	c.Rule("R4", "inactive stops and clears timer and cached context, then forwards inactive once", 2)
	c.Rule("R5", "trigger inside a routing recover frame (shared with C07)", 2)
	c.Rule("R6", "field accesses under the handler's lock (writes under the write lock); callbacks outside the lock", 2)
	if len(idles) < 2 {
		c.Unk("anchors", "ANCHOR-UNRESOLVED", "", "expected two idle handler types (timer + last-activity + idle-duration + cached-context fields), found "+itoa(len(idles)))
		if len(idles) == 0 {
			return
		}
	}
	for _, ir := range idles {
		tn := ir.t.Obj().Name()
		if ir.callback == nil {
			c.Bad("R2", tn+"/arms-timer", "", "no time.AfterFunc with a callback found in the handler")
			continue
		}
		cb := ir.callback
		c.FuncsSeen[p.QName(cb)] = true
		isLoadOf := func(v ssa.Value, f *types.Var) bool {
			v = core.Unwrap(v)
			if _, isLoad := v.(*ssa.UnOp); !isLoad {
				return false
			}
			fv, _ := core.FieldOf(v)
			return fv == f
		}
		isNow := func(v ssa.Value) bool {
			call, ok := core.Unwrap(core.ForwardLoad(core.Unwrap(v))).(*ssa.Call)
			return ok && core.IsPkgFunc(call, "time", "Now")
		}

		// ---- R1
		c.Instance("R1")
		// the expiry value and the cached-context value: either SSA values used directly, or values parked in a
		// local cell (a variable assigned inside a locked closure and read after it)
		expiredSrc := map[ssa.Value]bool{}
		ctxSrc := map[ssa.Value]bool{}
		var cmpOK bool
		for _, f := range core.WithAnon(cb) {
			core.AllInstrs(f, func(in ssa.Instruction) {
				if b, ok := in.(*ssa.BinOp); ok && b.Op == token.GEQ {
					// time.Since(last) >= idle  |  time.Now().Sub(last) >= idle
					el := false
					if call, ok := b.X.(*ssa.Call); ok {
						if core.IsPkgFunc(call, "time", "Since") && isLoadOf(call.Call.Args[0], ir.lastF) {
							el = true
						}
						if o := core.CalleeObj(call); o != nil && o.Name() == "Sub" && len(call.Call.Args) == 2 && isNow(call.Call.Args[0]) && isLoadOf(call.Call.Args[1], ir.lastF) {
							el = true
						}
					}
					if el && isLoadOf(b.Y, ir.idleF) {
						expiredSrc[b], cmpOK = true, true
					} else if el || isLoadOf(b.Y, ir.idleF) {
						expiredSrc[b] = true
					}
				}
				if u, ok := in.(*ssa.UnOp); ok && u.Op == token.MUL {
					if fv, _ := core.FieldOf(u); fv == ir.ctxF {
						ctxSrc[u] = true
					}
				}
			})
		}
		for _, f := range core.WithAnon(cb) {
			core.AllInstrs(f, func(in ssa.Instruction) {
				st, ok := in.(*ssa.Store)
				if !ok {
					return
				}
				cell := cellOf(st.Addr, f)
				if cell == nil {
					return
				}
				if expiredSrc[core.Unwrap(st.Val)] {
					expiredSrc[cell] = true
				}
				if ctxSrc[core.Unwrap(st.Val)] {
					ctxSrc[cell] = true
				}
			})
		}
		// trigger sites
		var triggers []ssa.Instruction
		for _, f := range core.WithAnon(cb) {
			core.AllInstrs(f, func(in ssa.Instruction) {
				cc := core.CallCommon(in)
				if cc == nil {
					return
				}
				if cc.IsInvoke() && cc.Method.Name() == "Trigger" {
					triggers = append(triggers, in)
					return
				}
				// helper (declared function) that triggers on a context it is handed
				if cal := cc.StaticCallee(); cal != nil && cal.Parent() == nil && p.InRepo(cal) && !cc.IsInvoke() {
					if _, isHelper := ir.lockHelpers[cal]; isHelper {
						return
					}
					tq := &core.Query{P: p, MaxDepth: 3, Pred: func(x ssa.Instruction) bool {
						xc := core.CallCommon(x)
						return xc != nil && xc.IsInvoke() && xc.Method.Name() == "Trigger"
					}}
					if tq.May(cal, nil) {
						triggers = append(triggers, in)
					}
				}
			})
		}
		if len(triggers) == 0 {
			c.Bad("R1", tn+"/trigger", p.Pos(cb.Pos()), "the timer callback never triggers an idle event")
		}
		for _, tr := range triggers {
			top, _ := liftToFunc(p, tr, cb)
			name := tn + "/trigger"
			if top == nil || len(expiredSrc) == 0 || len(ctxSrc) == 0 {
				c.Bad("R1", name+"/guarded", p.InstrPos(tr), "the elapsed-time comparison (time.Since(last) >= idleTime) or the cached-context read feeding the trigger was not found in the callback")
				continue
			}
			c.Check(cmpOK, "R1", name+"/comparison", p.InstrPos(tr), "expiry = time.Since(lastActivity) >= idleTime on the handler's own fields", "the expiry test does not compare the time since the handler's last-activity field with its idle-duration field")
			gExp := guardedBySrc(cb, top, expiredSrc, false)
			gCtx := guardedBySrc(cb, top, ctxSrc, true)
			c.Check(gExp, "R1", name+"/under-expired", p.InstrPos(tr), "trigger only on the true side of the expiry test", "the idle event can be triggered although the idle period has not elapsed (trigger not guarded by the expiry test)")
			c.Check(gCtx, "R1", name+"/under-context", p.InstrPos(tr), "trigger only when the cached context is non-nil", "the idle event can be triggered after inactive cleared the cached context (no nil test)")
			// on that very context
			recvOK := false
			cands := []ssa.Value{core.CallCommon(tr).Value}
			if !core.CallCommon(tr).IsInvoke() {
				cands = core.CallCommon(tr).Args
			}
			for _, cv := range cands {
				cv = core.Unwrap(cv)
				if ctxSrc[cv] {
					recvOK = true
				}
				if ld, ok := cv.(*ssa.UnOp); ok && ld.Op == token.MUL {
					if cell := cellOf(ld.X, tr.Parent()); cell != nil && ctxSrc[cell] {
						recvOK = true
					}
				}
			}
			c.Check(recvOK, "R1", name+"/on-cached-context", p.InstrPos(tr), "triggered on the cached context read under the lock", "the event is not triggered on the cached context value that was nil-tested")
		}

		// ---- R2 HandleActive
		if ha := p.DeclMethod(ir.t, "HandleActive"); ha != nil {
			c.Instance("R2")
			c.FuncsSeen[p.QName(ha)] = true
			storeNow := &core.Query{P: p, Pred: func(x ssa.Instruction) bool {
				st, ok := x.(*ssa.Store)
				if !ok {
					return false
				}
				f, _ := core.FieldOf(st.Addr)
				return f == ir.lastF && isNow(st.Val)
			}}
			arm := &core.Query{P: p, Pred: func(x ssa.Instruction) bool {
				st, ok := x.(*ssa.Store)
				if !ok {
					return false
				}
				f, _ := core.FieldOf(st.Addr)
				if f != ir.timerF {
					return false
				}
				call, ok := core.Unwrap(st.Val).(*ssa.Call)
				return ok && core.IsPkgFunc(call, "time", "AfterFunc") && isLoadOf(call.Call.Args[0], ir.idleF)
			}}
			cache := &core.Query{P: p, Pred: func(x ssa.Instruction) bool {
				st, ok := x.(*ssa.Store)
				if !ok {
					return false
				}
				f, _ := core.FieldOf(st.Addr)
				return f == ir.ctxF && !core.IsNilConst(st.Val)
			}}
			for nm, q := range map[string]*core.Query{"stores-now": storeNow, "arms-timer-with-idleTime": arm, "caches-context": cache} {
				bad, path := q.MustPassBetween(nil, ha.Blocks[0], nil, core.IsNormalReturn, nil)
				c.Check(bad == nil, "R2", tn+"/HandleActive/"+nm, p.Pos(ha.Pos()), "on every path", "HandleActive does not on every path: "+nm, p.PathString(path, bad)...)
			}
			// armed before the event is handed on: a downstream handler that closes the channel from its own
			// HandleActive makes inactive pass this handler synchronously, and a timer armed afterwards is never released
			c.Instance("R2")
			isFwd := func(x ssa.Instruction) bool {
				cc := core.CallCommon(x)
				return cc != nil && cc.IsInvoke() && cc.Method.Name() == "HandleActive" && core.ParamOf(ha, cc.Value) == 1
			}
			bad, path := arm.MustPassBetween(nil, ha.Blocks[0], nil, isFwd, nil)
			c.Check(bad == nil, "R2", tn+"/HandleActive/arms-before-forwarding", p.Pos(ha.Pos()), "timer and context installed before the active event is forwarded",
				"the active event is forwarded before the timer is armed: an inactive event raised downstream during activation passes the handler first and the timer armed afterwards is never released", p.PathString(path, bad)...)
			forwardOnce(c, p, ha, "HandleActive", tn, "R2")
		} else {
			c.Bad("R2", tn+"/HandleActive", "", "HandleActive not found")
		}
		// activity method
		if am := p.DeclMethod(ir.t, ir.activity); am != nil {
			c.Instance("R2")
			c.FuncsSeen[p.QName(am)] = true
			storeNow := &core.Query{P: p, Pred: func(x ssa.Instruction) bool {
				st, ok := x.(*ssa.Store)
				if !ok {
					return false
				}
				f, _ := core.FieldOf(st.Addr)
				return f == ir.lastF && isNow(st.Val)
			}}
			bad, path := storeNow.MustPassBetween(nil, am.Blocks[0], nil, core.IsNormalReturn, nil)
			c.Check(bad == nil, "R2", tn+"/"+ir.activity+"/refreshes-clock", p.Pos(am.Pos()), "stores time.Now() as last activity on every path", "a message can pass the handler without refreshing the last-activity time (idle event fires although the idle period has not elapsed)", p.PathString(path, bad)...)
			e2 := &idleEdge{ir}
			reset := &core.Query{P: p, Pred: func(x ssa.Instruction) bool { return ir.isResetOnField(x) }}
			bad, path = reset.MustPassBetween(nil, am.Blocks[0], nil, core.IsNormalReturn, nil)
			if bad != nil {
				// allow the timer==nil side
				bad, path = mustPassWithNilTimerExempt(p, e2, am, reset)
			}
			c.Check(bad == nil, "R2", tn+"/"+ir.activity+"/resets-timer", p.Pos(am.Pos()), "resets the timer with idleTime on every path where a timer exists", "a message can pass the handler without re-arming the idle timer", p.PathString(path, bad)...)
			forwardOnce(c, p, am, ir.activity, tn, "R2")
		} else {
			c.Bad("R2", tn+"/"+ir.activity, "", "activity method not found")
		}

		// ---- R3
		c.Instance("R3")
		{
			reset := &core.Query{P: p, Pred: func(x ssa.Instruction) bool { return ir.isResetOnField(x) }}
			bad, path := mustPassWithNilTimerExempt(p, &idleEdge{ir}, cb, reset)
			c.Check(bad == nil, "R3", tn+"/callback/re-arms", p.Pos(cb.Pos()), "every normal path of the callback resets the timer field with idleTime (when it still exists)", "the timer callback can finish without re-arming the timer: idle events stop although idleness persists", p.PathString(path, bad)...)
			// no Reset on anything but the field guarded in the same closure
			for _, f := range core.WithAnon(cb) {
				core.AllInstrs(f, func(x ssa.Instruction) {
					if o := core.CalleeObj(x); o != nil && o.Name() == "Reset" && core.RecvNamed(o) != nil && core.RecvNamed(o).Name() == "Timer" {
						c.Instance("R3")
						c.Check(ir.isResetOnField(x) && ir.lockOf(p, x) != "", "R3", tn+"/callback/reset-on-live-field", p.InstrPos(x), "Reset acts on the timer field, nil-tested under the lock",
							"the callback re-arms a timer value copied earlier / outside the lock: a timer stopped by inactive in between is re-armed (idle period timed after inactive, timer leaked)")
					}
				})
			}
		}

		// ---- R4
		if hi := p.DeclMethod(ir.t, "HandleInactive"); hi != nil {
			c.Instance("R4")
			c.FuncsSeen[p.QName(hi)] = true
			stop := &core.Query{P: p, Pred: func(x ssa.Instruction) bool {
				o := core.CalleeObj(x)
				if o == nil || o.Name() != "Stop" || core.RecvNamed(o) == nil || core.RecvNamed(o).Name() != "Timer" {
					return false
				}
				return isLoadOf(core.CallCommon(x).Args[0], ir.timerF)
			}}
			bad, path := mustPassWithNilTimerExempt(p, &idleEdge{ir}, hi, stop)
			c.Check(bad == nil, "R4", tn+"/HandleInactive/stops-timer", p.Pos(hi.Pos()), "stops the timer on every path where one exists", "inactive can pass the handler without stopping the timer (idle periods keep being timed)", p.PathString(path, bad)...)
			nilTimer := &core.Query{P: p, Pred: func(x ssa.Instruction) bool {
				st, ok := x.(*ssa.Store)
				if !ok {
					return false
				}
				f, _ := core.FieldOf(st.Addr)
				return f == ir.timerF && core.IsNilConst(st.Val)
			}}
			bad, path = mustPassWithNilTimerExempt(p, &idleEdge{ir}, hi, nilTimer)
			c.Check(bad == nil, "R4", tn+"/HandleInactive/clears-timer", p.Pos(hi.Pos()), "nils the timer field", "inactive does not clear the timer field (later Reset re-arms a stopped timer)", p.PathString(path, bad)...)
			nilCtx := &core.Query{P: p, Pred: func(x ssa.Instruction) bool {
				st, ok := x.(*ssa.Store)
				if !ok {
					return false
				}
				f, _ := core.FieldOf(st.Addr)
				return f == ir.ctxF && core.IsNilConst(st.Val)
			}}
			bad, path = nilCtx.MustPassBetween(nil, hi.Blocks[0], nil, core.IsNormalReturn, nil)
			c.Check(bad == nil, "R4", tn+"/HandleInactive/clears-context", p.Pos(hi.Pos()), "nils the cached context", "inactive does not clear the cached context (events delivered after inactive)", p.PathString(path, bad)...)
			forwardOnce(c, p, hi, "HandleInactive", tn, "R4")
		} else {
			c.Bad("R4", tn+"/HandleInactive", "", "HandleInactive not found")
		}

		// ---- R6 lock discipline
		for i := 0; i < ir.t.NumMethods(); i++ {
			m := p.FuncOf(ir.t.Method(i))
			if m == nil || m.Blocks == nil {
				continue
			}
			for _, f := range core.WithAnon(m) {
				core.AllInstrs(f, func(in ssa.Instruction) {
					fa, ok := in.(*ssa.FieldAddr)
					if !ok {
						return
					}
					fv, _ := core.FieldOf(fa)
					if fv != ir.timerF && fv != ir.lastF && fv != ir.ctxF {
						return
					}
					for _, ref := range *fa.Referrers() {
						_, isStore := ref.(*ssa.Store)
						if isStore && ref.(*ssa.Store).Addr != ssa.Value(fa) {
							continue
						}
						c.Instance("R6")
						lk := ir.lockOf(p, ref)
						name := tn + "/" + fv.Name() + "/" + core.FName(f)
						if isStore {
							c.Check(lk == "W", "R6", name+"/write", p.InstrPos(ref), "written under the write lock", "field written without the handler's write lock (lock held: '"+lk+"'): data race with the timer goroutine")
						} else {
							c.Check(lk != "", "R6", name+"/read", p.InstrPos(ref), "read under the lock", "field read without the handler's lock: data race with the read/write path")
						}
					}
				})
				// a plain function that delivers the event on the context it is handed is a call-out as well
				core.AllInstrs(f, func(in ssa.Instruction) {
					call, ok := in.(*ssa.Call)
					if !ok || call.Call.IsInvoke() {
						return
					}
					cal := call.Call.StaticCallee()
					if cal == nil || cal.Parent() != nil || cal.Signature.Recv() != nil || !p.InRepo(cal) {
						return
					}
					tq := &core.Query{P: p, MaxDepth: 2, Pred: func(x ssa.Instruction) bool {
						xc := core.CallCommon(x)
						return xc != nil && xc.IsInvoke() && xc.Method.Name() == "Trigger"
					}}
					if tq.May(cal, nil) {
						c.Instance("R6")
						c.Check(ir.lockOf(p, in) == "", "R6", tn+"/callout-outside-lock/"+core.FName(f)+"/Trigger", p.InstrPos(in), "call-out made outside the handler's lock", "a handler call-out is made while holding the handler's lock (re-entrant events deadlock)")
					}
				})
				// callbacks outside the lock
				core.AllInstrs(f, func(in ssa.Instruction) {
					cc := core.CallCommon(in)
					if cc == nil || !cc.IsInvoke() {
						return
					}
					if cc.Method.Name() == "Trigger" || strings.HasPrefix(cc.Method.Name(), "Handle") {
						c.Instance("R6")
						c.Check(ir.lockOf(p, in) == "", "R6", tn+"/callout-outside-lock/"+core.FName(f)+"/"+cc.Method.Name(), p.InstrPos(in), "call-out made outside the handler's lock", "a handler call-out is made while holding the handler's lock (re-entrant events deadlock)")
					}
				})
			}
		}
	}
	// ---- R5 (shared with C07)
	// recover frames that belong to the idle callbacks: in the callback's closures or in a function it calls
	idleFrames := map[string]bool{}
	for _, ir := range idles {
		if ir.callback == nil {
			continue
		}
		for _, f := range calleesWithin(p, ir.callback, 2) {
			idleFrames["/recover/"+core.FName(f)] = true
		}
	}
	// the idle event is delivered through HandlerContext.Trigger: its own recover frame is part of the route
	if pr := resolvePipe(p); len(pr.errs) == 0 {
		if tf := p.DeclMethod(pr.ctxT, "Trigger"); tf != nil {
			for _, f := range core.WithAnon(tf) {
				idleFrames["/recover/"+core.FName(f)] = true
			}
			for _, f := range calleesWithin(p, tf, 2) {
				idleFrames["/recover/"+core.FName(f)] = true
			}
		}
	}
	importObligations(c, runC07, "R5", func(o *core.Obligation) bool {
		if strings.Contains(o.Key, "ctx-member/Trigger") {
			return true
		}
		if strings.Contains(o.Key, "/recover/") {
			if strings.Contains(o.Key, "IdleHandler") {
				return true
			}
			for k := range idleFrames {
				if strings.HasSuffix(o.Key, k) || strings.Contains(o.Key, k+"$") {
					return true
				}
			}
			return false
		}
		return strings.Contains(o.Key, "timer-trigger") || strings.Contains(o.Key, "recover-not-deferred") || strings.Contains(o.Key, "root/AfterFunc")
	})
	// "at least the configured idle time": the duration the handlers compare with is the one the user configured
	c.Rule("R8", "the idle-duration field is written only by the constructor, with its Duration parameter unchanged", 2)
	for _, ir := range idles {
		tn := ir.t.Obj().Name()
		c.Instance("R8")
		nst := 0
		good, why, pos := true, "", ""
		for _, fn := range p.Funcs {
			core.AllInstrs(fn, func(in ssa.Instruction) {
				st, ok := in.(*ssa.Store)
				if !ok {
					return
				}
				f, _ := core.FieldOf(st.Addr)
				if f != ir.idleF {
					return
				}
				nst++
				top := core.Outermost(fn)
				if top.Signature.Recv() != nil {
					good, why, pos = false, "the idle duration is rewritten after construction by "+core.FName(top), p.InstrPos(in)
					return
				}
				v := stripConv(core.Unwrap(st.Val))
				pi := core.ParamOf(fn, v)
				if pi < 0 || !core.NamedIs(fn.Params[pi].Type(), "time", "Duration") {
					good, why, pos = false, "the constructor stores "+v.String()+" instead of its Duration parameter (rounded, scaled or replaced: the idle event fires earlier or later than configured)", p.InstrPos(in)
				}
			})
		}
		if nst == 0 {
			good, why = false, "no initialisation of the idle-duration field found"
		}
		c.Check(good, "R8", tn+"/idle-duration/unchanged", pos, "initialised once, from the constructor's parameter", why)
	}
	// a routed panic arrives: the pipeline's exception entry point fires on every path
	c.Rule("R9", "FireChannelException delivers on every path (shared with C03-R4)", 1)
	importObligations(c, runC03, "R9", func(o *core.Obligation) bool {
		return o.Rule == "R4" && strings.Contains(o.Key, "fire/FireChannelException")
	})
	// "never after inactive" presupposes the lifecycle order: the channel is handed out (and can be closed) only
	// after the active event, which arms the timers, has been delivered
	c.Rule("R7", "the channel is released to its creator only after the active event was delivered (shared with C05-R4)", 1)
	importObligations(c, runC05, "R7", func(o *core.Obligation) bool { return o.Rule == "R4" })
}

// cellOf: addr is (a captured reference to) a local cell of function top; returns the Alloc.
func cellOf(addr ssa.Value, f *ssa.Function) *ssa.Alloc {
	switch x := addr.(type) {
	case *ssa.Alloc:
		return x
	case *ssa.FreeVar:
		// find binding in parent
		fn := x.Parent()
		par := fn.Parent()
		if par == nil {
			return nil
		}
		idx := -1
		for i, fv := range fn.FreeVars {
			if fv == x {
				idx = i
			}
		}
		var res *ssa.Alloc
		core.AllInstrs(par, func(in ssa.Instruction) {
			if mc, ok := in.(*ssa.MakeClosure); ok && mc.Fn == ssa.Value(fn) && idx >= 0 && idx < len(mc.Bindings) {
				res = cellOf(mc.Bindings[idx], par)
			}
		})
		return res
	}
	return nil
}

// liftToFunc: maps a site in nested closures of top to the instruction in top that calls/creates the closure.
func liftToFunc(p *core.Prog, in ssa.Instruction, top *ssa.Function) (ssa.Instruction, bool) {
	fn := in.Parent()
	for d := 0; d < 6; d++ {
		if fn == top {
			return in, true
		}
		par := fn.Parent()
		if par == nil {
			return nil, false
		}
		var found ssa.Instruction
		core.AllInstrs(par, func(x ssa.Instruction) {
			if mc, ok := x.(*ssa.MakeClosure); ok && mc.Fn == ssa.Value(fn) {
				found = x
				// prefer the call of the closure
				for _, ref := range *mc.Referrers() {
					if cc := core.CallCommon(ref); cc != nil {
						found = ref
					}
				}
			}
		})
		if found == nil {
			return nil, false
		}
		in, fn = found, par
	}
	return nil, false
}

// guardedBySrc: `in` (in fn) runs only when a source value (or the content of a source cell) is true
// (or != nil when nilTest).
func guardedBySrc(fn *ssa.Function, in ssa.Instruction, src map[ssa.Value]bool, nilTest bool) bool {
	for _, ifi := range core.Ifs(fn) {
		cd := core.CondOf(ifi)
		isSrc := func(v ssa.Value) bool {
			v = core.Unwrap(v)
			if src[v] {
				return true
			}
			ld, ok := v.(*ssa.UnOp)
			return ok && ld.Op == token.MUL && src[ld.X]
		}
		var succ *ssa.BasicBlock
		if !nilTest && cd.Op == token.ILLEGAL && isSrc(cd.X) {
			succ = cd.True
		}
		if !nilTest {
			// the comparison itself is the branch condition
			raw := ifi.Cond
			for {
				if u, ok := raw.(*ssa.UnOp); ok && u.Op == token.NOT {
					raw = u.X
					continue
				}
				break
			}
			if src[raw] {
				succ = cd.True
			}
		}
		if nilTest && (cd.Op == token.NEQ || cd.Op == token.EQL) {
			var other ssa.Value
			if isSrc(cd.X) {
				other = cd.Y
			} else if isSrc(cd.Y) {
				other = cd.X
			}
			if other != nil && core.IsNilConst(other) {
				succ = cd.True
				if cd.Op == token.EQL {
					succ = cd.False
				}
			}
		}
		if succ != nil && core.EdgeDominates(ifi.Block(), succ, in.Block()) {
			return true
		}
	}
	return false
}

// isResetOnField: x = (load timerF).Reset(load idleF), nil-guarded on the same field in the same function.
func (ir *idleRoles) isResetOnField(x ssa.Instruction) bool {
	o := core.CalleeObj(x)
	if o == nil || o.Name() != "Reset" || core.RecvNamed(o) == nil || core.RecvNamed(o).Name() != "Timer" {
		return false
	}
	cc := core.CallCommon(x)
	if len(cc.Args) != 2 {
		return false
	}
	rf, _ := core.FieldOf(cc.Args[0])
	if _, isLoad := core.Unwrap(cc.Args[0]).(*ssa.UnOp); !isLoad || rf != ir.timerF {
		return false
	}
	df, _ := core.FieldOf(cc.Args[1])
	if df != ir.idleF {
		return false
	}
	return nonNilGuarded(ir.p, x, cc.Args[0])
}

type idleEdge struct{ ir *idleRoles }

// nilTimerEdges: edges on which the timer field was observed nil.
func (e *idleEdge) nilTimerEdges(fn *ssa.Function) map[edgeKey]bool {
	out := map[edgeKey]bool{}
	for _, f := range core.WithAnon(fn) {
		for _, ifi := range core.Ifs(f) {
			cd := core.CondOf(ifi)
			if cd.Op != token.EQL && cd.Op != token.NEQ {
				continue
			}
			var other ssa.Value
			if fv, _ := core.FieldOf(cd.X); fv == e.ir.timerF {
				other = cd.Y
			} else if fv, _ := core.FieldOf(cd.Y); fv == e.ir.timerF {
				other = cd.X
			}
			if other == nil || !core.IsNilConst(other) {
				continue
			}
			nilSucc := cd.True
			if cd.Op == token.NEQ {
				nilSucc = cd.False
			}
			out[edgeKey{ifi.Block(), nilSucc}] = true
		}
	}
	return out
}

// mustPassWithNilTimerExempt: every path entry->return of fn passes q's event, where inside closures the
// `timer == nil` side is exempt. Implemented by evaluating closures with the exemption and lifting via Must.
func mustPassWithNilTimerExempt(p *core.Prog, e *idleEdge, fn *ssa.Function, q *core.Query) (ssa.Instruction, []*ssa.BasicBlock) {
	nilE := e.nilTimerEdges(fn)
	// closure-level: a closure "satisfies" if every path passes the event or a nil-timer edge
	memo := map[*ssa.Function]bool{}
	satOf := func(f *ssa.Function) bool {
		f = unbound(f) // a method value handed to the lock helper runs the method
		if f == nil || f.Blocks == nil || f == fn || !p.InRepo(f) {
			return false
		}
		if v, ok := memo[f]; ok {
			return v
		}
		nilF := nilE
		if f.Parent() == nil {
			nilF = e.nilTimerEdges(f)
		}
		t, _ := core.Search(nil, f.Blocks[0], func(x ssa.Instruction) core.Action {
			if q.InstrMust(x, nil) {
				return core.Barrier
			}
			if core.IsNormalReturn(x) {
				return core.Target
			}
			return core.Continue
		}, func(a, b *ssa.BasicBlock) bool { return !nilF[edgeKey{a, b}] })
		memo[f] = t == nil
		return t == nil
	}
	q2 := &core.Query{P: p, Pred: func(x ssa.Instruction) bool {
		if q.Pred(x) {
			return true
		}
		// call of a lock helper (or direct call) with a satisfying closure
		if cc := core.CallCommon(x); cc != nil {
			if f := core.FuncValue(cc.Value, nil); f != nil && f.Parent() != nil && satOf(f) {
				return true
			}
			for _, a := range cc.Args {
				if f := core.FuncValue(a, nil); f != nil && satOf(f) {
					if _, isHelper := e.ir.lockHelpers[cc.StaticCallee()]; isHelper {
						return true
					}
				}
			}
		}
		return false
	}}
	return q2.MustPassBetween(nil, fn.Blocks[0], nil, core.IsNormalReturn, func(a, b *ssa.BasicBlock) bool { return !nilE[edgeKey{a, b}] })
}

// forwardOnce: method fn forwards by invoking ctx.<member>(own params) exactly once on every path.
func forwardOnce(c *core.Ctx, p *core.Prog, fn *ssa.Function, member, tn, R string) {
	var calls []ssa.Instruction
	core.AllInstrs(fn, func(in ssa.Instruction) {
		cc := core.CallCommon(in)
		if cc == nil || !cc.IsInvoke() || cc.Method.Name() != member {
			return
		}
		if core.ParamOf(fn, cc.Value) != 1 {
			return
		}
		calls = append(calls, in)
	})
	q := &core.Query{P: p, Pred: func(x ssa.Instruction) bool {
		for _, cl := range calls {
			if cl == x {
				return true
			}
		}
		return false
	}}
	bad, path := q.MustPassBetween(nil, fn.Blocks[0], nil, core.IsNormalReturn, nil)
	okArgs := true
	for _, cl := range calls {
		for ai, a := range core.CallCommon(cl).Args {
			if core.ParamOf(fn, a) != ai+2 {
				okArgs = false
			}
		}
	}
	twice := false
	for _, cl := range calls {
		if t, _ := core.Search(cl, nil, func(x ssa.Instruction) core.Action {
			for _, o := range calls {
				if o == x {
					return core.Target
				}
			}
			return core.Continue
		}, nil); t != nil {
			twice = true
		}
	}
	c.Check(bad == nil && okArgs && !twice && len(calls) > 0, R, tn+"/"+member+"/forwards-once", p.Pos(fn.Pos()), "forwards the event exactly once with its own argument", "the handler does not forward the event exactly once, unmodified, on every path", p.PathString(path, bad)...)
}

// calleesWithin: fn, its closures, and the repository functions they call statically, to the given depth.
func calleesWithin(p *core.Prog, fn *ssa.Function, depth int) []*ssa.Function {
	seen := map[*ssa.Function]bool{}
	var out []*ssa.Function
	var walk func(f *ssa.Function, d int)
	walk = func(f *ssa.Function, d int) {
		for _, g := range core.WithAnon(f) {
			if seen[g] {
				continue
			}
			seen[g] = true
			out = append(out, g)
			if d >= depth {
				continue
			}
			core.AllInstrs(g, func(in ssa.Instruction) {
				if cc := core.CallCommon(in); cc != nil && !cc.IsInvoke() {
					if cal := cc.StaticCallee(); cal != nil && p.InRepo(cal) && cal.Parent() == nil {
						walk(cal, d+1)
					}
				}
			})
		}
	}
	walk(fn, 0)
	return out
}
