package rules

import (
	"go/token"
	"go/types"
	"strings"

	"golang.org/x/tools/go/ssa"
	"verif/checker/internal/core"
)

func init() {
	register(&Property{
		ID:    "C15",
		Title: "HTTP server codec: one well-formed response per request, in order",
		Explanation: "Parse-back equality of responses, header canonicalisation and body framing for every handler program are value/history properties of net/http text and are NOT decided. DECIDES: " +
			"R1 in the request loop every path from the delivery of a request back to the next http.ReadRequest on the same buffered reader drains or closes the previous body; the loop is left only on a read error or after a close request (never because the buffer is momentarily empty: the buffered reader holds pipelined bytes); " +
			"R2 response-writer typestate: the finalising event (returning the pooled bufio.Writer) happens only in Close, is followed by clearing the field on every path, and http.Flusher.Flush does not reach it; the chunked encoder is created when the header is written; " +
			"R3 the adapter creates one response writer per request, calls ServeHTTP once, synchronously, and finishes the response by a deferred call that reaches Close; " +
			"R4 the connection close is requested only when request.Close is set and only after the request was delivered (C06-R4); Close marks request.Close when the response is not self-delimiting (shouldClose: request asked to close, or neither Content-Length nor Transfer-Encoding set); the header is written at most once and before any body byte. " +
			"ALSO: status line prints major.minor in that order; the close decision reads the response's own headers; imports listed in RULES.md. " +
			"DOES NOT DECIDE: status line text, header syntax, chunk framing correctness, HTTP/1.0 keep-alive rules, explicit Content-Length vs actual body size.",
		Assumptions: []string{"net/http.ReadRequest / httputil.NewChunkedWriter behave as documented"},
		Run:         runC15,
	})
}

func runC15(c *core.Ctx) {
	p := c.P
	c.Rule("R1", "request loop drains the previous body and is left only on error / close request", 2)
	c.Rule("R2", "response writer: only Close finalises; field cleared after the pool Put; Flush does not finalise; chunk writer created with the header", 3)
	c.Rule("R3", "adapter: one writer, one synchronous ServeHTTP, deferred finish reaching Close", 2)
	c.Rule("R4", "close decision and header-before-body discipline", 3)
	xp := p.Pkg("codec/xhttp")
	if xp == nil {
		c.Unk("anchors", "ANCHOR-UNRESOLVED", "", "package codec/xhttp not loaded")
		return
	}
	// ---- R1 request loop
	var loopFn *ssa.Function
	var readReq ssa.Instruction
	for _, fn := range p.Funcs {
		if p.PkgRel(fn) != "codec/xhttp" {
			continue
		}
		core.AllInstrs(fn, func(in ssa.Instruction) {
			if core.IsPkgFunc(in, "net/http", "ReadRequest") {
				loopFn, readReq = fn, in
			}
		})
	}
	if loopFn == nil {
		c.Unk("R1", "request-loop", "", "http.ReadRequest call not found in codec/xhttp")
	} else {
		c.FuncsSeen[p.QName(loopFn)] = true
		req := readReq.(ssa.Value)
		var reqVal ssa.Value
		for _, ref := range *req.Referrers() {
			if ex, ok := ref.(*ssa.Extract); ok && ex.Index == 0 {
				reqVal = ex
			}
		}
		var deliver ssa.Instruction
		for _, call := range downstreamCalls(loopFn, "HandleRead") {
			if reqVal != nil && core.Unwrap(call.Call.Args[0]) == reqVal {
				deliver = call
			}
		}
		c.Instance("R1")
		if deliver == nil {
			c.Bad("R1", "request-loop/delivers", p.InstrPos(readReq), "the parsed request is not delivered downstream")
		} else {
			bodyOf := func(v ssa.Value) bool {
				f, base := core.FieldOf(v)
				return f != nil && f.Name() == "Body" && reqVal != nil && core.SameValue(base, reqVal)
			}
			drains := &core.Query{P: p, Pred: func(x ssa.Instruction) bool {
				cc := core.CallCommon(x)
				if cc == nil {
					return false
				}
				if cc.IsInvoke() && cc.Method.Name() == "Close" && bodyOf(cc.Value) {
					return true
				}
				if core.IsPkgFunc(x, "io", "Copy") || core.IsPkgFunc(x, "io", "CopyN") {
					for _, a := range cc.Args {
						if bodyOf(core.Unwrap(a)) {
							return true
						}
					}
				}
				return false
			}}
			t, path := core.Search(deliver, nil, func(x ssa.Instruction) core.Action {
				if drains.InstrMust(x, nil) {
					return core.Barrier
				}
				if x == readReq {
					return core.Target
				}
				return core.Continue
			}, nil)
			c.Check(t == nil, "R1", "request-loop/drains-body", p.InstrPos(deliver), "the previous body is drained / closed before the next request is parsed", "the request loop parses the next request without draining or closing the previous body: unread body bytes are parsed as the next request", p.PathString(path, t)...)
			// the buffered reader feeding ReadRequest lives for the whole connection: it is not re-created per request
			c.Instance("R1")
			perReq := false
			core.AllInstrs(loopFn, func(x ssa.Instruction) {
				if !core.IsPkgFunc(x, "bufio", "NewReader") && !core.IsPkgFunc(x, "bufio", "NewReaderSize") {
					return
				}
				if t, _ := core.Search(x, nil, func(y ssa.Instruction) core.Action {
					if y == x {
						return core.Target
					}
					return core.Continue
				}, nil); t != nil {
					perReq = true
				}
			})
			c.Check(!perReq, "R1", "request-loop/one-buffered-reader", p.InstrPos(readReq), "one buffered reader per connection, created outside the request loop", "the buffered reader is re-created for every request: bytes it read ahead (a pipelined request in the same transport read) are thrown away")
			// exits: every normal return after the first ReadRequest is on the request.Close side
			c.Instance("R1")
			closeEdge := map[edgeKey]bool{}
			for _, ifi := range core.Ifs(loopFn) {
				cd := core.CondOf(ifi)
				if cd.Op == token.ILLEGAL {
					if f, base := core.FieldOf(cd.X); f != nil && f.Name() == "Close" && reqVal != nil && core.SameValue(base, reqVal) {
						closeEdge[edgeKey{ifi.Block(), cd.True}] = true
					}
				}
			}
			t, path = core.Search(deliver, nil, func(x ssa.Instruction) core.Action {
				if core.IsNormalReturn(x) {
					return core.Target
				}
				return core.Continue
			}, func(a, b *ssa.BasicBlock) bool { return !closeEdge[edgeKey{a, b}] })
			c.Check(t == nil, "R1", "request-loop/exit-only-on-close", p.InstrPos(deliver), "after serving a request the loop continues unless the request asked to close", "the request loop can return after serving a request that did not ask to close: the per-connection buffered reader (with any pipelined request already read into it) is thrown away", p.PathString(path, t)...)
		}
	}

	// ---- R2 response writer
	var rw *types.Named
	var writerF, chunkF, wroteF *types.Var
	for _, st := range p.StructTypes("codec/xhttp") {
		for _, f := range fieldsOfNamed(st) {
			if isPtrTo(f.Type(), "bufio", "Writer") {
				rw, writerF = st, f
			}
		}
	}
	if rw == nil {
		c.Unk("R2", "response-writer", "", "response writer type (struct with a *bufio.Writer field) not found")
		return
	}
	for _, f := range fieldsOfNamed(rw) {
		if core.NamedIs(f.Type(), "io", "WriteCloser") {
			chunkF = f
		}
		if isBool(f.Type()) {
			wroteF = f
		}
	}
	poolPut := func(x ssa.Instruction) bool {
		o := core.CalleeObj(x)
		return o != nil && o.Name() == "Put" && core.RecvNamed(o) != nil && core.RecvNamed(o).Name() == "Pool" && o.Pkg() != nil && o.Pkg().Path() == "sync"
	}
	var finalisers []*ssa.Function
	for i := 0; i < rw.NumMethods(); i++ {
		fn := p.FuncOf(rw.Method(i))
		if fn == nil {
			continue
		}
		has := false
		core.AllInstrs(fn, func(in ssa.Instruction) {
			if poolPut(in) {
				has = true
			}
		})
		if has {
			finalisers = append(finalisers, fn)
		}
	}
	c.Instance("R2")
	okFin := len(finalisers) == 1 && finalisers[0].Name() == "Close"
	names := []string{}
	for _, f := range finalisers {
		names = append(names, f.Name())
	}
	c.Check(okFin, "R2", "response-writer/finaliser", "", "only Close returns the buffered writer to the pool", "the pooled writer is released by "+strings.Join(names, ",")+" (want: Close only)")
	if len(finalisers) > 0 {
		fin := finalisers[0]
		c.FuncsSeen[p.QName(fin)] = true
		core.AllInstrs(fin, func(in ssa.Instruction) {
			if !poolPut(in) {
				return
			}
			c.Instance("R2")
			q := &core.Query{P: p, Pred: func(x ssa.Instruction) bool {
				st, ok := x.(*ssa.Store)
				if !ok {
					return false
				}
				f, _ := core.FieldOf(st.Addr)
				return f == writerF && core.IsNilConst(st.Val)
			}}
			bad, path := q.MustPassBetween(in, nil, nil, core.IsNormalReturn, nil)
			c.Check(bad == nil, "R2", "response-writer/cleared-after-put", p.InstrPos(in), "the writer field is cleared after it was returned to the pool", "the writer field is not cleared after the pool Put: a second finish puts the same bufio.Writer into the pool twice and two connections share it", p.PathString(path, bad)...)
			// idempotent: Put is guarded by writer != nil
			guarded := false
			for _, ifi := range core.Ifs(fin) {
				cd := core.CondOf(ifi)
				for _, side := range [][2]ssa.Value{{cd.X, cd.Y}, {cd.Y, cd.X}} {
					if f, _ := core.FieldOf(side[0]); f == writerF && core.IsNilConst(side[1]) {
						nn := cd.True
						if cd.Op == token.EQL {
							nn = cd.False
						}
						if core.EdgeDominates(ifi.Block(), nn, in.Block()) || nn.Dominates(in.Block()) {
							guarded = true
						}
					}
				}
			}
			c.Check(guarded, "R2", "response-writer/finish-idempotent", p.InstrPos(in), "finishing twice is a no-op (writer nil-tested)", "finishing the response twice dereferences / re-pools a released writer")
		})
	}
	// Flush does not finalise
	if fl := p.DeclMethod(rw, "Flush"); fl != nil {
		c.Instance("R2")
		c.FuncsSeen[p.QName(fl)] = true
		q := &core.Query{P: p, MaxDepth: 3, Pred: poolPut}
		c.Check(!q.May(fl, nil), "R2", "response-writer/flush-does-not-finalise", p.Pos(fl.Pos()), "http.Flusher.Flush only flushes", "Flush finalises the response (releases the pooled writer): a handler that flushes and keeps writing dereferences a nil writer")
		// dereferences of the writer field in Flush / Write are nil-safe or unreachable after finalise: Flush tests the field
		guarded := false
		for _, ifi := range core.Ifs(fl) {
			cd := core.CondOf(ifi)
			for _, side := range [][2]ssa.Value{{cd.X, cd.Y}, {cd.Y, cd.X}} {
				if f, _ := core.FieldOf(side[0]); f == writerF && core.IsNilConst(side[1]) {
					guarded = true
				}
			}
		}
		c.Check(guarded, "R2", "response-writer/flush-nil-safe", p.Pos(fl.Pos()), "Flush tests the writer field before using it", "Flush dereferences the writer field without a nil test (the adapter's deferred finish runs after a finished response)")
	}
	// chunk writer created in WriteHeader
	if chunkF != nil {
		c.Instance("R2")
		var creators []string
		for i := 0; i < rw.NumMethods(); i++ {
			fn := p.FuncOf(rw.Method(i))
			if fn == nil {
				continue
			}
			for _, st := range core.StoresToField(fn, chunkF) {
				if !core.IsNilConst(st.Val) {
					creators = append(creators, fn.Name())
				}
			}
		}
		c.Check(len(creators) == 1 && creators[0] == "WriteHeader", "R2", "response-writer/chunk-writer-with-header", "", "the chunked encoder is created when the header is written", "the chunked encoder is created in "+strings.Join(creators, ",")+" instead of WriteHeader: a chunked response without body bytes is never terminated (no 0-length chunk), the client hangs")
	}
	// header once, before body
	if wh := p.DeclMethod(rw, "WriteHeader"); wh != nil && wroteF != nil {
		c.Instance("R4")
		c.FuncsSeen[p.QName(wh)] = true
		// all writes to the bufio writer in WriteHeader are on the !wroteHeader side
		okOnce := true
		core.AllInstrs(wh, func(in ssa.Instruction) {
			cc := core.CallCommon(in)
			if cc == nil {
				return
			}
			touches := false
			for _, a := range cc.Args {
				if f, _ := core.FieldOf(core.Unwrap(a)); f == writerF {
					touches = true
				}
			}
			if !touches {
				return
			}
			g := false
			for _, ifi := range core.Ifs(wh) {
				cd := core.CondOf(ifi)
				if cd.Op == token.ILLEGAL {
					if f, _ := core.FieldOf(cd.X); f == wroteF && core.EdgeDominates(ifi.Block(), cd.False, in.Block()) {
						g = true
					}
				}
			}
			if !g {
				okOnce = false
			}
		})
		c.Check(okOnce, "R4", "response-writer/header-once", p.Pos(wh.Pos()), "the header is written only while wroteHeader is false", "the status line / headers can be written more than once")
	}
	// the finaliser forces the header before it looks at the chunk writer: the chunked encoder only exists once
	// the header was written, so a finaliser that tests it first never terminates an empty chunked response
	if cl := p.DeclMethod(rw, "Close"); cl != nil && wroteF != nil && chunkF != nil {
		wh := p.DeclMethod(rw, "WriteHeader")
		c.Instance("R4")
		headerQ := &core.Query{P: p, MaxDepth: 3, Pred: func(x ssa.Instruction) bool {
			cc := core.CallCommon(x)
			return cc != nil && wh != nil && cc.StaticCallee() == wh
		}}
		var early func(fn *ssa.Function, depth int) (ssa.Instruction, []*ssa.BasicBlock)
		early = func(fn *ssa.Function, depth int) (ssa.Instruction, []*ssa.BasicBlock) {
			wroteTrue := map[edgeKey]bool{}
			for _, ifi := range core.Ifs(fn) {
				cd := core.CondOf(ifi)
				if cd.Op == token.ILLEGAL {
					if f, _ := core.FieldOf(cd.X); f == wroteF {
						wroteTrue[edgeKey{ifi.Block(), cd.True}] = true
					}
				}
			}
			return core.Search(nil, fn.Blocks[0], func(x ssa.Instruction) core.Action {
				if headerQ.InstrMust(x, nil) {
					return core.Barrier
				}
				if ld, ok := x.(*ssa.UnOp); ok && ld.Op == token.MUL {
					if f, _ := core.FieldOf(ld); f == chunkF {
						return core.Target
					}
				}
				if call, ok := x.(*ssa.Call); ok && !call.Call.IsInvoke() && depth < 3 {
					if g := call.Call.StaticCallee(); g != nil && g != wh && p.InRepo(g) && g.Blocks != nil && g.Signature.Recv() != nil {
						if t, _ := early(g, depth+1); t != nil {
							return core.Target
						}
					}
				}
				return core.Continue
			}, func(a, b *ssa.BasicBlock) bool { return !wroteTrue[edgeKey{a, b}] })
		}
		t, path := early(cl, 0)
		c.Check(t == nil, "R4", "response-writer/header-before-finish", p.Pos(cl.Pos()), "Close forces the header before it consults the chunk writer", "Close looks at the chunk writer before the header was forced: for a handler that wrote nothing the chunked encoder does not exist yet and the terminating chunk is never sent (the next response on the connection is parsed as chunk data)", p.PathString(path, t)...)
	}
	if wr := p.DeclMethod(rw, "Write"); wr != nil && wroteF != nil {
		c.Instance("R4")
		// every path to a body write passes WriteHeader or the wroteHeader==true edge
		wh := p.DeclMethod(rw, "WriteHeader")
		isBodyWrite := func(x ssa.Instruction) bool {
			cc := core.CallCommon(x)
			if cc == nil {
				return false
			}
			if o := core.CalleeObj(x); o != nil && o.Name() == "Write" {
				if f, _ := core.FieldOf(cc.Args[0]); f == writerF {
					return true
				}
			}
			if cc.IsInvoke() && cc.Method.Name() == "Write" {
				if f, _ := core.FieldOf(cc.Value); f == chunkF && chunkF != nil {
					return true
				}
			}
			return false
		}
		wroteTrue := map[edgeKey]bool{}
		for _, ifi := range core.Ifs(wr) {
			cd := core.CondOf(ifi)
			if cd.Op == token.ILLEGAL {
				if f, _ := core.FieldOf(cd.X); f == wroteF {
					wroteTrue[edgeKey{ifi.Block(), cd.True}] = true
				}
			}
		}
		t, _ := core.Search(nil, wr.Blocks[0], func(x ssa.Instruction) core.Action {
			if cc := core.CallCommon(x); cc != nil && cc.StaticCallee() == wh && wh != nil {
				return core.Barrier
			}
			if isBodyWrite(x) {
				return core.Target
			}
			return core.Continue
		}, func(a, b *ssa.BasicBlock) bool { return !wroteTrue[edgeKey{a, b}] })
		c.Check(t == nil, "R4", "response-writer/header-before-body", p.Pos(wr.Pos()), "every body write is preceded by the header", "a body byte can be written before the status line and headers")
	}
	// shouldClose shape and request.Close marking
	if fin := p.DeclMethod(rw, "Close"); fin != nil {
		c.Instance("R4")
		marks := false
		core.AllInstrs(fin, func(in ssa.Instruction) {
			if st, ok := in.(*ssa.Store); ok {
				if f, _ := core.FieldOf(st.Addr); f != nil && f.Name() == "Close" {
					if k, ok := st.Val.(*ssa.Const); ok && constBool(k) {
						marks = true
					}
				}
			}
		})
		sc := p.DeclMethod(rw, "shouldClose")
		shape := false
		if sc != nil {
			// true when request.Close; true when both Content-Length and Transfer-Encoding are empty
			usesClose, usesCL, usesTE := false, false, false
			core.AllInstrs(sc, func(in ssa.Instruction) {
				if ld, ok := in.(*ssa.UnOp); ok {
					if f, _ := core.FieldOf(ld); f != nil && f.Name() == "Close" {
						usesClose = true
					}
				}
				if cc := core.CallCommon(in); cc != nil {
					for _, a := range cc.Args {
						if k, ok := a.(*ssa.Const); ok && k.Value != nil {
							s := strings.Trim(k.Value.ExactString(), "\"")
							if strings.EqualFold(s, "Content-Length") {
								usesCL = true
							}
							if strings.EqualFold(s, "Transfer-Encoding") {
								usesTE = true
							}
						}
					}
				}
			})
			shape = usesClose && usesCL && usesTE
			// the framing headers looked at are the RESPONSE's (what this writer sends), not the request's
			c.Instance("R4")
			reqHdr := ""
			core.AllInstrs(sc, func(in ssa.Instruction) {
				cc := core.CallCommon(in)
				if cc == nil || cc.IsInvoke() || len(cc.Args) < 2 {
					return
				}
				o := core.CalleeObj(in)
				if o == nil || o.Pkg() == nil || o.Pkg().Path() != "net/http" || o.Name() != "Get" {
					return
				}
				recv := core.Unwrap(core.ForwardLoad(core.Unwrap(cc.Args[0])))
				if fv, _ := core.FieldOf(recv); fv != nil && fv.Pkg() != nil && fv.Pkg().Path() == "net/http" {
					reqHdr = p.InstrPos(in)
				}
			})
			c.Check(reqHdr == "", "R4", "response-writer/close-decision/response-headers", p.Pos(sc.Pos()), "the decision reads the response's own headers", "the close decision reads Content-Length / Transfer-Encoding from the REQUEST ("+reqHdr+"): a request with a body answered without a length is kept open (client waits for the end of the body), a sized answer to a bodiless request closes the connection under pipelined requests")
		}
		// status line: HTTP/<major>.<minor> in that order
		if wh := p.DeclMethod(rw, "WriteHeader"); wh != nil {
			c.Instance("R4")
			good, found := true, false
			for _, f := range core.WithAnon(wh) {
				core.AllInstrs(f, func(in ssa.Instruction) {
					cc := core.CallCommon(in)
					if cc == nil || !core.IsPkgFunc(in, "fmt", "Fprintf") || len(cc.Args) < 3 {
						return
					}
					k, ok := cc.Args[1].(*ssa.Const)
					if !ok || k.Value == nil || !strings.Contains(k.Value.ExactString(), "HTTP/%d.%d") {
						return
					}
					found = true
					sl, ok := cc.Args[2].(*ssa.Slice)
					if !ok {
						return
					}
					al, ok := sl.X.(*ssa.Alloc)
					if !ok || al.Referrers() == nil {
						return
					}
					names := map[int64]string{}
					for _, ref := range *al.Referrers() {
						ia, ok := ref.(*ssa.IndexAddr)
						if !ok || ia.Referrers() == nil {
							continue
						}
						idx, isC := core.ConstInt(ia.Index)
						if !isC {
							continue
						}
						for _, r2 := range *ia.Referrers() {
							if st, ok := r2.(*ssa.Store); ok && st.Addr == ssa.Value(ia) {
								if fv, _ := core.FieldOf(core.Unwrap(st.Val)); fv != nil {
									names[idx] = fv.Name()
								}
							}
						}
					}
					if names[0] == "ProtoMinor" || names[1] == "ProtoMajor" {
						good = false
					}
				})
			}
			_ = found
			c.Check(good, "R4", "response-writer/status-line/version-order", p.Pos(wh.Pos()), "HTTP/<major>.<minor>", "the status line prints the protocol version as minor.major: an HTTP/1.0 request is answered HTTP/0.1 (malformed)")
		}

		c.Check(marks && shape, "R4", "response-writer/close-decision", p.Pos(fin.Pos()), "Close marks request.Close when the request asked to close or the response is not self-delimiting", "the close decision does not consider request.Close, Content-Length and Transfer-Encoding, or never marks the request for closing")
	}

	// ---- R3 adapter
	for _, fn := range p.Funcs {
		if p.PkgRel(fn) != "codec/xhttp" || fn.Parent() != nil {
			continue
		}
		var serve ssa.Instruction
		core.AllInstrs(fn, func(in ssa.Instruction) {
			if cc := core.CallCommon(in); cc != nil && cc.IsInvoke() && cc.Method.Name() == "ServeHTTP" {
				serve = in
			}
		})
		if serve == nil {
			continue
		}
		c.Instance("R3")
		c.FuncsSeen[p.QName(fn)] = true
		_, isGo := serve.(*ssa.Go)
		inLoop := false
		if t, _ := core.Search(serve, nil, func(x ssa.Instruction) core.Action {
			if x == serve {
				return core.Target
			}
			return core.Continue
		}, nil); t != nil {
			inLoop = true
		}
		c.Check(!isGo && !inLoop, "R3", "adapter/serve-once-synchronously", p.InstrPos(serve), "ServeHTTP is called once, synchronously", "ServeHTTP runs asynchronously or repeatedly: responses are no longer produced one per request in arrival order")
		// deferred finish that reaches Close of the response writer, registered before ServeHTTP
		c.Instance("R3")
		fin := false
		core.AllInstrs(fn, func(in ssa.Instruction) {
			d, ok := in.(*ssa.Defer)
			if !ok || !core.Dominates(d, serve) {
				return
			}
			reach := &core.Query{P: p, MaxDepth: 3, Pred: func(x ssa.Instruction) bool {
				cc := core.CallCommon(x)
				if cc == nil {
					return false
				}
				if cc.IsInvoke() && (cc.Method.Name() == "Close") {
					return true
				}
				return cc.StaticCallee() != nil && cc.StaticCallee().Name() == "Close" && core.RecvNamed(core.CalleeObj(x)) != nil && core.RecvNamed(core.CalleeObj(x)).Name() == rw.Obj().Name()
			}}
			if f := core.FuncValue(d.Call.Value, nil); f != nil && reach.May(f, nil) {
				fin = true
			}
			if reach.Pred(d) {
				fin = true
			}
		})
		c.Check(fin, "R3", "adapter/deferred-finish", p.InstrPos(serve), "the response is finished by a deferred call registered before ServeHTTP (runs on panic too)", "the adapter does not finish the response (Close) in a deferred call registered before ServeHTTP: a panicking or early-returning handler leaves the response unfinished / the pooled writer leaked")
	}
	importObligations(c, runC06, "R4", func(o *core.Obligation) bool {
		return strings.Contains(o.Key, "http-close-after-delivery") || o.Rule == "R1" || o.Rule == "R2"
	})
	// responses go through the channel's write path (queue / lock / flush), never straight to the transport
	c.Rule("R5", "the response is written through the channel's write path, not straight to the transport (shared with C01-R3)", 1)
	importObligations(c, runC01, "R5", func(o *core.Obligation) bool {
		return o.Rule == "R3" && (strings.Contains(o.Key, "transport-as-writer") || strings.Contains(o.Key, "codec/xhttp") || strings.Contains(o.Key, "enqueuer/"))
	})
	// the response bytes the writer hands down reach the wire as written: buffers entering the queue are private
	// and not recycled while queued (C10), the transport wrappers keep one write sink (C17-R1)
	c.Rule("R6", "response bytes are not altered or reordered below the codec: private queue buffers, one write sink (shared with C10-R1/R4/R6, C17-R1)", 3)
	importObligations(c, runC10, "R6", func(o *core.Obligation) bool { return o.Rule == "R1" || o.Rule == "R4" || o.Rule == "R6" })
	importObligations(c, runC17, "R6", func(o *core.Obligation) bool { return o.Rule == "R1" || o.Rule == "R5" })
	importObligations(c, runC02, "R6", func(o *core.Obligation) bool { return o.Rule == "R7" })
	// the close request is issued only under request.Close
	if loopFn != nil {
		hc := lookupNamedT(p.TPkg(""), "HandlerContext")
		core.AllInstrs(loopFn, func(in ssa.Instruction) {
			if hc == nil || !ifaceInvoke(in, hc, "Close") {
				return
			}
			c.Instance("R4")
			g := false
			for _, ifi := range core.Ifs(loopFn) {
				cd := core.CondOf(ifi)
				if cd.Op == token.ILLEGAL {
					if f, _ := core.FieldOf(cd.X); f != nil && f.Name() == "Close" && core.EdgeDominates(ifi.Block(), cd.True, in.Block()) {
						g = true
					}
				}
			}
			c.Check(g, "R4", "request-loop/close-only-when-requested", p.InstrPos(in), "the connection close is requested only when request.Close is set", "the connection is closed although the request did not ask for it and the response is self-delimiting")
		})
	}
}
