package rules

import (
	"fmt"
	"go/token"
	"go/types"
	"strings"

	"golang.org/x/tools/go/ssa"
	"verif/checker/internal/core"
)

func init() {
	register(&Property{
		ID:    "C08",
		Title: "Frame decoders never deliver a truncated, oversized or phantom frame",
		Explanation: "'For any byte stream' quantifies over inputs; DECIDED are the clauses about what a decoder does before it delivers, on every path: " +
			"R1 every wire-derived length (result of the length unpacker, of binary.ReadUvarint) that reaches a sink (the count of an exact/limit reader, CopyN, make) is bounded from above by the configured maximum on the value after its last arithmetic, without a sign-flipping conversion in between, and from below by its header size / zero; " +
			"R2 configuration values used as sizes or slice bounds by a decoder are validated by an assertion in the constructor; R3 every loop of a decoder passes a read of the source whose error reaches a guard (no spinning at end-of-stream) and is bounded by the configured maximum; " +
			"R4 no frame is delivered on the strength of a declared length alone: what is handed downstream is a fully read buffer or an exact-length reader (io.ErrUnexpectedEOF on early end), never a bare io.LimitReader over the source, directly or inside io.MultiReader; " +
			"R5 no error of a read (Read, ReadFull, ReadUvarint, CopyN, ReadFrom, ReadAll, ToBytes/ToReader) is dropped in codec/* and utils; R6 no slice bound of the form len(a)-len(b) without a dominating len(a) >= len(b) guard (no runtime fault on short input). " +
			"ALSO: other consumers of the exact-length reader (e.g. a WriteTo) report truncation on the count still owed after their own reads. " +
			"ALSO (round 6): The accumulating decoder loop reads another byte only while the length is strictly below the maximum. " +
			"DOES NOT DECIDE: behaviour on specific adversarial strings beyond the guards, that the next handler drains the lazy body, int overflow of configuration arithmetic on 32-bit.",
		Assumptions: []string{"read errors raised as panics are routed to exceptions and close the channel (C07)"},
		Run:         runC08,
	})
}

// wireSource: v is a length that comes off the wire.
func wireSource(p *core.Prog, v ssa.Value) bool {
	v = stripConv(v)
	switch x := v.(type) {
	case *ssa.Call:
		if core.IsPkgFunc(x, "encoding/binary", "ReadUvarint") || core.IsPkgFunc(x, "encoding/binary", "ReadVarint") {
			return true
		}
		// byteOrder.UintNN(buf): an integer straight off the wire
		if x.Call.IsInvoke() && strings.HasPrefix(x.Call.Method.Name(), "Uint") {
			if rn := core.RecvNamed(x.Call.Method); rn != nil && rn.Pkg() != nil && rn.Pkg().Path() == "encoding/binary" {
				return true
			}
			if core.NamedIs(x.Call.Value.Type(), "encoding/binary", "ByteOrder") {
				return true
			}
		}
		if f := x.Call.StaticCallee(); f != nil && p.InRepo(f) {
			// unpacker: repo function that reads UintNN through a ByteOrder
			is := false
			core.AllInstrs(f, func(in ssa.Instruction) {
				if cc := core.CallCommon(in); cc != nil && cc.IsInvoke() && strings.HasPrefix(cc.Method.Name(), "Uint") {
					is = true
				}
			})
			if is {
				return true
			}
			// helper returning a wire-derived value
			for _, r := range throughReturns(p, x) {
				if r.val != ssa.Value(x) && wireSourceD(p, r.val, 1) {
					return true
				}
			}
			return false
		}
	case *ssa.Extract:
		if c, ok := x.Tuple.(*ssa.Call); ok {
			if f := c.Call.StaticCallee(); f != nil && p.InRepo(f) && !core.IsPkgFunc(c, "encoding/binary", "ReadUvarint") {
				for _, r := range throughReturns(p, x) {
					if wireSourceD(p, r.val, 1) {
						return true
					}
				}
				return false
			}
		}
		return wireSource(p, x.Tuple)
	case *ssa.BinOp:
		return wireSource(p, x.X) || wireSource(p, x.Y)
	case *ssa.Phi:
		for _, e := range x.Edges {
			if wireSource(p, e) {
				return true
			}
		}
	}
	return false
}

func wireSourceD(p *core.Prog, v ssa.Value, d int) bool {
	if d > 3 {
		return false
	}
	return wireSource(p, v)
}

// isConfig: v is derived only from receiver fields / constants.
func isConfig(v ssa.Value, recv ssa.Value, d int) bool {
	if d > 6 {
		return false
	}
	v = stripConv(v)
	switch x := v.(type) {
	case *ssa.Const:
		return true
	case *ssa.UnOp:
		if f, base := core.FieldOf(x); f != nil && core.SameValue(base, recv) {
			return true
		}
	case *ssa.BinOp:
		return isConfig(x.X, recv, d+1) && isConfig(x.Y, recv, d+1)
	case *ssa.Call:
		if args, ok := core.IsBuiltinCall(x, "len"); ok {
			return isConfig(args[0], recv, d+1)
		}
	case *ssa.MakeSlice:
		return isConfig(x.Len, recv, d+1) // len(make([]byte, n)) is n
	}
	return false
}

// lenOfMake: len(make([]T, n)) -> n (through a slice of the whole buffer); otherwise v.
func lenOfMake(v ssa.Value) ssa.Value {
	if a, ok := lenArg(v); ok {
		if mk, ok := core.Unwrap(a).(*ssa.MakeSlice); ok {
			return mk.Len
		}
	}
	return v
}

func runC08(c *core.Ctx) {
	p := c.P
	c.Rule("R1", "wire-derived lengths are bounded (after their last arithmetic, no sign flip) before use", 1)
	c.Rule("R2", "configuration used as size/bound is validated at construction", 3)
	c.Rule("R3", "every decoder loop consumes checked input and is bounded", 1)
	c.Rule("R4", "nothing is delivered on a declared length alone (no bare LimitReader downstream)", 4)
	c.Rule("R5", "no read error is dropped", 8)
	c.Rule("R6", "no unchecked len(a)-len(b) slice bound", 1)
	// the decoders rely on two things outside codec/frame: a read failure in the middle of a frame ends the
	// channel (the tail handler closes on every unhandled exception, C03-R4), and the bytes the transport wrapper
	// hands up are the stream in order (one read source per wrapper, C17-R2)
	c.Rule("R8", "an unhandled read failure closes the channel; the transport wrappers deliver the stream in order (shared with C03-R4, C17-R2)", 2)
	importObligations(c, runC03, "R8", func(o *core.Obligation) bool { return o.Rule == "R4" && strings.Contains(o.Key, "tail-handler") })
	importObligations(c, runC17, "R8", func(o *core.Obligation) bool { return o.Rule == "R2" })
	codecs := frameCodecs(p)

	// ---- R1
	for _, fc := range codecs {
		if fc.read == nil {
			continue
		}
		fn := fc.read
		c.FuncsSeen[p.QName(fn)] = true
		recv := fn.Params[0]
		// the bound must be configuration: a load of an int field of the codec (possibly converted)
		isMax := func(m ssa.Value) bool {
			f, _ := core.FieldOf(stripConv(m))
			if f == nil || !isIntT(f.Type()) {
				return false
			}
			for _, cf := range fieldsOfNamed(fc.t) {
				if cf == f {
					return true
				}
			}
			return false
		}
		core.AllInstrs(fn, func(in ssa.Instruction) {
			var sink ssa.Value
			what := ""
			cc := core.CallCommon(in)
			switch {
			case cc != nil && !cc.IsInvoke() && (core.IsPkgFunc(in, "io", "LimitReader") || isPkgRelFunc(p, in, "utils", "ExactReader")):
				sink, what = cc.Args[1], "reader count"
			case cc != nil && core.IsPkgFunc(in, "io", "CopyN"):
				sink, what = cc.Args[2], "CopyN count"
			}
			if mk, ok := in.(*ssa.MakeSlice); ok {
				sink, what = mk.Len, "make length"
			}
			if sink == nil || !wireSource(p, sink) {
				return
			}
			c.Instance("R1")
			name := fmt.Sprintf("wire-length/%s/%s", fc.t.Obj().Name(), strings.ReplaceAll(what, " ", "-"))
			// upper chain: strip conversions that keep the sign and subtractions of config
			v := sink
			signFlip := ""
			var chain []ssa.Value
			for d := 0; d < 8; d++ {
				chain = append(chain, v)
				switch x := v.(type) {
				case *ssa.Convert:
					if signedness(x.Type()) == 1 && signedness(x.X.Type()) == 2 && intBits(x.Type()) <= intBits(x.X.Type()) {
						signFlip = "unsigned->signed conversion at " + p.InstrPos(x)
					}
					v = x.X
					continue
				case *ssa.BinOp:
					if x.Op == token.SUB && isConfig(x.Y, recv, 0) {
						v = x.X
						continue
					}
				}
				break
			}
			upper := false
			var upperOn ssa.Value
			for _, cv := range chain {
				if boundedAbove(p, in, cv, isMax) {
					upper, upperOn = true, cv
					break
				}
			}
			if upper && signFlip != "" {
				// the bound must have been established on the unsigned value (before the flip), or the signed value also has a lower bound
				if signedness(upperOn.Type()) == 1 {
					lowerOK := boundedBelow(p, in, upperOn, func(l ssa.Value) bool { return true })
					if !lowerOK {
						upper = false
					}
				}
			}
			c.Check(upper, "R1", name+"/upper-bound", p.InstrPos(in), "bounded by the configured maximum on the final value",
				"a wire-derived length reaches the "+what+" without an upper bound by the configured maximum on its final value (bound taken before the adjustment, after a sign-flipping conversion, or missing): oversized / phantom frames")
			// lower bound
			lower := false
			switch x := sink.(type) {
			case *ssa.BinOp:
				if x.Op == token.SUB {
					lower = boundedBelow(p, in, x.X, func(l ssa.Value) bool { return core.SameValue(stripConv(l), stripConv(x.Y)) || sameConfigExpr(l, x.Y) })
				}
			}
			if !lower {
				// unsigned source with an upper bound below 2^63, or explicit >= 0 guard
				src := stripConv(sink)
				if signedness(src.Type()) == 2 && upper {
					lower = true
				}
				if boundedBelow(p, in, sink, func(l ssa.Value) bool { k, ok := core.ConstInt(stripConv(l)); return ok && k == 0 }) {
					lower = true
				}
			}
			c.Check(lower, "R1", name+"/lower-bound", p.InstrPos(in), "cannot be negative", "a wire-derived length can be negative when it reaches the "+what+" (runtime fault or empty phantom frame)")
			// a sign-flipping conversion of a wire value (uint64 -> int64, possibly inside the unpacking helper):
			// the value is negative for the top half of the unsigned range. It must be tested for that BEFORE
			// any addition (an adjustment added first lifts a huge length field back into the valid range), or
			// bounded above while still unsigned.
			for v := range taintBack(sink) {
				flips := flipSites(p, v)
				if len(flips) == 0 {
					continue
				}
				c.Instance("R1")
				nonNeg := func(l ssa.Value) bool { k, ok := core.ConstInt(stripConv(l)); return ok && k >= 0 }
				okFlip := boundedBelow(p, in, v, nonNeg)
				if !okFlip {
					// the test may be on a copy of the converted value: a φ that merges it (a switch over the
					// field width), never an arithmetic result
					seenA := map[ssa.Value]bool{v: true}
					work := []ssa.Value{v}
					for len(work) > 0 && !okFlip {
						x := work[len(work)-1]
						work = work[:len(work)-1]
						if x.Referrers() == nil {
							continue
						}
						for _, ref := range *x.Referrers() {
							if phi, ok := ref.(*ssa.Phi); ok && !seenA[phi] {
								seenA[phi] = true
								work = append(work, phi)
								if boundedBelow(p, in, phi, nonNeg) {
									okFlip = true
								}
							}
						}
					}
				}
				if !okFlip {
					okFlip = true
					for _, cv := range flips {
						if !boundedAbove(p, cv, cv.X, func(ssa.Value) bool { return true }) {
							okFlip = false
						}
					}
				}
				c.Check(okFlip, "R1", name+"/sign-before-arithmetic", p.InstrPos(in), "the converted wire value is tested for negativity before any arithmetic (or bounded while unsigned)",
					"a wire value converted from unsigned to signed at "+p.InstrPos(flips[0])+" is not tested for negativity before arithmetic is applied to it: a length field in the top half of the unsigned range, plus a positive adjustment, passes the later range checks (phantom frame)")
			}
		})
	}

	// ---- R2 constructor validation
	for _, fn := range p.Funcs {
		if p.PkgRel(fn) != "codec/frame" || fn.Parent() != nil || fn.Object() == nil || !fn.Object().Exported() || fn.Signature.Recv() != nil {
			continue
		}
		// which struct does it build, and which int/string params go to which fields
		core.AllInstrs(fn, func(in ssa.Instruction) {
			st, ok := in.(*ssa.Store)
			if !ok {
				return
			}
			f, base := core.FieldOf(st.Addr)
			if f == nil {
				return
			}
			if _, isAlloc := base.(*ssa.Alloc); !isAlloc {
				return
			}
			// parameter flowing (through conversion) into the field
			pi := -1
			for v := range taintBack(st.Val) {
				if i := core.ParamOf(fn, v); i >= 0 {
					pi = i
				}
			}
			if pi < 0 {
				return
			}
			// is the field used as size / bound in a decoder of that struct?
			var owner *types.Named
			if pt, ok := base.Type().(*types.Pointer); ok {
				owner, _ = types.Unalias(pt.Elem()).(*types.Named)
			}
			if owner == nil {
				return
			}
			// a settings struct filled in a local and copied by value into the codec belongs to the codec
			for d := 0; d < 3 && p.DeclMethod(owner, "HandleRead") == nil; d++ {
				outer := containerOf(base)
				if outer == nil {
					break
				}
				pt, ok := outer.Type().(*types.Pointer)
				if !ok {
					break
				}
				on, _ := types.Unalias(pt.Elem()).(*types.Named)
				if on == nil {
					break
				}
				owner, base = on, outer
			}
			hr := p.DeclMethod(owner, "HandleRead")
			if hr == nil || !fieldUsedAsBound(hr, f) && !paramUsedAsBound(fn, fn.Params[pi]) {
				return
			}
			c.Instance("R2")
			guarded := false
			involves := func(v ssa.Value) bool {
				for t := range taintBack(v) {
					if core.ParamOf(fn, t) == pi {
						return true
					}
					// validated after construction: a load of the very field of the fresh object that the
					// parameter was stored into
					if ld, ok := t.(*ssa.UnOp); ok && ld.Op == token.MUL {
						if lf, lbase := core.FieldOf(ld); lf == f && lbase != nil && core.Unwrap(lbase) == core.Unwrap(base) {
							return true
						}
					}
				}
				return false
			}
			core.AllInstrs(fn, func(x ssa.Instruction) {
				if cond, ok := isAssertIf(p, x); ok {
					for _, d := range disjuncts(cond) {
						cm, ok := asCmp(d, x, false)
						if !ok {
							// && chains of != (membership test) arrive as phi: look at its leaves
							if phi, ok := d.(*ssa.Phi); ok {
								for _, e := range phi.Edges {
									if b, ok := e.(*ssa.BinOp); ok && b.Op == token.NEQ && (involves(b.X) || involves(b.Y)) {
										guarded = true
									}
								}
							}
							continue
						}
						// a guard that rejects small values: panics when param < k / param <= k (lower bound),
						// or an exact membership test (!=)
						switch cm.Op {
						case token.LSS, token.LEQ:
							if involves(cm.X) && !involves(cm.Y) {
								guarded = true
							}
						case token.GTR, token.GEQ:
							if involves(cm.Y) && !involves(cm.X) {
								guarded = true
							}
						case token.NEQ:
							if involves(cm.X) || involves(cm.Y) {
								guarded = true
							}
						}
					}
				}
			})
			// the same guard written out as `if param <= 0 { panic(...) }`: the comparison is known false where the
			// field is initialised
			for _, cm := range falseAt(p, in) {
				switch cm.Op {
				case token.LSS, token.LEQ:
					if involves(cm.X) && !involves(cm.Y) {
						guarded = true
					}
				case token.GTR, token.GEQ:
					if involves(cm.Y) && !involves(cm.X) {
						guarded = true
					}
				case token.NEQ:
					if involves(cm.X) || involves(cm.Y) {
						guarded = true
					}
				}
			}
			c.Check(guarded, "R2", "ctor-validates/"+core.FName(fn)+"/"+fn.Params[pi].Name(), p.Pos(fn.Pos()), "lower bound (or membership) asserted in the constructor", "configuration parameter "+fn.Params[pi].Name()+" is used as a size / slice bound by the decoder but the constructor does not reject too small (negative / zero) values: the decoder fails with a runtime fault")
		})
	}

	// ---- R3 loops
	for _, fc := range codecs {
		if fc.read == nil {
			continue
		}
		fn := fc.read
		checkedRead := func(in ssa.Instruction) bool {
			cc := core.CallCommon(in)
			if cc == nil {
				return false
			}
			isRead := (cc.IsInvoke() && (cc.Method.Name() == "Read" || cc.Method.Name() == "ReadByte")) || core.IsPkgFunc(in, "io", "ReadFull")
			if !isRead {
				return false
			}
			errv := errOfCall(in)
			if errv == nil {
				// (n, err) passed as a tuple straight into a guard function
				if v, ok := in.(ssa.Value); ok && v.Referrers() != nil {
					for _, ref := range *v.Referrers() {
						if rc := core.CallCommon(ref); rc != nil && rc.StaticCallee() != nil && strings.HasPrefix(rc.StaticCallee().Name(), "Assert") {
							return true
						}
					}
				}
				return false
			}
			for _, ref := range *errv.Referrers() {
				if rc := core.CallCommon(ref); rc != nil {
					return true
				}
				if _, ok := ref.(*ssa.BinOp); ok {
					return true
				}
			}
			return false
		}
		for _, b := range fn.Blocks {
			for _, s := range b.Succs {
				if !s.Dominates(b) {
					continue // not a back edge
				}
				c.Instance("R3")
				// cycle from s back to s without a checked read?
				start := s.Instrs[0]
				t, path := core.Search(start, nil, func(x ssa.Instruction) core.Action {
					if checkedRead(x) {
						return core.Barrier
					}
					if x == start {
						return core.Target
					}
					return core.Continue
				}, nil)
				if checkedRead(start) {
					t = nil
				}
				c.Check(t == nil, "R3", "loop-consumes/"+fc.t.Obj().Name(), p.InstrPos(start), "every iteration performs a read of the source whose error is guarded", "a decoder loop can iterate without a checked read of the source (spins at end-of-stream)", p.PathString(path, t)...)
				// bounded by the configured maximum: the loop condition involves a max field
				isCfgInt := func(f *types.Var) bool {
					if f == nil || !isIntT(f.Type()) {
						return false
					}
					for _, cf := range fieldsOfNamed(fc.t) {
						if cf == f {
							return true
						}
					}
					return false
				}
				bounded := false
				strictOK := true
				for _, ifi := range core.Ifs(fn) {
					if ifi.Block() == s || s.Dominates(ifi.Block()) {
						cd := core.CondOf(ifi)
						for si, side := range [][2]ssa.Value{{cd.X, cd.Y}, {cd.Y, cd.X}} {
							if side[0] == nil || side[1] == nil {
								continue
							}
							if _, isLen := lenArg(stripConv(side[0])); !isLen {
								continue
							}
							// the bound is the configured maximum itself, not maximum plus something
							if f, _ := core.FieldOf(stripConv(side[1])); isCfgInt(f) {
								if _, isLoad := stripConv(side[1]).(*ssa.UnOp); isLoad {
									bounded = true
									// and another byte is read only while the length is strictly below it: the relation
									// len OP max that holds on the edge that stays in the loop must be <
									op := cd.Op
									if si == 1 { // operands were (max, len): mirror
										op = map[token.Token]token.Token{token.LSS: token.GTR, token.GTR: token.LSS, token.LEQ: token.GEQ, token.GEQ: token.LEQ, token.EQL: token.EQL, token.NEQ: token.NEQ}[op]
									}
									for bi, succ := range ifi.Block().Succs {
										if succ != b && !succ.Dominates(b) {
											continue
										}
										rel := op
										if bi == 1 {
											rel = map[token.Token]token.Token{token.LSS: token.GEQ, token.GEQ: token.LSS, token.GTR: token.LEQ, token.LEQ: token.GTR, token.EQL: token.NEQ, token.NEQ: token.EQL}[op]
										}
										if rel == token.LEQ {
											strictOK = false
										}
									}
								}
							}
						}
					}
				}
				if bounded {
					c.Check(strictOK, "R3", "loop-bounded-strictly/"+fc.t.Obj().Name(), p.InstrPos(start), "another byte is read only while the accumulated length is below the maximum", "the accumulating loop keeps reading while the length EQUALS the configured maximum (<= instead of <): a frame one byte longer than the maximum is buffered and delivered")
				}
				c.Check(bounded, "R3", "loop-bounded/"+fc.t.Obj().Name(), p.InstrPos(start), "the accumulated length is compared with the configured maximum itself", "a decoder loop that accumulates input is not bounded by the configured maximum frame length itself (no bound, or the maximum widened by an extra term: oversized frames are delivered)")
			}
		}
	}

	// ---- R4 delivery
	for _, fc := range codecs {
		if fc.read == nil {
			continue
		}
		fn := fc.read
		for _, call := range downstreamCalls(fn, "HandleRead") {
			c.Instance("R4")
			name := "delivers/" + fc.t.Obj().Name()
			bare := ""
			exactOrRead := false
			seen := map[ssa.Value]bool{}
			var walk func(v ssa.Value, d int)
			walk = func(v ssa.Value, d int) {
				if v == nil || seen[v] || d > 10 {
					return
				}
				seen[v] = true
				switch x := v.(type) {
				case *ssa.MakeInterface:
					walk(x.X, d+1)
				case *ssa.ChangeInterface:
					walk(x.X, d+1)
				case *ssa.Slice:
					walk(x.X, d+1)
				case *ssa.Phi:
					for _, e := range x.Edges {
						walk(e, d+1)
					}
				case *ssa.UnOp:
					walk(x.X, d+1)
				case *ssa.Alloc:
					for _, ref := range *x.Referrers() {
						if ia, ok := ref.(*ssa.IndexAddr); ok {
							for _, r2 := range *ia.Referrers() {
								if st, ok := r2.(*ssa.Store); ok {
									walk(st.Val, d+1)
								}
							}
						}
						if st, ok := ref.(*ssa.Store); ok && st.Addr == ssa.Value(x) {
							walk(st.Val, d+1)
						}
					}
				case *ssa.Call:
					switch {
					case core.IsPkgFunc(x, "io", "LimitReader"):
						bare = "io.LimitReader at " + p.InstrPos(x)
					case isPkgRelFunc(p, x, "utils", "ExactReader"):
						exactOrRead = true
					case core.IsPkgFunc(x, "io", "MultiReader"), core.IsPkgFunc(x, "bytes", "NewReader"), core.IsPkgFunc(x, "bytes", "NewBuffer"):
						for _, a := range x.Call.Args {
							walk(a, d+1)
						}
					}
				case *ssa.MakeSlice:
					exactOrRead = true
				}
			}
			walk(call.Call.Args[0], 0)
			// a decoder that reads nothing at all and wraps nothing delivers phantom frames
			reads := &core.Query{P: p, MaxDepth: 2, Pred: func(x ssa.Instruction) bool {
				cc := core.CallCommon(x)
				if cc == nil {
					return false
				}
				if cc.IsInvoke() && (cc.Method.Name() == "Read" || cc.Method.Name() == "ReadByte" || cc.Method.Name() == "ReadFrom") {
					return true
				}
				return core.IsPkgFunc(x, "io", "ReadFull") || core.IsPkgFunc(x, "encoding/binary", "ReadUvarint") || isPkgRelFunc(p, x, "utils", "ExactReader")
			}}
			// every (feasible) path to the delivery passes a read
			tNoRead, _ := core.Search(nil, fn.Blocks[0], func(x ssa.Instruction) core.Action {
				if x == ssa.Instruction(call) {
					return core.Target
				}
				if reads.InstrMay(x, nil) {
					return core.Barrier
				}
				return core.Continue
			}, nil)
			hasRead := tNoRead == nil
			c.Check(bare == "", "R4", name+"/no-bare-limit-reader", p.InstrPos(call), "no bare io.LimitReader over the source is handed downstream", "a bare "+bare+" is delivered: it reports plain EOF when the source ends early, so a frame cut short by a disconnect is indistinguishable from a complete one")
			if fc.name != "packet-codec" {
				c.Check(hasRead || exactOrRead, "R4", name+"/checked-read-or-exact-reader", p.InstrPos(call), "delivery is preceded by a checked read or wraps the source in an exact-length reader", "the decoder delivers a message without having read anything and without an exact-length reader (phantom frames at end-of-stream)")
			}
		}
	}

	// ---- R7 the exact-length reader really reports early end
	c.Rule("R7", "the exact-length reader counts every byte it hands out and maps source EOF with bytes still owed to io.ErrUnexpectedEOF, whatever count came with the EOF", 1)
	runC08ExactReader(c)

	// ---- R5 read errors
	for _, fn := range p.Funcs {
		rel := p.PkgRel(fn)
		if !(strings.HasPrefix(rel, "codec") || rel == "utils") {
			continue
		}
		core.AllInstrs(fn, func(in ssa.Instruction) {
			cc := core.CallCommon(in)
			if cc == nil {
				return
			}
			if _, isDefer := in.(*ssa.Defer); isDefer {
				return
			}
			isRead := false
			nm := ""
			if cc.IsInvoke() {
				switch cc.Method.Name() {
				case "Read", "ReadFrom", "WriteTo", "ReadByte":
					isRead, nm = true, cc.Method.Name()
				}
			} else if o := core.CalleeObj(in); o != nil && o.Pkg() != nil {
				switch o.Pkg().Path() + "." + o.Name() {
				case "io.ReadFull", "io.CopyN", "io.Copy", "io.ReadAll", "io/ioutil.ReadAll", "encoding/binary.ReadUvarint", "net/http.ReadRequest", "net/http.ReadResponse":
					isRead, nm = true, o.Name()
				}
				if o.Pkg().Path() == p.Module+"/utils" && (o.Name() == "ToBytes" || o.Name() == "ToReader" || o.Name() == "StealBytes") {
					isRead, nm = true, o.Name()
				}
				if rn := core.RecvNamed(o); rn != nil && (o.Name() == "ReadFrom" || o.Name() == "Decode") {
					isRead, nm = true, rn.Name()+"."+o.Name()
				}
			}
			if !isRead {
				return
			}
			v, ok := in.(ssa.Value)
			if !ok {
				return
			}
			// has an error result at all?
			hasErr := false
			if isErrorT(v.Type()) {
				hasErr = true
			}
			if tup, ok := v.Type().(*types.Tuple); ok {
				for i := 0; i < tup.Len(); i++ {
					if isErrorT(tup.At(i).Type()) {
						hasErr = true
					}
				}
			}
			if !hasErr {
				return
			}
			c.Instance("R5")
			used := false
			if errv := errOfCall(in); errv != nil && errv.Referrers() != nil {
				for _, ref := range *errv.Referrers() {
					switch ref.(type) {
					case *ssa.DebugRef:
					default:
						used = true
					}
				}
			}
			// tuple passed whole to a guard: f(g())
			if !used && v.Referrers() != nil {
				for _, ref := range *v.Referrers() {
					if rc := core.CallCommon(ref); rc != nil {
						used = true
					}
					if _, isRet := ref.(*ssa.Return); isRet {
						used = true
					}
				}
			}
			// explicitly discarded copies into ioutil.Discard for draining are not frame reads
			if !used && (nm == "Copy") {
				for _, a := range cc.Args {
					if ld, ok := core.Unwrap(a).(*ssa.UnOp); ok {
						if g, ok := ld.X.(*ssa.Global); ok && g.Name() == "Discard" {
							used = true
						}
					}
				}
			}
			c.Check(used, "R5", "read-error/"+p.QName(fn)+"/"+nm, p.InstrPos(in), "error reaches a guard or a return", "the error of a read is dropped: end-of-stream / transport failure is swallowed and truncated data is processed")
		})
	}

	// ---- R6 slice bounds len(a)-len(b)
	for _, fc := range codecs {
		for _, fn := range []*ssa.Function{fc.read, fc.write} {
			if fn == nil {
				continue
			}
			core.AllInstrs(fn, func(in ssa.Instruction) {
				sl, ok := in.(*ssa.Slice)
				if !ok {
					return
				}
				for _, bnd := range []ssa.Value{sl.Low, sl.High} {
					b, ok := bnd.(*ssa.BinOp)
					if !ok || b.Op != token.SUB {
						continue
					}
					c.Instance("R6")
					okb := false
					for _, cm := range falseAt(p, in) {
						// known false: X < Y  (i.e. X >= Y holds)
						if cm.Op == token.LSS && sameLenExpr(cm.X, b.X) && sameConfigExpr(cm.Y, b.Y) {
							okb = true
						}
						if cm.Op == token.GTR && sameLenExpr(cm.Y, b.X) && sameConfigExpr(cm.X, b.Y) {
							okb = true
						}
					}
					// short-circuit: `len(a) >= len(b) && f(a[len(a)-len(b):])`: the slice's block is on the true side
					for _, ifi := range core.Ifs(fn) {
						cd := core.CondOf(ifi)
						if cd.Op == token.GEQ && sameLenExpr(cd.X, b.X) && sameConfigExpr(cd.Y, b.Y) && core.EdgeDominates(ifi.Block(), cd.True, in.Block()) {
							okb = true
						}
						// guard on the difference itself: (x-y) >= 0
						if cd.Op == token.GEQ && sameDiff(cd.X, b) && core.EdgeDominates(ifi.Block(), cd.True, in.Block()) {
							if k, isC := core.ConstInt(cd.Y); isC && k == 0 {
								okb = true
							}
						}
					}
					for _, cm := range falseAt(p, in) {
						if cm.Op == token.LSS && sameDiff(cm.X, b) {
							if k, isC := core.ConstInt(cm.Y); isC && k == 0 {
								okb = true
							}
						}
					}
					c.Check(okb, "R6", "slice-bound/"+core.FName(fn), p.InstrPos(in), "len(a)-len(b) bound guarded by len(a) >= len(b)", "a slice bound of the form x-y is not dominated by a guard x >= y: short input makes the decoder fail with a runtime fault (slice bounds out of range)")
				}
			})
		}
	}
}

// sameDiff: v is the difference b itself or the same difference computed again (`off := len(a)-len(b); off >= 0`
// in a helper, `a[:len(a)-len(b)]` at the use).
func sameDiff(v ssa.Value, b *ssa.BinOp) bool {
	if v == ssa.Value(b) {
		return true
	}
	d, ok := v.(*ssa.BinOp)
	return ok && d.Op == token.SUB && sameLenExpr(d.X, b.X) && sameConfigExpr(d.Y, b.Y)
}

// containerOf: local is a struct built in place whose value is copied into a field of another freshly built
// struct (`cfg := T{...}; return &codec{cfg: cfg}`); returns that struct's allocation.
func containerOf(local ssa.Value) ssa.Value {
	al, ok := local.(*ssa.Alloc)
	if !ok || al.Referrers() == nil {
		return nil
	}
	for _, ref := range *al.Referrers() {
		ld, ok := ref.(*ssa.UnOp)
		if !ok || ld.Op != token.MUL || ld.Referrers() == nil {
			continue
		}
		for _, r2 := range *ld.Referrers() {
			st, ok := r2.(*ssa.Store)
			if !ok || st.Val != ssa.Value(ld) {
				continue
			}
			if fa, ok := st.Addr.(*ssa.FieldAddr); ok {
				if outer, ok := fa.X.(*ssa.Alloc); ok {
					return outer
				}
			}
		}
	}
	return nil
}

func sameLenExpr(a, b ssa.Value) bool {
	if core.SameValue(a, b) {
		return true
	}
	la, ok1 := lenArg(a)
	lb, ok2 := lenArg(b)
	return ok1 && ok2 && core.SameValue(la, lb)
}

// sameConfigExpr: structurally equal expressions over field loads / len / conversions.
func sameConfigExpr(a, b ssa.Value) bool {
	a, b = stripConv(a), stripConv(b)
	a, b = stripConv(lenOfMake(a)), stripConv(lenOfMake(b))
	if core.SameValue(a, b) {
		return true
	}
	la, ok1 := lenArg(a)
	lb, ok2 := lenArg(b)
	if ok1 && ok2 {
		return sameConfigExpr(la, lb)
	}
	ba, ok1 := a.(*ssa.BinOp)
	bb, ok2 := b.(*ssa.BinOp)
	if ok1 && ok2 && ba.Op == bb.Op {
		return sameConfigExpr(ba.X, bb.X) && sameConfigExpr(ba.Y, bb.Y)
	}
	return false
}

// taintBack: backward closure through conversions, arithmetic, phi, len.
func taintBack(v ssa.Value) map[ssa.Value]bool {
	seen := map[ssa.Value]bool{}
	var walk func(x ssa.Value, d int)
	walk = func(x ssa.Value, d int) {
		if x == nil || seen[x] || d > 10 {
			return
		}
		seen[x] = true
		switch y := x.(type) {
		case *ssa.Convert:
			walk(y.X, d+1)
		case *ssa.ChangeType:
			walk(y.X, d+1)
		case *ssa.BinOp:
			walk(y.X, d+1)
			walk(y.Y, d+1)
		case *ssa.Phi:
			for _, e := range y.Edges {
				walk(e, d+1)
			}
		case *ssa.Call:
			if args, ok := core.IsBuiltinCall(y, "len"); ok {
				walk(args[0], d+1)
			}
		case *ssa.MakeSlice:
			walk(y.Len, d+1)
			walk(y.Cap, d+1)
		case *ssa.UnOp:
			walk(y.X, d+1)
		}
	}
	walk(v, 0)
	return seen
}

// fieldUsedAsBound: field f is used in fn in a size / bound that depends on configuration only
// (make length, slice bound, CopyN / reader count, or a loop bound compared with a length).
func fieldUsedAsBound(fn *ssa.Function, f *types.Var) bool {
	used := false
	recv := ssa.Value(fn.Params[0])
	check := func(v ssa.Value) {
		if v == nil || !isConfig(v, recv, 0) {
			return
		}
		for x := range taintBack(v) {
			if ld, ok := x.(*ssa.UnOp); ok {
				if fv, _ := core.FieldOf(ld); fv == f {
					used = true
				}
			}
		}
	}
	core.AllInstrs(fn, func(in ssa.Instruction) {
		switch y := in.(type) {
		case *ssa.MakeSlice:
			check(y.Len)
		case *ssa.Slice:
			check(y.Low)
			check(y.High)
		case *ssa.If:
			if b, ok := y.Cond.(*ssa.BinOp); ok {
				if _, isLen := lenArg(b.X); isLen {
					check(b.Y)
				}
				if _, isLen := lenArg(b.Y); isLen {
					check(b.X)
				}
			}
		}
		if cc := core.CallCommon(in); cc != nil && (core.IsPkgFunc(in, "io", "CopyN") || core.IsPkgFunc(in, "io", "LimitReader") || strings.HasSuffix(calleeName(in), "ExactReader")) {
			for _, a := range cc.Args {
				check(a)
			}
		}
	})
	return used
}

func paramUsedAsBound(fn *ssa.Function, prm *ssa.Parameter) bool {
	used := false
	core.AllInstrs(fn, func(in ssa.Instruction) {
		if mk, ok := in.(*ssa.MakeSlice); ok {
			for x := range taintBack(mk.Len) {
				if x == ssa.Value(prm) {
					used = true
				}
			}
		}
	})
	return used
}

func calleeName(in ssa.Instruction) string {
	if o := core.CalleeObj(in); o != nil {
		return o.Name()
	}
	return ""
}

func runC08ExactReader(c *core.Ctx) {
	p := c.P
	ctor := p.PkgFunc("utils", "ExactReader")
	c.Instance("R7")
	if ctor == nil {
		c.Unk("R7", "exact-reader", "", "utils.ExactReader not found (decoders must not hand a bare io.LimitReader downstream - see R4)")
		return
	}
	var rt *types.Named
	core.AllInstrs(ctor, func(in ssa.Instruction) {
		if ret, ok := in.(*ssa.Return); ok && len(ret.Results) == 1 {
			if mi, ok := ret.Results[0].(*ssa.MakeInterface); ok {
				if pt, ok := mi.X.Type().(*types.Pointer); ok {
					rt, _ = types.Unalias(pt.Elem()).(*types.Named)
				}
			}
		}
	})
	rd := p.Method(rt, "Read")
	if rt == nil || rd == nil {
		c.Unk("R7", "exact-reader", p.Pos(ctor.Pos()), "concrete reader type / Read method not resolved")
		return
	}
	c.FuncsSeen[p.QName(rd)] = true
	var remF *types.Var
	for _, f := range fieldsOfNamed(rt) {
		if isIntT(f.Type()) {
			remF = f
		}
	}
	var inner ssa.Instruction
	core.AllInstrs(rd, func(in ssa.Instruction) {
		if cc := core.CallCommon(in); cc != nil && cc.IsInvoke() && cc.Method.Name() == "Read" {
			inner = in
		}
	})
	if remF == nil || inner == nil {
		c.Unk("R7", "exact-reader", p.Pos(rd.Pos()), "remaining-count field / inner Read not resolved")
		return
	}
	var nv, errv ssa.Value
	for _, ref := range *inner.(ssa.Value).Referrers() {
		if ex, ok := ref.(*ssa.Extract); ok {
			if ex.Index == 0 {
				nv = ex
			} else {
				errv = ex
			}
		}
	}
	// (i) the count is subtracted from the remaining field after the inner read
	var dec *ssa.Store
	for _, st := range core.StoresToField(rd, remF) {
		if b, ok := stripConv(st.Val).(*ssa.BinOp); ok && b.Op == token.SUB && core.Dominates(inner, st) {
			for v := range taintBack(b.Y) {
				if nv != nil && (v == nv || sameErr(v, nv)) {
					dec = st
				}
			}
		}
	}
	c.Check(dec != nil, "R7", "exact-reader/counts-bytes", p.Pos(rd.Pos()), "remaining -= n after every inner read", "the exact-length reader does not subtract the bytes read from its remaining count on every read")
	// (ii) EOF mapping: a store/return of io.ErrUnexpectedEOF guarded by err == io.EOF and remaining > 0 evaluated AFTER the decrement,
	//      and not conditional on the count n
	var mapAt ssa.Instruction
	core.AllInstrs(rd, func(in ssa.Instruction) {
		check := func(v ssa.Value) {
			if ld, ok := core.Unwrap(v).(*ssa.UnOp); ok {
				if g, ok := ld.X.(*ssa.Global); ok && g.Name() == "ErrUnexpectedEOF" {
					mapAt = in
				}
			}
		}
		switch x := in.(type) {
		case *ssa.Store:
			check(x.Val)
		case *ssa.Return:
			for _, r := range x.Results {
				check(r)
			}
		case *ssa.Phi:
			for _, e := range x.Edges {
				check(e)
			}
		}
	})
	c.Instance("R7")
	if mapAt == nil {
		c.Bad("R7", "exact-reader/maps-early-eof", p.Pos(rd.Pos()), "the reader never yields io.ErrUnexpectedEOF: a source that ends early looks like a complete frame")
		return
	}
	okOrder, condOnN, remCond := true, false, false
	for _, ifi := range core.Ifs(rd) {
		// conditions that govern the mapping
		governs := false
		for _, succ := range ifi.Block().Succs {
			if core.EdgeDominates(ifi.Block(), succ, mapAt.Block()) {
				governs = true
			}
		}
		if phi, ok := mapAt.(*ssa.Phi); ok && !governs {
			for _, pb := range phi.Block().Preds {
				if pb == ifi.Block() || ifi.Block().Dominates(pb) {
					governs = true
				}
			}
		}
		if !governs || !core.Dominates(inner, ifi) {
			continue // only tests made after the inner read decide the mapping
		}
		for v := range taintBack(ifi.Cond) {
			if nv != nil && (v == nv || sameErr(v, nv)) {
				condOnN = true
			}
			if ld, ok := v.(*ssa.UnOp); ok {
				if f, _ := core.FieldOf(ld); f == remF {
					remCond = true
					if dec != nil && !core.Dominates(dec, ld) {
						okOrder = false
					}
				}
			}
		}
	}
	// only end-of-stream is rewritten: the mapping sits on the side of a test that compares the inner read's
	// error with io.EOF (a transport failure inside a frame body must reach the handlers as it is)
	eofOnly := false
	for _, ifi := range core.Ifs(rd) {
		cd := core.CondOf(ifi)
		if cd.Op != token.EQL && cd.Op != token.NEQ {
			continue
		}
		isEOF := func(v ssa.Value) bool {
			ld, ok := core.Unwrap(v).(*ssa.UnOp)
			if !ok {
				return false
			}
			g, ok := ld.X.(*ssa.Global)
			return ok && g.Name() == "EOF" && g.Pkg != nil && g.Pkg.Pkg.Path() == "io"
		}
		var other ssa.Value
		if isEOF(cd.X) {
			other = cd.Y
		} else if isEOF(cd.Y) {
			other = cd.X
		}
		if other == nil || errv == nil || !(other == errv || sameErr(other, errv)) {
			continue
		}
		side := cd.True
		if cd.Op == token.NEQ {
			side = cd.False
		}
		mb := mapAt.Block()
		if phi, ok := mapAt.(*ssa.Phi); ok {
			// the mapped value enters the φ from the predecessor(s) that carry it
			for i, e := range phi.Edges {
				if ld, ok := core.Unwrap(e).(*ssa.UnOp); ok {
					if g, ok := ld.X.(*ssa.Global); ok && g.Name() == "ErrUnexpectedEOF" {
						mb = phi.Block().Preds[i]
					}
				}
			}
		}
		if core.EdgeDominates(ifi.Block(), side, mb) || side == mb {
			eofOnly = true
		}
	}
	c.Check(eofOnly, "R7", "exact-reader/maps-only-eof", p.InstrPos(mapAt), "only io.EOF of the source is rewritten to io.ErrUnexpectedEOF", "the reader rewrites errors other than io.EOF to io.ErrUnexpectedEOF: a transport failure in the middle of a frame body reaches the handlers as a truncated-frame error (the forced close for connection errors is skipped)")
	c.Check(remCond && okOrder, "R7", "exact-reader/maps-early-eof", p.InstrPos(mapAt), "EOF is mapped to io.ErrUnexpectedEOF when bytes are still owed after this read was counted", "the early-EOF test looks at the remaining count before this read was subtracted (or not at all): a complete last frame whose bytes arrive together with io.EOF is rejected, or a truncated one accepted")
	c.Check(!condOnN, "R7", "exact-reader/eof-mapping-unconditional", p.InstrPos(mapAt), "the mapping does not depend on how many bytes came with the EOF", "source EOF is mapped to io.ErrUnexpectedEOF only for some byte counts of the final read: a reader that returns its last bytes together with io.EOF passes a truncated body off as complete")

	// (iii) Read is the checked way to the source. Any other method of the type that reads the source (a WriteTo /
	// Discard fast path that io.Copy, io.MultiReader and ReadAll pick up) has to report truncation itself: it yields
	// io.ErrUnexpectedEOF under a test "still owed > 0" on the count that remains after its own reads.
	var srcF *types.Var
	for _, f := range fieldsOfNamed(rt) {
		if types.IsInterface(f.Type()) {
			srcF = f
		}
	}
	ms := types.NewMethodSet(types.NewPointer(rt))
	for i := 0; i < ms.Len(); i++ {
		mo, ok := ms.At(i).Obj().(*types.Func)
		if !ok || mo.Name() == "Read" {
			continue
		}
		m := p.FuncOf(mo)
		if m == nil || m.Blocks == nil || !p.InRepo(m) || srcF == nil {
			continue
		}
		touches := false
		core.AllInstrs(m, func(in ssa.Instruction) {
			if fa, ok := in.(*ssa.FieldAddr); ok {
				if fv, _ := core.FieldOf(fa); fv == srcF {
					touches = true
				}
			}
		})
		if !touches {
			continue
		}
		c.Instance("R7")
		stores := core.StoresToField(m, remF)
		okPath := false
		for _, ifi := range core.Ifs(m) {
			cd := core.CondOf(ifi)
			x, y, op := cd.X, cd.Y, cd.Op
			if x == nil || y == nil {
				continue
			}
			if k, isC := core.ConstInt(x); isC && k == 0 {
				x, y = y, x
				switch op {
				case token.LSS:
					op = token.GTR
				case token.GTR:
					op = token.LSS
				}
			}
			if k, isC := core.ConstInt(y); !isC || k != 0 || (op != token.GTR && op != token.NEQ) {
				continue
			}
			// x is the remaining count after this method's update
			after := false
			xs := stripConv(x)
			for _, st := range stores {
				if stripConv(st.Val) == xs {
					after = true
				}
				if ld, ok := xs.(*ssa.UnOp); ok && ld.Op == token.MUL {
					if fv, _ := core.FieldOf(ld); fv == remF && core.Dominates(st, ld) {
						after = true
					}
				}
			}
			if !after {
				continue
			}
			// the owed side yields io.ErrUnexpectedEOF
			core.AllInstrs(m, func(in ssa.Instruction) {
				if ld, ok := in.(*ssa.UnOp); ok && ld.Op == token.MUL {
					if g, ok := ld.X.(*ssa.Global); ok && g.Name() == "ErrUnexpectedEOF" && core.EdgeDominates(ifi.Block(), cd.True, ld.Block()) {
						okPath = true
					}
				}
			})
		}
		c.Check(okPath, "R7", "exact-reader/other-consumer/"+mo.Name(), p.Pos(m.Pos()), "reports io.ErrUnexpectedEOF when bytes are still owed after its own reads", "the exact-length reader has a second way to its source ("+mo.Name()+") that does not report truncation by testing the count still owed after its own reads: consumers that prefer it (io.Copy, io.MultiReader.WriteTo, ReadAll) receive a shortened frame as complete")
	}
}

// flipSites: v is (or is the result of a repository helper that returns) a conversion of a wire-derived
// unsigned value to a signed type that is not wider: the conversions concerned.
func flipSites(p *core.Prog, v ssa.Value) []*ssa.Convert {
	isFlip := func(x ssa.Value) *ssa.Convert {
		cv, ok := x.(*ssa.Convert)
		if !ok {
			return nil
		}
		if signedness(cv.Type()) == 1 && signedness(cv.X.Type()) == 2 && intBits(cv.Type()) <= intBits(cv.X.Type()) && wireSource(p, cv.X) {
			return cv
		}
		return nil
	}
	if cv := isFlip(v); cv != nil {
		return []*ssa.Convert{cv}
	}
	var out []*ssa.Convert
	if _, isCall := v.(*ssa.Call); isCall {
		for _, r := range throughReturns(p, v) {
			// a named result assigned in several switch arms arrives as a φ
			seen := map[ssa.Value]bool{}
			var walk func(x ssa.Value, d int)
			walk = func(x ssa.Value, d int) {
				if seen[x] || d > 4 {
					return
				}
				seen[x] = true
				if cv := isFlip(x); cv != nil {
					out = append(out, cv)
					return
				}
				if phi, ok := x.(*ssa.Phi); ok {
					for _, e := range phi.Edges {
						walk(e, d+1)
					}
				}
			}
			walk(r.val, 0)
		}
	}
	return out
}
