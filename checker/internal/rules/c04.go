package rules

import (
	"fmt"
	"go/constant"
	"go/token"
	"go/types"
	"sort"
	"strings"

	"golang.org/x/tools/go/ssa"
	"verif/checker/internal/core"
)

func init() {
	register(&Property{
		ID:    "C04",
		Title: "Frame codecs round-trip or reject; boundaries exact under any fragmentation",
		Explanation: "Round-trip equality over all payloads and fragmentations quantifies over values and is NOT decided. DECIDES the structural clauses: " +
			"R1 'never emits a frame whose length header disagrees with its body': every narrowing conversion of a length in codec/frame is dominated by a guard that bounds that value by the capacity of the target width (in the packer or at every call site) and panics otherwise; " +
			"R2 writer's and reader's tables agree: the field-width cases of the packer, of the unpacker and of the widths the constructors admit are the same set, each case uses the same width on both sides through the configured byte order value, both default arms raise, the codec builds its default encoder from its own byte-order/width parameters; varint uses PutUvarint/ReadUvarint bounded by the same max field; the delimiter encoder appends and the decoder matches/strips the same delimiter field; " +
			"R3 every frame encoder forwards header and body in exactly one downstream write per path and never hands downstream a slice of its own (shared) receiver state that it writes per message; " +
			"R4 fixed-size reads use io.ReadFull (count and error checked before the bytes are interpreted) or an exact-length reader; a bare Read is accepted only for the one-read-one-message codec and the byte-wise delimiter scan; R5 the delimiter decoder decides a match by comparing the whole delimiter with the tail of the accumulated buffer. " +
			"DOES NOT DECIDE: decode(encode(p)) = p, exact consumption when the next handler does not drain the lazy body, offsets/adjustment arithmetic.",
		Assumptions: []string{"encoding/binary and io.ReadFull behave as documented"},
		Run:         runC04,
	})
}

type frameCodec struct {
	t         *types.Named
	name      string // CodecName() constant or type name
	read      *ssa.Function
	write     *ssa.Function
	writeDecl bool // HandleWrite declared on the type itself (not promoted)
}

func frameCodecs(p *core.Prog) []*frameCodec {
	var out []*frameCodec
	for _, st := range p.StructTypes("codec/frame") {
		fc := &frameCodec{t: st, name: st.Obj().Name()}
		fc.read = p.DeclMethod(st, "HandleRead")
		fc.write = p.DeclMethod(st, "HandleWrite")
		fc.writeDecl = fc.write != nil
		if fc.read == nil && fc.write == nil {
			continue
		}
		if cn := p.DeclMethod(st, "CodecName"); cn != nil {
			core.AllInstrs(cn, func(in ssa.Instruction) {
				if ret, ok := in.(*ssa.Return); ok && len(ret.Results) == 1 {
					if k, ok := ret.Results[0].(*ssa.Const); ok && k.Value != nil && k.Value.Kind() == constant.String {
						fc.name = constant.StringVal(k.Value)
					}
				}
			})
		}
		out = append(out, fc)
	}
	sort.Slice(out, func(i, j int) bool { return out[i].t.Obj().Name() < out[j].t.Obj().Name() })
	return out
}

// downstreamWrites: invokes of OutboundContext.HandleWrite on the ctx parameter in fn.
func downstreamCalls(fn *ssa.Function, method string) []*ssa.Call {
	var out []*ssa.Call
	core.AllInstrs(fn, func(in ssa.Instruction) {
		call, ok := in.(*ssa.Call)
		if !ok || !call.Call.IsInvoke() || call.Call.Method.Name() != method {
			return
		}
		if core.ParamOf(fn, call.Call.Value) == 1 {
			out = append(out, call)
		}
	})
	return out
}

func runC04(c *core.Ctx) {
	p := c.P
	c.Rule("R1", "no unchecked narrowing of a length", 3)
	c.Rule("R2", "encoder/decoder tables agree", 4)
	c.Rule("R3", "framing is one downstream message; no shared per-message scratch handed downstream", 3)
	c.Rule("R4", "fixed-size reads are complete before interpretation", 2)
	c.Rule("R5", "delimiter match compares the whole delimiter with the buffer tail", 1)
	fp := p.Pkg("codec/frame")
	if fp == nil {
		c.Unk("anchors", "ANCHOR-UNRESOLVED", "", "package codec/frame not loaded")
		return
	}
	codecs := frameCodecs(p)

	// ---- R1 narrowing conversions of lengths
	for _, fn := range p.Funcs {
		if p.PkgRel(fn) != "codec/frame" {
			continue
		}
		core.AllInstrs(fn, func(in ssa.Instruction) {
			cv, ok := in.(*ssa.Convert)
			if !ok {
				return
			}
			tb, sb := intBits(cv.Type()), intBits(cv.X.Type())
			if tb == 0 || sb == 0 || signedness(cv.Type()) == 0 || signedness(cv.X.Type()) == 0 {
				return
			}
			narrowing := tb < sb || (tb == sb && signedness(cv.X.Type()) == 1 && signedness(cv.Type()) == 2)
			if !narrowing {
				return
			}
			if _, isConst := cv.X.(*ssa.Const); isConst {
				return
			}
			// only values that end up on the wire: the conversion result is stored into a byte slice or passed to PutUintNN
			toWire := false
			for _, ref := range *cv.Referrers() {
				switch r := ref.(type) {
				case *ssa.Store:
					toWire = true
				case *ssa.Call:
					if r.Call.IsInvoke() && strings.HasPrefix(r.Call.Method.Name(), "PutUint") {
						toWire = true
					}
					if o := core.CalleeObj(r); o != nil && strings.HasPrefix(o.Name(), "PutU") {
						toWire = true
					}
				}
			}
			if !toWire {
				return
			}
			c.Instance("R1")
			c.FuncsSeen[p.QName(fn)] = true
			name := fmt.Sprintf("narrowing/%s/to-%s", core.FName(fn), cv.Type().String())
			max := int64(-1)
			if tb < 63 {
				max = int64(1)<<uint(tb) - 1
			}
			okM := func(m ssa.Value) bool {
				k, isC := core.ConstInt(stripConv(m))
				if !isC {
					return false
				}
				return max < 0 || k <= max
			}
			upper := tb >= 64 || boundedAbove(p, in, cv.X, okM)
			lower := signedness(cv.X.Type()) == 2 || isLenOrCap(cv.X) || boundedBelow(p, in, cv.X, func(l ssa.Value) bool {
				k, isC := core.ConstInt(stripConv(l))
				return isC && k == 0
			})
			if !(upper && lower) {
				// guard at every call site instead (the value is a parameter)
				if pi := core.ParamOf(fn, cv.X); pi >= 0 {
					all, n := true, 0
					for _, caller := range p.Funcs {
						core.AllInstrs(caller, func(x ssa.Instruction) {
							cc := core.CallCommon(x)
							if cc == nil || cc.IsInvoke() || cc.StaticCallee() != fn {
								return
							}
							n++
							arg := cc.Args[pi]
							u := tb >= 64 || boundedAbove(p, x, arg, okM)
							l := signedness(arg.Type()) == 2 || boundedBelow(p, x, arg, func(lv ssa.Value) bool {
								k, isC := core.ConstInt(stripConv(lv))
								return isC && k == 0
							})
							if !(u && l) {
								all = false
							}
						})
					}
					if all && n > 0 {
						upper, lower = true, true
					}
				}
			}
			c.Check(upper && lower, "R1", name, p.InstrPos(in), "bounded by the capacity of the target width before narrowing",
				fmt.Sprintf("a length is narrowed to %s without a dominating range check (upper bound proven=%v, non-negative proven=%v): a frame is emitted whose header disagrees with its body", cv.Type(), upper, lower))
		})
	}

	// ---- R2 tables
	runC04R2(c, codecs)

	// ---- R3 one downstream message; no receiver-owned scratch
	for _, fc := range codecs {
		if fc.write == nil {
			continue
		}
		c.Instance("R3")
		c.FuncsSeen[p.QName(fc.write)] = true
		calls := downstreamCalls(fc.write, "HandleWrite")
		name := "encoder/" + fc.t.Obj().Name()
		q := &core.Query{P: p, Pred: func(x ssa.Instruction) bool {
			for _, cl := range calls {
				if ssa.Instruction(cl) == x {
					return true
				}
			}
			return false
		}}
		bad, path := q.MustPassBetween(nil, fc.write.Blocks[0], nil, core.IsNormalReturn, nil)
		twice := false
		for _, cl := range calls {
			if t, _ := core.Search(cl, nil, func(x ssa.Instruction) core.Action {
				if q.Pred(x) {
					return core.Target
				}
				return core.Continue
			}, nil); t != nil {
				twice = true
			}
		}
		c.Check(bad == nil && !twice && len(calls) > 0, "R3", name+"/one-downstream-write", p.Pos(fc.write.Pos()), "exactly one ctx.HandleWrite per path", "the encoder does not forward the frame in exactly one downstream write per path (header and body become independently ordered writes, or nothing is forwarded)", p.PathString(path, bad)...)
		// receiver state written in HandleWrite / handed downstream
		recv := fc.write.Params[0]
		wrote := ""
		core.AllInstrs(fc.write, func(x ssa.Instruction) {
			switch y := x.(type) {
			case *ssa.Store:
				if _, base := core.FieldOf(y.Addr); base != nil && core.SameValue(base, recv) {
					wrote = "store to a receiver field at " + p.InstrPos(x)
				}
				if ia, ok := y.Addr.(*ssa.IndexAddr); ok {
					if _, base := core.FieldOf(ia.X); base != nil && core.SameValue(base, recv) {
						wrote = "write into a receiver-owned buffer at " + p.InstrPos(x)
					}
				}
			}
			// slice of a receiver array/slice field passed to a callee or downstream
			if cc := core.CallCommon(x); cc != nil {
				for _, a := range cc.Args {
					for _, o := range sliceOrigins(a) {
						f, base := core.FieldOf(o)
						if f == nil || base == nil || !core.SameValue(base, recv) {
							continue
						}
						if _, isArr := f.Type().Underlying().(*types.Array); isArr {
							wrote = "slice of receiver array field " + f.Name() + " passed on at " + p.InstrPos(x)
						}
						// a buffer kept in the receiver handed to something that writes into it
						if _, isSlice := f.Type().Underlying().(*types.Slice); isSlice && calleeWritesArg(p, x, a, 0) {
							wrote = "receiver buffer " + f.Name() + " is filled per message at " + p.InstrPos(x)
						}
					}
				}
			}
		})
		c.Check(wrote == "", "R3", name+"/no-shared-scratch", p.Pos(fc.write.Pos()), "HandleWrite keeps no per-message state in the (shared) handler", "the encoder writes per-message data into its own receiver ("+wrote+"): concurrent writers on one channel overwrite each other's header before it is sent")
	}

	// ---- R4 complete reads
	for _, fc := range codecs {
		if fc.read == nil {
			continue
		}
		c.FuncsSeen[p.QName(fc.read)] = true
		core.AllInstrs(fc.read, func(in ssa.Instruction) {
			cc := core.CallCommon(in)
			if cc == nil {
				return
			}
			name := "decoder/" + fc.t.Obj().Name()
			if core.IsPkgFunc(in, "io", "ReadFull") || core.IsPkgFunc(in, "io", "ReadAtLeast") {
				c.Instance("R4")
				// (n, err) checked before the buffer is used: a guard involving err dominates the next use of the buffer
				errv := errOfCall(in)
				checked := false
				if errv != nil {
					for _, ref := range *errv.Referrers() {
						if _, ok := ref.(*ssa.BinOp); ok {
							checked = true
						}
						if rc := core.CallCommon(ref); rc != nil {
							checked = true
						}
					}
				}
				c.Check(checked, "R4", name+"/ReadFull-checked", p.InstrPos(in), "ReadFull's error is checked", "the result of io.ReadFull is not checked before the header is interpreted")
				return
			}
			if cc.IsInvoke() && cc.Method.Name() == "Read" && len(cc.Args) == 1 {
				c.Instance("R4")
				// allowed: one-read-one-message codec; byte-wise scan (buffer of length 1 inside a loop)
				oneByte := false
				{
					v := core.Unwrap(cc.Args[0])
					for d := 0; d < 4; d++ {
						switch x := v.(type) {
						case *ssa.Slice:
							v = core.Unwrap(core.ForwardLoad(x.X))
							continue
						case *ssa.MakeSlice:
							if k, isC := core.ConstInt(x.Len); isC && k == 1 {
								oneByte = true
							}
						case *ssa.Alloc:
							if arr, ok := x.Type().(*types.Pointer).Elem().Underlying().(*types.Array); ok && arr.Len() == 1 {
								oneByte = true
							}
						}
						break
					}
				}
				inLoop := false
				if t, _ := core.Search(in, nil, func(x ssa.Instruction) core.Action {
					if x == in {
						return core.Target
					}
					return core.Continue
				}, nil); t != nil {
					inLoop = true
				}
				switch {
				case fc.name == "variable-length-codec":
					c.OK("R4", name+"/bare-read", p.InstrPos(in), "contract of this codec: one transport read = one message")
				case oneByte && inLoop:
					c.OK("R4", name+"/bare-read", p.InstrPos(in), "byte-wise scan in a loop")
				default:
					c.Bad("R4", name+"/bare-read", p.InstrPos(in), "a frame decoder fills a fixed-size buffer with a single Read: a frame split across transport reads is delivered short and every later boundary shifts (use io.ReadFull or an exact-length reader)")
				}
			}
		})
	}

	// ---- R6 (shared with C08-R7): the exact-length body reader behind the lazy decoders
	c.Rule("R6", "exact-length reader counts bytes and maps early EOF correctly (shared with C08-R7)", 1)
	importObligations(c, runC08, "R6", func(o *core.Obligation) bool { return o.Rule == "R7" || o.Rule == "R6" || o.Rule == "R3" })

	// ---- R7 stripping counts from the start of the frame
	c.Rule("R7", "bytes stripped from a decoded frame are counted from the frame's first byte (the strip runs over the reader that starts with the header, or the count subtracts the header length)", 1)
	runStripBase(c)

	// ---- R8 the carriers and transports under the codecs keep the bytes: conversions read with the count and
	// before the error, writers do not retain the caller's slice (C14-R2/R5), the transport wrappers have one
	// write sink and one read source (C17-R1/R2)
	c.Rule("R8", "byte carriers and transport wrappers under the codecs preserve content and order (shared with C14-R2/R5, C17-R1/R2)", 4)
	importObligations(c, runC14, "R8", func(o *core.Obligation) bool { return o.Rule == "R2" || o.Rule == "R5" })
	importObligations(c, runC17, "R8", func(o *core.Obligation) bool { return o.Rule == "R1" || o.Rule == "R2" })
	// an encoded frame stays intact while it is queued: its buffer has one owner (C10)
	c.Rule("R9", "a queued frame's buffer is private and recycled once, after it was written (shared with C10-R1/R3/R4/R6/R8)", 3)
	importObligations(c, runC10, "R9", func(o *core.Obligation) bool {
		return o.Rule == "R1" || o.Rule == "R3" || o.Rule == "R4" || o.Rule == "R6" || o.Rule == "R8"
	})

	// ---- R5 delimiter match
	for _, fc := range codecs {
		if fc.read == nil {
			continue
		}
		var delimF *types.Var
		for _, f := range fieldsOfNamed(fc.t) {
			if isPlainByteSlice(f.Type()) && p.DeclMethod(fc.t, "HandleWrite") != nil && fieldUsedInBoth(p, fc, f) {
				delimF = f
			}
		}
		if delimF == nil {
			continue
		}
		c.Instance("R5")
		whole := false
		core.AllInstrs(fc.read, func(in ssa.Instruction) {
			if core.IsPkgFunc(in, "bytes", "Equal") || core.IsPkgFunc(in, "bytes", "HasSuffix") {
				cc := core.CallCommon(in)
				for _, a := range cc.Args {
					if f, _ := core.FieldOf(a); f == delimF {
						whole = true
					}
				}
			}
		})
		if whole {
			c.OK("R5", "delimiter-match/"+fc.t.Obj().Name(), p.Pos(fc.read.Pos()), "bytes.Equal/HasSuffix of the delimiter field against the buffer tail")
		} else {
			c.Unk("R5", "delimiter-match/"+fc.t.Obj().Name(), p.Pos(fc.read.Pos()), "the delimiter decoder does not compare the whole delimiter with the accumulated buffer (an incremental matcher is not understood by this check: a wrong fallback on partial matches merges frames)")
		}
	}
}

// caseSetOfSwitch: constant int cases of the switch on `tagName`-like expression in decl, with the
// selector names called in each case body, and whether the default arm panics (via call).
type switchInfo struct {
	cases    map[int64][]string
	hasDeflt bool
}

// widthTable reads the per-width dispatch of a packer / unpacker from SSA: every branch `width == k` on an int
// parameter (a switch is lowered to that chain; an if-chain is the same thing) maps k to the ByteOrder
// accessors invoked and the byte indexing done on the matching side. hasDeflt: a width that matches no case
// raises before the function returns.
func widthTable(p *core.Prog, fn *ssa.Function) *switchInfo {
	si := &switchInfo{cases: map[int64][]string{}}
	match := map[edgeKey]bool{}
	var width *ssa.Parameter
	type arm struct {
		k    int64
		from *ssa.BasicBlock
		to   *ssa.BasicBlock
	}
	var arms []arm
	for _, ifi := range core.Ifs(fn) {
		cd := core.CondOf(ifi)
		if cd.Op != token.EQL {
			continue
		}
		x, y := cd.X, cd.Y
		if _, isC := core.ConstInt(x); isC {
			x, y = y, x
		}
		prm, ok := core.Unwrap(core.ForwardLoad(x)).(*ssa.Parameter)
		k, isC := core.ConstInt(y)
		if !ok || !isC || !isIntT(prm.Type()) {
			continue
		}
		if width != nil && width != prm {
			continue
		}
		width = prm
		arms = append(arms, arm{k, ifi.Block(), cd.True})
		match[edgeKey{ifi.Block(), cd.True}] = true
	}
	if len(arms) < 2 {
		return nil
	}
	for _, a := range arms {
		var sels []string
		core.AllInstrs(fn, func(in ssa.Instruction) {
			if !core.EdgeDominates(a.from, a.to, in.Block()) {
				return
			}
			if cc := core.CallCommon(in); cc != nil && cc.IsInvoke() {
				sels = append(sels, cc.Method.Name())
			}
			if ia, ok := in.(*ssa.IndexAddr); ok {
				if _, isSlice := ia.X.Type().Underlying().(*types.Slice); isSlice {
					sels = append(sels, "index")
				}
			}
		})
		si.cases[a.k] = append(si.cases[a.k], sels...)
	}
	// no case matches: raises before returning
	pan := &core.Query{P: p, Pred: func(x ssa.Instruction) bool { _, ok := x.(*ssa.Panic); return ok }}
	t, _ := core.Search(nil, fn.Blocks[0], func(x ssa.Instruction) core.Action {
		if pan.InstrMay(x, nil) {
			return core.Barrier
		}
		if core.IsNormalReturn(x) {
			return core.Target
		}
		return core.Continue
	}, func(a, b *ssa.BasicBlock) bool { return !match[edgeKey{a, b}] })
	si.hasDeflt = t == nil
	return si
}

func runC04R2(c *core.Ctx, codecs []*frameCodec) {
	p := c.P
	pk := p.ByPath[p.Module+"/codec/frame"]
	if pk == nil {
		return
	}
	// pack / unpack: package-level functions with a ByteOrder parameter and a switch on an int parameter
	var packers, unpackers []*ssa.Function
	for _, fn := range p.Funcs {
		if p.PkgRel(fn) != "codec/frame" || fn.Parent() != nil || fn.Signature.Recv() != nil {
			continue
		}
		hasBO := false
		for _, prm := range fn.Params {
			if core.NamedIs(prm.Type(), "encoding/binary", "ByteOrder") {
				hasBO = true
			}
		}
		if !hasBO {
			continue
		}
		puts, gets := false, false
		core.AllInstrs(fn, func(in ssa.Instruction) {
			if cc := core.CallCommon(in); cc != nil && cc.IsInvoke() {
				if strings.HasPrefix(cc.Method.Name(), "PutUint") {
					puts = true
				} else if strings.HasPrefix(cc.Method.Name(), "Uint") {
					gets = true
				}
			}
		})
		if puts {
			packers = append(packers, fn)
		}
		if gets {
			unpackers = append(unpackers, fn)
		}
	}
	c.Instance("R2")
	if len(packers) != 1 || len(unpackers) != 1 {
		c.Unk("R2", "pack-unpack/found", "", fmt.Sprintf("expected one length packer and one unpacker taking a ByteOrder, found %d / %d", len(packers), len(unpackers)))
		return
	}
	pf, uf := packers[0], unpackers[0]
	c.FuncsSeen[p.QName(pf)] = true
	c.FuncsSeen[p.QName(uf)] = true
	psw := widthTable(p, pf)
	usw := widthTable(p, uf)
	if psw == nil || usw == nil {
		c.Unk("R2", "pack-unpack/switch", p.Pos(pf.Pos()), "width switch not found in packer/unpacker")
		return
	}
	keys := func(m map[int64][]string) string {
		var ks []int
		for k := range m {
			ks = append(ks, int(k))
		}
		sort.Ints(ks)
		return fmt.Sprint(ks)
	}
	c.Check(keys(psw.cases) == keys(usw.cases), "R2", "pack-unpack/case-sets", p.Pos(pf.Pos()), "packer and unpacker handle the same widths "+keys(psw.cases), "packer handles widths "+keys(psw.cases)+" but unpacker handles "+keys(usw.cases))
	for k := range psw.cases {
		c.Instance("R2")
		want := fmt.Sprintf("Uint%d", k*8)
		okp, oku := false, false
		for _, s := range psw.cases[k] {
			if s == "Put"+want || (k == 1 && s == "index") {
				okp = true
			}
		}
		for _, s := range usw.cases[k] {
			if s == want || (k == 1 && s == "index") {
				oku = true
			}
		}
		// no other width used in that case
		for _, s := range psw.cases[k] {
			if strings.HasPrefix(s, "PutUint") && s != "Put"+want {
				okp = false
			}
		}
		for _, s := range usw.cases[k] {
			if strings.HasPrefix(s, "Uint") && s != want {
				oku = false
			}
		}
		c.Check(okp && oku, "R2", fmt.Sprintf("pack-unpack/width-%d", k), p.Pos(pf.Pos()), "both sides use the "+want+" accessor", fmt.Sprintf("width %d: packer uses %v, unpacker uses %v (want %s on both sides)", k, psw.cases[k], usw.cases[k], want))
	}
	c.Instance("R2")
	c.Check(psw.hasDeflt && usw.hasDeflt, "R2", "pack-unpack/default-raises", p.Pos(pf.Pos()), "both default arms raise", "a default arm of the width switch does not raise (an unsupported width silently produces an empty length)")
	// byte order: the accessor is invoked on the function's own ByteOrder parameter
	for _, fn := range []*ssa.Function{pf, uf} {
		c.Instance("R2")
		good := true
		core.AllInstrs(fn, func(in ssa.Instruction) {
			if cc := core.CallCommon(in); cc != nil && cc.IsInvoke() && (strings.HasPrefix(cc.Method.Name(), "PutUint") || strings.HasPrefix(cc.Method.Name(), "Uint")) {
				if core.ParamOf(fn, cc.Value) < 0 {
					good = false
				}
			}
		})
		c.Check(good, "R2", "byte-order-param/"+core.FName(fn), p.Pos(fn.Pos()), "uses the byte order it is given", "a fixed byte order is used instead of the configured one")
		// call sites pass the receiver's byteOrder field and width field
		for _, caller := range p.Funcs {
			core.AllInstrs(caller, func(x ssa.Instruction) {
				cc := core.CallCommon(x)
				if cc == nil || cc.IsInvoke() || cc.StaticCallee() != fn {
					return
				}
				c.Instance("R2")
				bo := cc.Args[0]
				f, base := core.FieldOf(bo)
				okc := f != nil && core.NamedIs(f.Type(), "encoding/binary", "ByteOrder") && core.ParamOf(caller, base) == 0
				if pi := core.ParamOf(caller, bo); pi >= 0 && core.NamedIs(caller.Params[pi].Type(), "encoding/binary", "ByteOrder") {
					okc = true // helper forwarding the byte order it was given
				}
				c.Check(okc, "R2", "byte-order-arg/"+core.FName(caller), p.InstrPos(x), "passes the codec's configured byte order", "the codec does not pass its configured byte order to the length packer/unpacker")
			})
		}
	}
	// constructors admit the same widths
	for _, fn := range p.Funcs {
		if p.PkgRel(fn) != "codec/frame" || fn.Parent() != nil || fn.Object() == nil || !fn.Object().Exported() {
			continue
		}
		// the widths the constructor admits, decided by evaluating the constructor for each candidate value of an
		// int parameter that is compared with constants (== / !=): the membership assertion may be spelled as a
		// != chain, a switch in a predicate helper that the normal form inlines, AssertIf(...) or if/panic
		var wprm *ssa.Parameter
		cands := map[int64]bool{}
		for k := range psw.cases {
			cands[k] = true
		}
		core.AllInstrs(fn, func(in ssa.Instruction) {
			b, ok := in.(*ssa.BinOp)
			if !ok || (b.Op != token.NEQ && b.Op != token.EQL) {
				return
			}
			x, y := b.X, b.Y
			if _, isC := core.ConstInt(x); isC {
				x, y = y, x
			}
			if !isIntT(x.Type()) {
				return
			}
			k, isC := core.ConstInt(y)
			if !isC {
				return
			}
			x = stripConv(x)
			pi := core.ParamOf(fn, x)
			if pi < 0 {
				// validated after construction: a load of an int field of the codec being built, which a parameter was stored into
				f, base := core.FieldOf(x)
				if f == nil {
					return
				}
				core.AllInstrs(fn, func(y ssa.Instruction) {
					if st, ok := y.(*ssa.Store); ok {
						if sf, sb := core.FieldOf(st.Addr); sf == f && sb == base {
							if qi := core.ParamOf(fn, stripConv(st.Val)); qi >= 0 {
								pi = qi
							}
						}
					}
				})
				if pi < 0 {
					return
				}
			}
			if wprm != nil && wprm != fn.Params[pi] {
				return // first compared parameter is the width (a second one would need its own table)
			}
			wprm = fn.Params[pi]
			cands[k] = true
		})
		if wprm == nil {
			continue
		}
		c.Instance("R2")
		m := map[int64][]string{}
		for k := range cands {
			if admitsValue(p, fn, wprm, k, false) {
				m[k] = nil
			}
		}
		if admitsValue(p, fn, wprm, 0, true) {
			m[-1] = nil // a value different from every constant the constructor mentions is let through
		}
		subset := true
		for k := range m {
			if _, ok := psw.cases[k]; !ok {
				subset = false
			}
		}
		c.Check(subset && len(m) > 0, "R2", "constructor-widths/"+core.FName(fn), p.Pos(fn.Pos()), "admits only widths the packer handles: "+keys(m), "constructor admits widths "+keys(m)+" (-1: any other value) but the packer handles "+keys(psw.cases))
		// default encoder built from own parameters
		core.AllInstrs(fn, func(in ssa.Instruction) {
			cc := core.CallCommon(in)
			if cc == nil || cc.IsInvoke() || cc.StaticCallee() == nil || cc.StaticCallee() == fn || !cc.StaticCallee().Object().Exported() || p.PkgRel(cc.StaticCallee()) != "codec/frame" {
				return
			}
			callee := cc.StaticCallee()
			c.Instance("R2")
			good := true
			for i, prm := range callee.Params {
				if i >= len(cc.Args) {
					break
				}
				switch {
				case core.NamedIs(prm.Type(), "encoding/binary", "ByteOrder"):
					if core.ParamOf(fn, cc.Args[i]) < 0 || !core.NamedIs(fn.Params[core.ParamOf(fn, cc.Args[i])].Type(), "encoding/binary", "ByteOrder") {
						good = false
					}
				case strings.EqualFold(prm.Name(), "lengthFieldLength"):
					pi := core.ParamOf(fn, cc.Args[i])
					if pi < 0 || !strings.EqualFold(fn.Params[pi].Name(), "lengthFieldLength") {
						good = false
					}
				}
			}
			c.Check(good, "R2", "default-encoder-args/"+core.FName(fn), p.InstrPos(in), "default encoder gets the codec's own byte order and width", "the codec's default encoder is not built from the codec's own byte order / field width (encoder and decoder disagree)")
		})
	}
	// varint pair and delimiter pair
	for _, fc := range codecs {
		if fc.read == nil || fc.write == nil {
			continue
		}
		var rdU, wrU bool
		core.AllInstrs(fc.read, func(in ssa.Instruction) {
			if core.IsPkgFunc(in, "encoding/binary", "ReadUvarint") {
				rdU = true
			}
			if core.IsPkgFunc(in, "encoding/binary", "ReadVarint") {
				rdU = false
			}
		})
		core.AllInstrs(fc.write, func(in ssa.Instruction) {
			if core.IsPkgFunc(in, "encoding/binary", "PutUvarint") {
				wrU = true
			}
		})
		if rdU || wrU {
			c.Instance("R2")
			c.Check(rdU && wrU, "R2", "varint-pair/"+fc.t.Obj().Name(), p.Pos(fc.read.Pos()), "PutUvarint on write, ReadUvarint on read", "varint encoder and decoder do not use the same (unsigned) varint encoding")
			// both bounded by the same max field
			var maxF *types.Var
			for _, f := range fieldsOfNamed(fc.t) {
				if isIntT(f.Type()) {
					maxF = f
				}
			}
			usesMax := func(fn *ssa.Function) bool {
				u := false
				core.AllInstrs(fn, func(in ssa.Instruction) {
					if ld, ok := in.(*ssa.UnOp); ok {
						if f, _ := core.FieldOf(ld); f == maxF && maxF != nil {
							u = true
						}
					}
				})
				return u
			}
			c.Check(maxF != nil && usesMax(fc.read) && usesMax(fc.write), "R2", "varint-max/"+fc.t.Obj().Name(), p.Pos(fc.read.Pos()), "both sides are bounded by the same maximum field", "varint encoder and decoder are not both bounded by the codec's maximum frame length field")
		}
		var delimF *types.Var
		for _, f := range fieldsOfNamed(fc.t) {
			if isPlainByteSlice(f.Type()) && p.DeclMethod(fc.t, "HandleWrite") != nil && fieldUsedInBoth(p, fc, f) {
				delimF = f
			}
		}
		if delimF != nil {
			c.Instance("R2")
			uses := func(fn *ssa.Function) bool {
				u := false
				core.AllInstrs(fn, func(in ssa.Instruction) {
					if ld, ok := in.(*ssa.UnOp); ok {
						if f, _ := core.FieldOf(ld); f == delimF {
							u = true
						}
					}
				})
				return u
			}
			c.Check(uses(fc.read) && uses(fc.write), "R2", "delimiter-pair/"+fc.t.Obj().Name(), p.Pos(fc.read.Pos()), "encoder appends and decoder matches the same delimiter field", "delimiter encoder and decoder do not both use the configured delimiter field")
			// every downstream write of the encoder carries the delimiter
			for _, call := range downstreamCalls(fc.write, "HandleWrite") {
				c.Instance("R2")
				carries := false
				seen := map[ssa.Value]bool{}
				var walk func(v ssa.Value, d int)
				walk = func(v ssa.Value, d int) {
					if v == nil || seen[v] || d > 8 {
						return
					}
					seen[v] = true
					if f, _ := core.FieldOf(v); f == delimF {
						carries = true
					}
					switch x := v.(type) {
					case *ssa.MakeInterface:
						walk(x.X, d+1)
					case *ssa.ChangeInterface:
						walk(x.X, d+1)
					case *ssa.Slice:
						walk(x.X, d+1)
					case *ssa.Call:
						for _, a := range x.Call.Args {
							walk(a, d+1)
						}
					case *ssa.Alloc:
						for _, ref := range *x.Referrers() {
							if ia, ok := ref.(*ssa.IndexAddr); ok {
								for _, r2 := range *ia.Referrers() {
									if st, ok := r2.(*ssa.Store); ok {
										walk(st.Val, d+1)
									}
								}
							}
						}
					case *ssa.UnOp:
						walk(x.X, d+1)
					}
				}
				walk(call.Call.Args[0], 0)
				c.Check(carries, "R2", "delimiter-appended/"+fc.t.Obj().Name(), p.InstrPos(call), "the downstream message contains the delimiter field", "an encoder path forwards the body without appending the configured delimiter")
			}
		}
	}
}

func isLenOrCap(v ssa.Value) bool {
	call, ok := v.(*ssa.Call)
	if !ok {
		return false
	}
	if _, ok := core.IsBuiltinCall(call, "len"); ok {
		return true
	}
	_, ok = core.IsBuiltinCall(call, "cap")
	return ok
}

func isPlainByteSlice(t types.Type) bool {
	sl, ok := t.Underlying().(*types.Slice)
	if !ok {
		return false
	}
	b, ok := sl.Elem().Underlying().(*types.Basic)
	return ok && b.Kind() == types.Byte
}

// fieldUsedInBoth: the []byte configuration field is read by both the decoder and the encoder (the delimiter role).
func fieldUsedInBoth(p *core.Prog, fc *frameCodec, f *types.Var) bool {
	uses := func(fn *ssa.Function) bool {
		u := false
		if fn == nil {
			return false
		}
		core.AllInstrs(fn, func(in ssa.Instruction) {
			if ld, ok := in.(*ssa.UnOp); ok {
				if fv, _ := core.FieldOf(ld); fv == f {
					u = true
				}
			}
		})
		return u
	}
	// a read-side scratch buffer is written by the decoder (Read into it); the delimiter is only read
	written := false
	if fc.read != nil {
		core.AllInstrs(fc.read, func(in ssa.Instruction) {
			if cc := core.CallCommon(in); cc != nil && cc.IsInvoke() && cc.Method.Name() == "Read" {
				for _, a := range cc.Args {
					if fv, _ := core.FieldOf(core.Unwrap(a)); fv == f {
						written = true
					}
				}
			}
		})
	}
	return uses(fc.read) && uses(fc.write) && !written
}

// runStripBase: every io.CopyN(io.Discard, src, n) in the frame package that skips the leading bytes of a
// frame either reads from a reader whose first part is the header bytes already consumed from the wire
// (io.MultiReader(bytes.NewReader(header), body)) or uses a count from which the header length was subtracted.
// Skipping n bytes of the body alone removes payload bytes the configuration asked to keep.
func runStripBase(c *core.Ctx) {
	p := c.P
	resolve := func(v ssa.Value) ssa.Value {
		for d := 0; d < 4; d++ {
			v = core.Unwrap(v)
			if prm, ok := v.(*ssa.Parameter); ok {
				if a := core.ParamArg(prm); a != nil {
					v = a
					continue
				}
			}
			break
		}
		return v
	}
	n := 0
	for _, fn := range p.Funcs {
		if p.PkgRel(fn) != "codec/frame" {
			continue
		}
		core.AllInstrs(fn, func(in ssa.Instruction) {
			if !core.IsPkgFunc(in, "io", "CopyN") {
				return
			}
			cc := core.CallCommon(in)
			isDiscard := false
			if ld, ok := core.Unwrap(cc.Args[0]).(*ssa.UnOp); ok {
				if g, ok := ld.X.(*ssa.Global); ok && g.Name() == "Discard" {
					isDiscard = true
				}
			}
			if !isDiscard {
				return
			}
			n++
			c.Instance("R7")
			src := resolve(cc.Args[1])
			fromHeader := false
			if call, ok := src.(*ssa.Call); ok && core.IsPkgFunc(call, "io", "MultiReader") {
				// first element of the variadic slice
				var cells []ssa.Value
				if sl, ok := core.Unwrap(call.Call.Args[0]).(*ssa.Slice); ok {
					if al, ok := sl.X.(*ssa.Alloc); ok {
						for _, ref := range *al.Referrers() {
							if ia, ok := ref.(*ssa.IndexAddr); ok {
								cells = append(cells, ia)
							}
						}
					}
				}
				for _, v := range cells {
					ia, ok := v.(*ssa.IndexAddr)
					if !ok {
						continue
					}
					if k, isC := core.ConstInt(ia.Index); !isC || k != 0 {
						continue
					}
					for _, ref := range *ia.Referrers() {
						if st, ok := ref.(*ssa.Store); ok && st.Addr == ssa.Value(ia) {
							if first, ok := core.Unwrap(st.Val).(*ssa.Call); ok && (core.IsPkgFunc(first, "bytes", "NewReader") || core.IsPkgFunc(first, "bytes", "NewBuffer")) {
								fromHeader = true
							}
						}
					}
				}
			}
			subtracts := false
			for v := range taintBack(cc.Args[2]) {
				if b, ok := v.(*ssa.BinOp); ok && b.Op == token.SUB {
					subtracts = true
				}
			}
			c.Check(fromHeader || subtracts, "R7", "strip-base/"+core.FName(fn), p.InstrPos(in), "the skipped bytes are counted from the first byte of the frame", "leading bytes are skipped on a reader that does not start with the frame's header, with a count that does not subtract the header length: payload bytes are dropped")
		})
	}
	if n == 0 {
		c.Instance("R7")
		c.OK("R7", "strip-base", "", "no decoder skips leading bytes with io.CopyN")
	}
}

// calleeWritesArg: the call instruction `in` writes through its slice argument a: the destination of copy, the
// buffer of a ByteOrder.PutUintNN / binary.PutUvarint / io.ReadFull / Read, or a repository function whose
// corresponding parameter is written (element store, or passed on to such a callee).
func calleeWritesArg(p *core.Prog, in ssa.Instruction, a ssa.Value, depth int) bool {
	if depth > 2 {
		return false
	}
	if args, ok := core.IsBuiltinCall(in, "copy"); ok {
		return len(args) > 0 && sameOrigin(args[0], a)
	}
	cc := core.CallCommon(in)
	if cc == nil {
		return false
	}
	if cc.IsInvoke() {
		n := cc.Method.Name()
		if strings.HasPrefix(n, "Put") || n == "Read" {
			for _, x := range cc.Args {
				if sameOrigin(x, a) {
					return true
				}
			}
		}
		return false
	}
	if core.IsPkgFunc(in, "encoding/binary", "PutUvarint") || core.IsPkgFunc(in, "encoding/binary", "PutVarint") || core.IsPkgFunc(in, "io", "ReadFull") {
		for _, x := range cc.Args {
			if sameOrigin(x, a) {
				return true
			}
		}
		return false
	}
	f := cc.StaticCallee()
	if f == nil || !p.InRepo(f) || f.Blocks == nil {
		return false
	}
	for i, x := range cc.Args {
		if !sameOrigin(x, a) || i >= len(f.Params) {
			continue
		}
		prm := f.Params[i]
		written := false
		core.AllInstrs(f, func(y ssa.Instruction) {
			if st, ok := y.(*ssa.Store); ok {
				if ia, ok := st.Addr.(*ssa.IndexAddr); ok && sameOrigin(ia.X, prm) {
					written = true
				}
			}
			if yc := core.CallCommon(y); yc != nil || isBuiltinCopy(y) {
				var yargs []ssa.Value
				if yc != nil {
					yargs = yc.Args
				}
				if cargs, ok := core.IsBuiltinCall(y, "copy"); ok {
					yargs = cargs
				}
				for _, ya := range yargs {
					if sameOrigin(ya, prm) && calleeWritesArg(p, y, ya, depth+1) {
						written = true
					}
				}
			}
		})
		if written {
			return true
		}
	}
	return false
}

func isBuiltinCopy(in ssa.Instruction) bool {
	_, ok := core.IsBuiltinCall(in, "copy")
	return ok
}

// sameOrigin: a and b are (re-slicings of) the same slice value.
func sameOrigin(a, b ssa.Value) bool {
	for _, oa := range sliceOrigins(a) {
		for _, ob := range sliceOrigins(b) {
			if oa == ob || core.SameValue(oa, ob) {
				return true
			}
		}
	}
	return false
}

// admitsValue: can constructor fn return normally when its int parameter prm has the value k (other: a value
// different from every constant prm is compared with)? Conditions that do not depend on prm alone are
// followed on both sides. A path ends rejected at a panic or at an AssertIf whose condition evaluates to true.
func admitsValue(p *core.Prog, fn *ssa.Function, prm *ssa.Parameter, k int64, other bool) bool {
	type tri int8 // 0 unknown, 1 true, 2 false
	const (
		unk tri = iota
		yes
		no
	)
	isPrm := func(v ssa.Value) bool {
		v = stripConv(v)
		if v == ssa.Value(prm) {
			return true
		}
		// a load of the field of the object under construction that prm was stored into
		f, base := core.FieldOf(v)
		if f == nil {
			return false
		}
		found := false
		core.AllInstrs(fn, func(y ssa.Instruction) {
			if st, ok := y.(*ssa.Store); ok {
				if sf, sb := core.FieldOf(st.Addr); sf == f && sb == base && stripConv(st.Val) == ssa.Value(prm) {
					found = true
				}
			}
		})
		return found
	}
	var eval func(v ssa.Value, env map[*ssa.Phi]ssa.Value, d int) tri
	eval = func(v ssa.Value, env map[*ssa.Phi]ssa.Value, d int) tri {
		if d > 12 {
			return unk
		}
		switch x := v.(type) {
		case *ssa.Const:
			if isBool(x.Type()) {
				if constBool(x) {
					return yes
				}
				return no
			}
		case *ssa.UnOp:
			if x.Op == token.NOT {
				switch eval(x.X, env, d+1) {
				case yes:
					return no
				case no:
					return yes
				}
			}
		case *ssa.Phi:
			if e, ok := env[x]; ok {
				return eval(e, env, d+1)
			}
		case *ssa.BinOp:
			a, b, op := x.X, x.Y, x.Op
			if _, isC := core.ConstInt(a); isC {
				a, b = b, a
				switch op {
				case token.LSS:
					op = token.GTR
				case token.GTR:
					op = token.LSS
				case token.LEQ:
					op = token.GEQ
				case token.GEQ:
					op = token.LEQ
				}
			}
			cst, isC := core.ConstInt(b)
			if !isC || !isPrm(a) {
				return unk
			}
			if other {
				switch op {
				case token.EQL:
					return no
				case token.NEQ:
					return yes
				}
				return unk
			}
			var r bool
			switch op {
			case token.EQL:
				r = k == cst
			case token.NEQ:
				r = k != cst
			case token.LSS:
				r = k < cst
			case token.LEQ:
				r = k <= cst
			case token.GTR:
				r = k > cst
			case token.GEQ:
				r = k >= cst
			default:
				return unk
			}
			if r {
				return yes
			}
			return no
		}
		return unk
	}
	type state struct {
		b, pred *ssa.BasicBlock
	}
	seen := map[state]int{}
	admitted := false
	var walk func(b, pred *ssa.BasicBlock, env map[*ssa.Phi]ssa.Value)
	walk = func(b, pred *ssa.BasicBlock, env map[*ssa.Phi]ssa.Value) {
		if admitted || seen[state{b, pred}] > 8 {
			return
		}
		seen[state{b, pred}]++
		if pred != nil {
			idx := -1
			for i, pb := range b.Preds {
				if pb == pred {
					idx = i
				}
			}
			ne := map[*ssa.Phi]ssa.Value{}
			for k2, v := range env {
				ne[k2] = v
			}
			for _, in := range b.Instrs {
				phi, ok := in.(*ssa.Phi)
				if !ok {
					break
				}
				if idx >= 0 {
					e := phi.Edges[idx]
					// a φ fed by a φ of the path so far takes that φ's chosen value
					if p2, ok := e.(*ssa.Phi); ok {
						if v, ok := env[p2]; ok {
							e = v
						}
					}
					ne[phi] = e
				}
			}
			env = ne
		}
		for _, in := range b.Instrs {
			switch x := in.(type) {
			case *ssa.Panic:
				return
			case *ssa.Return:
				admitted = true
				return
			case *ssa.If:
				switch eval(x.Cond, env, 0) {
				case yes:
					walk(b.Succs[0], b, env)
				case no:
					walk(b.Succs[1], b, env)
				default:
					walk(b.Succs[0], b, env)
					walk(b.Succs[1], b, env)
				}
				return
			case *ssa.Jump:
				walk(b.Succs[0], b, env)
				return
			default:
				if cond, ok := isAssertIf(p, in); ok && eval(cond, env, 0) == yes {
					return
				}
			}
		}
	}
	if len(fn.Blocks) > 0 {
		walk(fn.Blocks[0], nil, map[*ssa.Phi]ssa.Value{})
	}
	return admitted
}
