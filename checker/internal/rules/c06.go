package rules

import (
	"go/token"
	"go/types"
	"strings"

	"golang.org/x/tools/go/ssa"
	"verif/checker/internal/core"
)

func init() {
	register(&Property{
		ID:    "C06",
		Title: "Graceful close delivers every payload accepted before Close",
		Explanation: "DECIDES (given the sender protocol established by C02): R1 on queued channels every path of the winning Close from the CAS to transport.Close passes the exit of a wait whose exit condition is the quiescence predicate; only the bounded-wait configuration (untilWrite==false) may also leave through the iteration bound; " +
			"R2 the quiescence predicate is sound for a release-then-recheck sender: it yields true only after observing len(writeQueue)==0 and, after that, Load(running)==idle (queue first, flag second; the flag alone admits the lost-packet schedule); " +
			"R3 the sender writes/flushes/dequeues only while it owns the flag, so idle observed after an empty queue means the last batch was written and flushed (with C02-R4); " +
			"R4 in the HTTP request loop the connection-close request is issued only after the request was delivered (response produced) in the same iteration. " +
			"ALSO: every iteration of the bounded wait waits the poll interval; every Executor starts its action on every path; queue buffers are private and only read below the queue (imports listed in RULES.md). " +
			"DOES NOT DECIDE: the length of the grace period, that the transport accepts the batch, Close racing with writes that had not returned.",
		Assumptions: []string{"C02's rules hold (checked separately)", "no write is accepted after Close started (C11 entry checks)"},
		Run:         runC06,
	})
}

func (e *ev) runningIdleCmp(v ssa.Value) (isIdleWhenTrue bool, ok bool) {
	b, ok2 := v.(*ssa.BinOp)
	if !ok2 || (b.Op != token.EQL && b.Op != token.NEQ) {
		return false, false
	}
	x, y := b.X, b.Y
	if yi, ok3 := y.(ssa.Instruction); ok3 && e.runningLoad(yi) {
		x, y = y, x
	}
	xi, ok3 := x.(ssa.Instruction)
	if !ok3 || !e.runningLoad(xi) {
		return false, false
	}
	k, isC := core.ConstInt(y)
	if !isC || k != 0 {
		return false, false
	}
	return b.Op == token.EQL, true
}

// edge classification inside one function
type edgeKey [2]*ssa.BasicBlock

func (e *ev) queueEmptyEdges(fn *ssa.Function) map[edgeKey]bool {
	out := map[edgeKey]bool{}
	isLen := func(v ssa.Value) bool {
		in, ok := v.(ssa.Instruction)
		return ok && e.queueLen(in)
	}
	for _, ifi := range core.Ifs(fn) {
		if empty, _, ok := emptinessEdges(ifi, isLen); ok {
			out[edgeKey{ifi.Block(), empty}] = true
		}
	}
	return out
}

func (e *ev) idleEdges(fn *ssa.Function) map[edgeKey]bool {
	out := map[edgeKey]bool{}
	for _, ifi := range core.Ifs(fn) {
		cd := core.CondOf(ifi)
		if cd.Op == token.ILLEGAL {
			continue
		}
		var load, other ssa.Value
		if xi, ok := cd.X.(ssa.Instruction); ok && e.runningLoad(xi) {
			load, other = cd.X, cd.Y
		} else if yi, ok := cd.Y.(ssa.Instruction); ok && e.runningLoad(yi) {
			load, other = cd.Y, cd.X
		}
		if load == nil {
			continue
		}
		if k, isC := core.ConstInt(other); !isC || k != 0 {
			continue
		}
		switch cd.Op {
		case token.EQL:
			out[edgeKey{ifi.Block(), cd.True}] = true
		case token.NEQ:
			out[edgeKey{ifi.Block(), cd.False}] = true
		}
	}
	return out
}

// senderFailedFlags: int32 fields of the channel whose only writes are Store(f, non-zero constant) in the
// sender's deferred recover closure ("the sender died: nothing more can be delivered").
func (e *ev) senderFailedFlags() map[*types.Var]bool {
	out := map[*types.Var]bool{}
	bad := map[*types.Var]bool{}
	for _, fn := range e.p.Funcs {
		core.AllInstrs(fn, func(in ssa.Instruction) {
			a := core.AsAtomic(in)
			if a == nil || a.Field == nil || a.Field == e.r.Running || a.Field == e.r.Closed {
				return
			}
			if a.Kind == "load" {
				return
			}
			okStore := false
			if a.Kind == "store" && len(a.Args) == 1 {
				if k, isC := core.ConstInt(a.Args[0]); isC && k != 0 {
					// inside a recovering deferred closure of the sender
					if core.Outermost(fn) == e.r.Sender && fn != e.r.Sender {
						for _, fr := range recoverFrames(e.r.Sender) {
							if fr.Closure == fn {
								okStore = true
							}
						}
					}
				}
			}
			if okStore {
				out[a.Field] = true
			} else {
				bad[a.Field] = true
			}
		})
	}
	for f := range bad {
		delete(out, f)
	}
	return out
}

// failedEdges: edges of fn asserting that a sender-failed flag is set.
func (e *ev) failedEdges(fn *ssa.Function) map[edgeKey]bool {
	out := map[edgeKey]bool{}
	flags := e.senderFailedFlags()
	if len(flags) == 0 {
		return out
	}
	for _, ifi := range core.Ifs(fn) {
		cd := core.CondOf(ifi)
		if cd.Op != token.EQL && cd.Op != token.NEQ {
			continue
		}
		for _, side := range [][2]ssa.Value{{cd.X, cd.Y}, {cd.Y, cd.X}} {
			li, ok := side[0].(ssa.Instruction)
			if !ok {
				continue
			}
			a := core.AsAtomic(li)
			if a == nil || a.Kind != "load" || !flags[a.Field] {
				continue
			}
			if k, isC := core.ConstInt(side[1]); isC && k == 0 {
				if cd.Op == token.NEQ {
					out[edgeKey{ifi.Block(), cd.True}] = true
				} else {
					out[edgeKey{ifi.Block(), cd.False}] = true
				}
			}
		}
	}
	return out
}

// quiescentFunc verifies that a bool function returns true only after len(queue)==0 then running==idle
// (or after observing that the sender failed).
func (e *ev) quiescentFunc(fn *ssa.Function) (bool, string) {
	if fn == nil || fn.Blocks == nil || fn.Signature.Results().Len() != 1 || !isBool(fn.Signature.Results().At(0).Type()) {
		return false, "not a bool function"
	}
	empties := e.queueEmptyEdges(fn)
	idles := e.idleEdges(fn)
	failed := e.failedEdges(fn)
	okAll := true
	why := ""
	n := 0
	core.AllInstrs(fn, func(in ssa.Instruction) {
		ret, ok := in.(*ssa.Return)
		if !ok {
			return
		}
		n++
		v := ret.Results[0]
		if c, ok := v.(*ssa.Const); ok && !constBool(c) {
			return // returns false
		}
		needIdleEdge := true
		if isIdle, ok := e.runningIdleCmp(v); ok {
			if !isIdle {
				okAll, why = false, "returns running != idle as 'quiescent'"
				return
			}
			needIdleEdge = false
			// the flag load must come after a queue observation
			load := v.(*ssa.BinOp).X
			if _, isI := load.(ssa.Instruction); !isI || !e.runningLoad(load.(ssa.Instruction)) {
				load = v.(*ssa.BinOp).Y
			}
			dominated := false
			core.AllInstrs(fn, func(x ssa.Instruction) {
				if e.queueLen(x) && core.Dominates(x, load.(ssa.Instruction)) {
					dominated = true
				}
			})
			if !dominated {
				okAll, why = false, "the sender flag is read before (or without) observing the queue length"
				return
			}
		} else if phi, ok := v.(*ssa.Phi); ok {
			// short-circuit && and merged exits: every non-false incoming value must be the idle comparison reached
			// after the empty edge, or a `true` reached like a plain `return true`; nested φs are followed
			var edge func(ed ssa.Value, pred *ssa.BasicBlock, d int)
			edge = func(ed ssa.Value, pred *ssa.BasicBlock, d int) {
				if !okAll {
					return
				}
				if k, ok := ed.(*ssa.Const); ok && !constBool(k) {
					return
				}
				fake := pred.Instrs[len(pred.Instrs)-1]
				if k, ok := ed.(*ssa.Const); ok && constBool(k) {
					if reachWithout(fn, fake, empties, idles, failed, true) {
						okAll, why = false, "can return true without observing len(writeQueue)==0 and then running==idle, in that order"
					}
					return
				}
				if inner, ok := ed.(*ssa.Phi); ok && d < 4 {
					for i, e2 := range inner.Edges {
						edge(e2, inner.Block().Preds[i], d+1)
					}
					return
				}
				isIdle, ok := e.runningIdleCmp(ed)
				if !ok || !isIdle {
					okAll, why = false, "a conjunct of the returned condition is not the idle test of the sender flag: "+ed.String()
					return
				}
				if reachWithout(fn, fake, empties, idles, failed, false) {
					okAll, why = false, "can report quiescence without having observed the write queue empty first (the flag alone reads idle between the sender's release and its re-check: accepted packet lost on Close)"
				}
			}
			for i, ed := range phi.Edges {
				edge(ed, phi.Block().Preds[i], 0)
			}
			return
		} else if c, ok := v.(*ssa.Const); !(ok && constBool(c)) {
			okAll, why = false, "return value shape not recognised: "+v.String()
			return
		}
		// product search: entry -> ret must pass an empty edge and then (if needed) an idle edge
		if reachWithout(fn, ret, empties, idles, failed, needIdleEdge) {
			okAll = false
			if needIdleEdge {
				why = "can return true without observing len(writeQueue)==0 and then running==idle, in that order"
			} else {
				why = "can report quiescence without having observed the write queue empty (the flag alone reads idle between the sender's release and its re-check: accepted packet lost on Close)"
			}
		}
	})
	if n == 0 {
		return false, "no return"
	}
	return okAll, why
}

func constBool(c *ssa.Const) bool {
	if c.Value == nil {
		return false
	}
	return c.Value.String() == "true"
}

func isBool(t types.Type) bool {
	b, ok := t.Underlying().(*types.Basic)
	return ok && b.Kind() == types.Bool
}

// reachWithout: is `target` reachable from entry on a path that has NOT passed (an empty edge, then
// when needIdle an idle edge)? state 0 = nothing, 1 = empty seen, 2 = empty then idle seen.
func reachWithout(fn *ssa.Function, target ssa.Instruction, empties, idles, failed map[edgeKey]bool, needIdle bool) bool {
	type st struct {
		b *ssa.BasicBlock
		s int
	}
	goal := 1
	if needIdle {
		goal = 2
	}
	seen := map[st]bool{}
	work := []st{{fn.Blocks[0], 0}}
	seen[work[0]] = true
	for len(work) > 0 {
		cur := work[len(work)-1]
		work = work[:len(work)-1]
		if cur.b == target.Block() && cur.s < goal {
			return true
		}
		for _, nb := range cur.b.Succs {
			s := cur.s
			k := edgeKey{cur.b, nb}
			if failed[k] {
				s = goal
			} else if s == 0 && empties[k] {
				s = 1
			} else if s == 1 && needIdle && idles[k] {
				s = 2
			} else if s >= 1 && !empties[k] && false {
				s = cur.s
			}
			n := st{nb, s}
			if !seen[n] {
				seen[n] = true
				work = append(work, n)
			}
		}
	}
	return false
}

// ruleFailedSenderReleasesCloser: when a sender-failed flag exists, the quiescence predicate consults it before
// anything else and answers true on its set side - otherwise a Close issued by (or after) a failed sender
// waits on a queue nobody drains. Shared by C05/C06/C07.
func ruleFailedSenderReleasesCloser(c *core.Ctx, e *ev, R string) {
	p := c.P
	flags := e.senderFailedFlags()
	if len(flags) == 0 {
		return
	}
	K := e.r.Closer
	// the predicate may be called from Close itself or from a wait helper Close calls
	scope := []*ssa.Function{K}
	inScope := map[*ssa.Function]bool{K: true}
	for d := 0; d < 2; d++ {
		for _, g := range append([]*ssa.Function{}, scope...) {
			core.AllInstrs(g, func(in ssa.Instruction) {
				if call, ok := in.(*ssa.Call); ok && !call.Call.IsInvoke() {
					if f := call.Call.StaticCallee(); f != nil && p.InRepo(f) && !inScope[f] && f.Signature.Results().Len() == 0 && f.Signature.Recv() != nil {
						inScope[f] = true
						scope = append(scope, f)
					}
				}
			})
		}
	}
	seenPred := map[*ssa.Function]bool{}
	scan := func(in ssa.Instruction) {
		call, ok := in.(*ssa.Call)
		if !ok || call.Call.IsInvoke() {
			return
		}
		f := call.Call.StaticCallee()
		if f == nil || seenPred[f] || !p.InRepo(f) || f.Signature.Results().Len() != 1 || !isBool(f.Signature.Results().At(0).Type()) {
			return
		}
		seenPred[f] = true
		q := &core.Query{P: p, Pred: func(x ssa.Instruction) bool { return e.runningLoad(x) || e.queueLen(x) }}
		if !q.May(f, nil) {
			return
		}
		c.Instance(R)
		failed := e.failedEdges(f)
		good := len(failed) > 0
		why := "the quiescence predicate never consults the sender-failed flag"
		for k := range failed {
			// the test sits before any queue / flag observation
			var obs ssa.Instruction
			core.AllInstrs(f, func(x ssa.Instruction) {
				if (e.queueLen(x) || e.runningLoad(x)) && obs == nil {
					if !k[0].Dominates(x.Block()) || k[0] == x.Block() {
						// observation in a block not dominated by the failed test, or in the same block before it
						if k[0] != x.Block() {
							obs = x
						} else {
							// same block: is the observation before the If? always (If is last) -> observation precedes the test
							obs = x
						}
					}
				}
			})
			if obs != nil {
				good, why = false, "the sender-failed flag is consulted only after observing the queue / the running flag: with packets still queued behind a failed batch the closer waits forever (the channel never finishes closing)"
			}
			// set side returns true on every path
			t, _ := core.Search(nil, k[1], func(x ssa.Instruction) core.Action {
				if ret, ok := x.(*ssa.Return); ok {
					// a merged exit returns a φ: the values it carries on paths from the failed side
					allTrue := true
					for _, v := range phiEdgesFrom(ret.Results[0], k[1], nil) {
						if kc, ok := v.(*ssa.Const); !ok || !constBool(kc) {
							allTrue = false
						}
					}
					if allTrue {
						return core.Barrier
					}
					return core.Target
				}
				return core.Continue
			}, nil)
			if t != nil {
				good, why = false, "on the sender-failed side the predicate does not answer true unconditionally"
			}
		}
		c.Check(good, R, "failed-sender-releases-closer/"+core.FName(f), p.Pos(f.Pos()), "a failed sender releases a waiting Close immediately", why)
	}
	for _, g := range scope {
		core.AllInstrs(g, scan)
	}
}

func runC06(c *core.Ctx) {
	e, ok := newEv(c)
	if !ok {
		return
	}
	p, r := c.P, e.r
	K := r.Closer
	c.FuncsSeen[p.QName(K)] = true
	c.Rule("R1", "the winning Close reaches transport.Close on a queued channel only through the quiescent exit of its wait (bounded exit only when untilWrite==false)", 1)
	c.Rule("R2", "quiescence = len(writeQueue)==0 observed first, Load(running)==idle second", 1)
	c.Rule("R3", "the sender touches queue/transport only while it owns the flag", 1)
	c.Rule("R4", "HTTP request loop: connection close requested after the request was delivered", 1)

	// the CAS and the transport.Close site
	var cas, tclose ssa.Instruction
	core.AllInstrs(K, func(in ssa.Instruction) {
		if e.closedAcquire(in) {
			cas = in
		}
		if e.transportClose(in) {
			tclose = in
		}
	})
	c.Instance("R1")
	if cas == nil || tclose == nil {
		c.Unk("R1", "closer/shape", p.Pos(K.Pos()), "Close has no CAS(closed) / transport.Close in its own body (closer template not recognised)")
		return
	}
	// classify edges in K
	good := map[edgeKey]string{}
	// queue == nil edges
	for _, ifi := range core.Ifs(K) {
		cd := core.CondOf(ifi)
		if cd.Op == token.EQL || cd.Op == token.NEQ {
			var other ssa.Value
			if e.isField(cd.X, r.WriteQueue) {
				other = cd.Y
			} else if e.isField(cd.Y, r.WriteQueue) {
				other = cd.X
			}
			if other != nil && core.IsNilConst(other) {
				nilSucc := cd.True
				if cd.Op == token.NEQ {
					nilSucc = cd.False
				}
				good[edgeKey{ifi.Block(), nilSucc}] = "synchronous channel (no queue)"
			}
		}
	}
	// quiescent-call true edges
	var qfs []*ssa.Function
	core.AllInstrs(K, func(in ssa.Instruction) {
		call, ok := in.(*ssa.Call)
		if !ok || call.Call.IsInvoke() {
			return
		}
		f := call.Call.StaticCallee()
		if f == nil || !p.InRepo(f) || f.Signature.Results().Len() != 1 || !isBool(f.Signature.Results().At(0).Type()) {
			return
		}
		// does it look at the sender flag or the queue at all?
		q := &core.Query{P: p, Pred: func(x ssa.Instruction) bool { return e.runningLoad(x) || e.queueLen(x) }}
		if !q.May(f, nil) {
			return
		}
		qfs = append(qfs, f)
		c.Instance("R2")
		c.FuncsSeen[p.QName(f)] = true
		okq, why := e.quiescentFunc(f)
		c.Check(okq, "R2", "quiescence-predicate/"+core.FName(f), p.Pos(f.Pos()), "true only after len(writeQueue)==0 and then Load(running)==idle", "quiescence predicate unsound: "+why)
		if okq {
			for _, ts := range e.trueEdgesOf(call) {
				for _, pb := range ts.Preds {
					if ifi, ok := pb.Instrs[len(pb.Instrs)-1].(*ssa.If); ok {
						cd := core.CondOf(ifi)
						if cd.X == ssa.Value(call) {
							good[edgeKey{pb, ts}] = "quiescent"
						}
					}
				}
			}
		}
	})
	// inline predicate: empty edge followed by idle edge inside K itself
	empties := e.queueEmptyEdges(K)
	idles := e.idleEdges(K)
	if len(qfs) == 0 {
		c.Instance("R2")
		hasFlagOnly := len(idles) > 0 && len(empties) == 0
		if hasFlagOnly {
			c.Bad("R2", "quiescence-predicate/inline", p.InstrPos(tclose), "quiescence predicate unsound: Close polls only the sender flag; the flag reads idle between the sender's release and its re-check while an accepted packet is still queued (packet lost on Close)")
		} else if len(idles) == 0 && len(empties) == 0 {
			c.Bad("R2", "quiescence-predicate/inline", p.InstrPos(tclose), "Close does not observe the sender flag or the queue before closing the transport (no wait for pending writes)")
		} else {
			c.OK("R2", "quiescence-predicate/inline", p.InstrPos(tclose), "inline predicate observes queue and flag (order checked by R1's path search)")
		}
	}
	// bounded exit: an If comparing an int phi with a constant, allowed only under untilWrite==false
	untilFalse := map[*ssa.BasicBlock]bool{}
	for _, ifi := range core.Ifs(K) {
		cd := core.CondOf(ifi)
		if cd.Op == token.ILLEGAL && e.isField(cd.X, r.UntilWrite) {
			untilFalse[cd.False] = true
		}
	}
	for _, ifi := range core.Ifs(K) {
		cd := core.CondOf(ifi)
		if cd.Op == token.ILLEGAL {
			continue
		}
		_, isPhi := core.Unwrap(cd.X).(*ssa.Phi)
		_, isC := core.ConstInt(cd.Y)
		if !isPhi || !isC || !isIntT(cd.X.Type()) {
			continue
		}
		// the exit side is the one from which the loop body (time.Sleep) is not reachable... take both sides,
		// but only accept when the If's block is reached exclusively through an untilWrite==false edge
		onlyBounded := false
		for ub := range untilFalse {
			if ub.Dominates(ifi.Block()) && len(ub.Preds) == 1 {
				onlyBounded = true
			}
		}
		if onlyBounded {
			for _, s := range ifi.Block().Succs {
				good[edgeKey{ifi.Block(), s}] = "iteration bound of the bounded-wait configuration"
			}
			c.Note("bounded wait: loop bound %s on channels created with untilWrite=false", cd.Y.String())
			// the bound counts poll intervals: every trip round the loop really waits one (time.Sleep, or a receive
			// from a timer channel alone); a select that another event can win makes the grace period shorter than documented
			c.Instance("R1")
			hdr := ifi.Block()
			waits := func(x ssa.Instruction) bool {
				if core.IsPkgFunc(x, "time", "Sleep") {
					return true
				}
				if u, ok := x.(*ssa.UnOp); ok && u.Op == token.ARROW {
					if ch, ok := u.X.Type().Underlying().(*types.Chan); ok && core.NamedIs(ch.Elem(), "time", "Time") {
						return true
					}
				}
				return false
			}
			var short ssa.Instruction
			var spath []*ssa.BasicBlock
			for _, s := range hdr.Succs {
				t, pth := core.Search(nil, s, func(x ssa.Instruction) core.Action {
					if waits(x) {
						return core.Barrier
					}
					if x.Block() == hdr && x == hdr.Instrs[0] {
						return core.Target
					}
					if e.transportClose(x) {
						return core.Barrier
					}
					return core.Continue
				}, nil)
				if t != nil && short == nil {
					short, spath = t, pth
				}
			}
			c.Check(short == nil, "R1", "closer/grace-period-is-waited", p.InstrPos(ifi), "every poll iteration waits the poll interval", "an iteration of the bounded wait can finish without waiting the poll interval (a select another event can win, or no sleep): the grace period given to a busy sender is shorter than the documented bound and Close cuts its batch", p.PathString(spath, short)...)
		}
	}
	// product search: from CAS true edge to tclose; path is fine if it passes a good edge, or (inline) an empty edge then an idle edge
	type st struct {
		b *ssa.BasicBlock
		s int // 0 none, 1 empty seen, 3 done
	}
	bad := false
	var badPath []*ssa.BasicBlock
	for _, ts := range e.trueEdgesOf(cas.(ssa.Value)) {
		seen := map[st]bool{}
		type item struct {
			st
			path []*ssa.BasicBlock
		}
		work := []item{{st{ts, 0}, []*ssa.BasicBlock{ts}}}
		seen[work[0].st] = true
		for len(work) > 0 {
			cur := work[len(work)-1]
			work = work[:len(work)-1]
			if cur.b == tclose.Block() && cur.s != 3 {
				bad = true
				badPath = cur.path
				break
			}
			for _, nb := range cur.b.Succs {
				s := cur.s
				k := edgeKey{cur.b, nb}
				if _, ok := good[k]; ok {
					s = 3
				} else if s == 0 && empties[k] {
					s = 1
				} else if s == 1 && idles[k] {
					s = 3
				} else if s == 1 && !empties[k] {
					// stays 1 only along the evaluation; leaving through the loop body resets
				}
				if s != 3 && isSleepBlock(nb) {
					s = 0
				}
				n := st{nb, s}
				if !seen[n] {
					seen[n] = true
					work = append(work, item{n, append(append([]*ssa.BasicBlock{}, cur.path...), nb)})
				}
			}
		}
	}
	c.Check(!bad, "R1", "closer/waits-for-quiescence", p.InstrPos(tclose),
		"on a queued channel transport.Close is reached only after the quiescence predicate held (or the documented bound of the bounded-wait configuration)",
		"the winning Close can reach transport.Close on a queued channel without the quiescence predicate having held (accepted payloads dropped / batch cut by Close)", p.PathString(badPath, tclose)...)

	// ---- R3 (same rule as C01 sender-owns-flag)
	S := r.Sender
	core.AllInstrs(S, func(in ssa.Instruction) {
		if !e.runningRelease(in) {
			return
		}
		c.Instance("R3")
		acquired := map[edgeKey]bool{}
		core.AllInstrs(S, func(x ssa.Instruction) {
			if e.runningAcquire(x) {
				for _, ts := range e.trueEdgesOf(x.(ssa.Value)) {
					for _, pb := range ts.Preds {
						acquired[edgeKey{pb, ts}] = true
					}
				}
			}
		})
		tgt, path := core.Search(in, nil, func(x ssa.Instruction) core.Action {
			if e.queueRecv(x) || e.transportInvoke(x, "Write", "Writev", "Flush") {
				return core.Target
			}
			return core.Continue
		}, func(a, b *ssa.BasicBlock) bool { return !acquired[edgeKey{a, b}] })
		c.Check(tgt == nil, "R3", "sender-owns-flag/"+core.FName(S), p.InstrPos(in), "after releasing the flag the sender writes again only through a successful CAS", "the sender can write to the transport while the flag reads idle: Close may close the transport in the middle of a batch", p.PathString(path, tgt)...)
	})

	// ---- R4
	runC06R4(c, e)

	// ---- R5 (shared with C02-R1): a payload whose write returned success before Close has a sender responsible for it
	c.Rule("R6", "one release of the sender flag per ownership, none after hand-over (shared with C02-R8): a stale release lets Close see idle while a sender runs", 1)
	importObligations(c, runC02, "R6", func(o *core.Obligation) bool { return o.Rule == "R8" })
	c.Rule("R5", "every successful enqueue is followed by CAS(running, idle->running) on every path (accepted before Close => owned by a sender)", 1)
	ruleEnqueueRingsBell(c, e, "R5")
	// what Close waits for is the queue: the accepted bytes are in it intact (private buffers, not recycled or
	// rewritten while queued: C10, C17-R7), and nothing accepted bypasses it (C01-R3)
	c.Rule("R7", "accepted payloads are in the queue Close waits for, intact: private buffers, read-only batches, no write path around the queue (shared with C10-R1/R4/R6, C17-R7, C01-R3)", 3)
	importObligations(c, runC10, "R7", func(o *core.Obligation) bool {
		// R3: a packet taken off the queue is recycled only after the batch's Writev (a sender that drains the queue
		// into the pool makes the queue look empty to Close without having delivered anything)
		return o.Rule == "R1" || o.Rule == "R3" || o.Rule == "R4" || o.Rule == "R6"
	})
	importObligations(c, runC17, "R7", func(o *core.Obligation) bool { return o.Rule == "R7" })
	importObligations(c, runC01, "R7", func(o *core.Obligation) bool {
		return o.Rule == "R3" && (strings.Contains(o.Key, "transport-as-writer") || strings.Contains(o.Key, "enqueuer/"))
	})
	// the sender Close waits for does run, and what it flushed has left the wrapper's buffer when it reports idle
	c.Rule("R8", "the sender Close waits for is started on every path; the wrappers' Flush drains their one write sink (shared with C18-R10, C17-R1/R5)", 2)
	ruleExecutorsAreAsync(c, e, "R8")
	// the sender the closer waits for drains the queue: it can dequeue (batch capacity >= 1) and does not leave
	// while the queue it re-checks is non-empty
	c.Rule("R9", "the sender re-checks the write queue itself after releasing the flag; its batch holds at least one packet (shared with C02-R2/R7)", 2)
	importObligations(c, runC02, "R9", func(o *core.Obligation) bool { return o.Rule == "R2" || o.Rule == "R7" })
	importObligations(c, runC01, "R9", func(o *core.Obligation) bool { return o.Rule == "R1" && strings.Contains(o.Key, "start-site") })
	importObligations(c, runC17, "R8", func(o *core.Obligation) bool { return o.Rule == "R1" || o.Rule == "R5" })
	// the sender stops only for a real failure and notices every one: its check helper raises for every non-nil
	// error (C07-R4), and recycling a written buffer cannot fault (pool index guarded, C19-R1)
	importObligations(c, runC07, "R8", func(o *core.Obligation) bool { return strings.Contains(o.Key, "/raises-on-every-error") })
	importObligations(c, runC19, "R8", func(o *core.Obligation) bool { return o.Rule == "R1" && strings.Contains(o.Key, "index-bound") })
}

func isIntT(t types.Type) bool {
	b, ok := t.Underlying().(*types.Basic)
	return ok && b.Info()&types.IsInteger != 0
}

func isSleepBlock(b *ssa.BasicBlock) bool {
	for _, in := range b.Instrs {
		if core.IsPkgFunc(in, "time", "Sleep") {
			return true
		}
	}
	return false
}

func runC06R4(c *core.Ctx, e *ev) {
	p := c.P
	hc := lookupNamedT(e.r.Root, "HandlerContext")
	found := false
	for _, fn := range p.Funcs {
		if p.PkgRel(fn) != "codec/xhttp" || fn.Name() != "HandleRead" {
			continue
		}
		var closes, delivers []ssa.Instruction
		core.AllInstrs(fn, func(in ssa.Instruction) {
			cc := core.CallCommon(in)
			if cc == nil || !cc.IsInvoke() {
				return
			}
			if cc.Method.Name() == "Close" && hc != nil && ifaceInvoke(in, hc, "Close") {
				closes = append(closes, in)
			}
			if cc.Method.Name() == "HandleRead" {
				delivers = append(delivers, in)
			}
		})
		for _, cl := range closes {
			found = true
			c.Instance("R4")
			c.FuncsSeen[p.QName(fn)] = true
			dom := false
			for _, d := range delivers {
				if core.Dominates(d, cl) {
					// and no way around the loop from the close back to itself without delivering again
					dom = true
				}
			}
			c.Check(dom, "R4", "http-close-after-delivery/"+core.FName(fn), p.InstrPos(cl), "ctx.Close is dominated by the delivery of the request", "the HTTP request loop can request the connection close before the request was delivered (response not yet produced)")
		}
	}
	if !found {
		c.Instance("R4")
		c.Note("no ctx.Close in codec/xhttp HandleRead functions: nothing to order")
		c.OK("R4", "http-close-after-delivery", "", "no close request in the HTTP request loop")
	}
}
