package rules

import (
	"go/token"
	"go/types"
	"strings"

	"golang.org/x/tools/go/ssa"
	"verif/checker/internal/core"
)

// ev bundles event predicates over the resolved roles.
type ev struct {
	p *core.Prog
	r *core.Roles

	openErrFuncs map[*ssa.Function]int
}

func newEv(c *core.Ctx) (*ev, bool) {
	r := c.P.Roles()
	if len(r.Errs) > 0 {
		for _, e := range r.Errs {
			c.Unk("anchors", "ANCHOR-UNRESOLVED", "", e)
		}
		return nil, false
	}
	return &ev{p: c.P, r: r}, true
}

func (e *ev) isField(v ssa.Value, f *types.Var) bool {
	fv, _ := core.FieldOf(v)
	return fv != nil && fv == f
}

// queueRecv: in receives from the write queue (select state or unary recv).
func (e *ev) queueRecv(in ssa.Instruction) bool {
	switch x := in.(type) {
	case *ssa.Select:
		for _, st := range x.States {
			if st.Dir == types.RecvOnly && e.isField(st.Chan, e.r.WriteQueue) {
				return true
			}
		}
	case *ssa.UnOp:
		return x.Op == token.ARROW && e.isField(x.X, e.r.WriteQueue)
	}
	return false
}

// queueSend: in sends on the write queue (Send instr or select with send state).
func (e *ev) queueSend(in ssa.Instruction) bool {
	switch x := in.(type) {
	case *ssa.Send:
		return e.isField(x.Chan, e.r.WriteQueue)
	case *ssa.Select:
		for _, st := range x.States {
			if st.Dir == types.SendOnly && e.isField(st.Chan, e.r.WriteQueue) {
				return true
			}
		}
	}
	return false
}

func (e *ev) queueLen(in ssa.Instruction) bool {
	args, ok := core.IsBuiltinCall(in, "len")
	return ok && len(args) == 1 && e.isField(args[0], e.r.WriteQueue)
}

func (e *ev) atomicOn(in ssa.Instruction, f *types.Var, kind string) *core.AtomicOp {
	a := core.AsAtomic(in)
	if a == nil || a.Field != f || (kind != "" && a.Kind != kind) {
		return nil
	}
	return a
}

// runningAcquire: CAS(running, idle(0) -> running(1)).
func (e *ev) runningAcquire(in ssa.Instruction) bool {
	a := e.atomicOn(in, e.r.Running, "cas")
	if a == nil || len(a.Args) < 2 {
		return false
	}
	o, ok1 := core.ConstInt(a.Args[0])
	n, ok2 := core.ConstInt(a.Args[1])
	return ok1 && ok2 && o == 0 && n == 1
}

// runningRelease: Store(running, idle(0)).
func (e *ev) runningRelease(in ssa.Instruction) bool {
	a := e.atomicOn(in, e.r.Running, "store")
	if a == nil || len(a.Args) < 1 {
		return false
	}
	v, ok := core.ConstInt(a.Args[0])
	return ok && v == 0
}

func (e *ev) runningLoad(in ssa.Instruction) bool {
	return e.atomicOn(in, e.r.Running, "load") != nil
}

// closedAcquire: CAS(closed, 0 -> 1).
func (e *ev) closedAcquire(in ssa.Instruction) bool {
	a := e.atomicOn(in, e.r.Closed, "cas")
	if a == nil || len(a.Args) < 2 {
		return false
	}
	o, ok1 := core.ConstInt(a.Args[0])
	n, ok2 := core.ConstInt(a.Args[1])
	return ok1 && ok2 && o == 0 && n == 1
}

func (e *ev) closedLoad(in ssa.Instruction) bool {
	return e.atomicOn(in, e.r.Closed, "load") != nil
}

// isTransportType: t is transport.Transport.
func (e *ev) isTransportType(t types.Type) bool {
	return types.Identical(t, e.r.TransportIface)
}

// transportInvoke: interface invoke of one of the named methods on a transport.Transport value.
func (e *ev) transportInvoke(in ssa.Instruction, names ...string) bool {
	cc := core.CallCommon(in)
	if cc == nil || !cc.IsInvoke() {
		return false
	}
	if !e.isTransportType(cc.Value.Type()) {
		return false
	}
	for _, n := range names {
		if cc.Method.Name() == n {
			return true
		}
	}
	return false
}

// ifaceInvoke: invoke of method `name` on a value of the named interface type.
func ifaceInvoke(in ssa.Instruction, iface *types.Named, names ...string) bool {
	cc := core.CallCommon(in)
	if cc == nil || !cc.IsInvoke() || iface == nil {
		return false
	}
	if !types.Identical(cc.Value.Type(), iface) {
		// embedded interfaces: method belongs to iface's method set and value implements it
		it, ok := iface.Underlying().(*types.Interface)
		if !ok || !types.Implements(cc.Value.Type(), it) {
			return false
		}
	}
	for _, n := range names {
		if cc.Method.Name() == n {
			return true
		}
	}
	return false
}

// unbound resolves bound-method wrappers to the underlying method function.
func unbound(f *ssa.Function) *ssa.Function {
	if f == nil {
		return nil
	}
	if strings.Contains(f.Synthetic, "bound method wrapper") {
		var tgt *ssa.Function
		core.AllInstrs(f, func(in ssa.Instruction) {
			if cc := core.CallCommon(in); cc != nil && !cc.IsInvoke() {
				if s := cc.StaticCallee(); s != nil {
					tgt = s
				}
			}
		})
		if tgt != nil {
			return tgt
		}
	}
	return f
}

// boundIfaceMethod: for an interface bound-method wrapper returns the interface method.
func boundIfaceMethod(f *ssa.Function) *types.Func {
	if f == nil || !strings.Contains(f.Synthetic, "bound method wrapper") {
		return nil
	}
	var m *types.Func
	core.AllInstrs(f, func(in ssa.Instruction) {
		if cc := core.CallCommon(in); cc != nil && cc.IsInvoke() {
			m = cc.Method
		}
	})
	return m
}

// startsSender: in starts the sender function: Executor.Exec(S), go S(), or a direct call of S.
func (e *ev) startsSender(in ssa.Instruction) bool {
	cc := core.CallCommon(in)
	if cc == nil {
		return false
	}
	if cc.IsInvoke() {
		if ifaceInvoke(in, e.r.ExecutorIface, "Exec") && len(cc.Args) == 1 {
			return unbound(core.FuncValue(cc.Args[0], nil)) == e.r.Sender
		}
		return false
	}
	if f := cc.StaticCallee(); f != nil && unbound(f) == e.r.Sender {
		return true
	}
	if f := core.FuncValue(cc.Value, nil); f != nil && unbound(f) == e.r.Sender {
		return true
	}
	return false
}

// isChanMethod: fn (or its outermost parent) is a method declared on the channel implementation.
func (e *ev) isChanMethod(fn *ssa.Function) bool {
	fn = core.Outermost(fn)
	if fn.Signature.Recv() == nil {
		return false
	}
	t := fn.Signature.Recv().Type()
	if p, ok := t.(*types.Pointer); ok {
		t = p.Elem()
	}
	return types.Identical(t, e.r.Chan)
}

// syncBranch: the instruction executes only when the write queue is nil.
func (e *ev) syncBranch(in ssa.Instruction) bool {
	fn := in.Parent()
	for _, ifi := range core.Ifs(fn) {
		c := core.CondOf(ifi)
		if c.Op != token.EQL && c.Op != token.NEQ {
			continue
		}
		var other ssa.Value
		if e.isField(c.X, e.r.WriteQueue) {
			other = c.Y
		} else if e.isField(c.Y, e.r.WriteQueue) {
			other = c.X
		} else {
			continue
		}
		if !core.IsNilConst(other) {
			continue
		}
		nilSucc := c.True
		if c.Op == token.NEQ {
			nilSucc = c.False
		}
		if core.EdgeDominates(ifi.Block(), nilSucc, in.Block()) {
			return true
		}
	}
	return false
}

// asyncBranch: the instruction executes only when the write queue is non-nil.
func (e *ev) asyncBranch(in ssa.Instruction) bool {
	fn := in.Parent()
	for _, ifi := range core.Ifs(fn) {
		c := core.CondOf(ifi)
		if c.Op != token.EQL && c.Op != token.NEQ {
			continue
		}
		var other ssa.Value
		if e.isField(c.X, e.r.WriteQueue) {
			other = c.Y
		} else if e.isField(c.Y, e.r.WriteQueue) {
			other = c.X
		} else {
			continue
		}
		if !core.IsNilConst(other) {
			continue
		}
		nn := c.False
		if c.Op == token.NEQ {
			nn = c.True
		}
		if core.EdgeDominates(ifi.Block(), nn, in.Block()) {
			return true
		}
	}
	return false
}

// mutexCall: call of sync.Mutex/RWMutex method `name` on field f.
func mutexCall(in ssa.Instruction, f *types.Var, names ...string) bool {
	cc := core.CallCommon(in)
	if cc == nil || cc.IsInvoke() || len(cc.Args) == 0 {
		return false
	}
	o := core.CalleeObj(in)
	if o == nil || o.Pkg() == nil || o.Pkg().Path() != "sync" {
		return false
	}
	ok := false
	for _, n := range names {
		if o.Name() == n {
			ok = true
		}
	}
	if !ok {
		return false
	}
	fv, _ := core.FieldOf(cc.Args[0])
	return fv != nil && (f == nil || fv == f)
}

// taint computes the forward value-flow closure of src within its function:
// through phi, slicing, conversions, stores into local arrays/cells that are
// then sliced/loaded, append, extract.
func taint(src ssa.Value) map[ssa.Value]bool {
	seen := map[ssa.Value]bool{}
	var work []ssa.Value
	push := func(v ssa.Value) {
		if v != nil && !seen[v] {
			seen[v] = true
			work = append(work, v)
		}
	}
	push(src)
	for len(work) > 0 {
		v := work[len(work)-1]
		work = work[:len(work)-1]
		refs := v.Referrers()
		if refs == nil {
			continue
		}
		for _, r := range *refs {
			switch x := r.(type) {
			case *ssa.Phi, *ssa.Slice, *ssa.ChangeType, *ssa.Convert, *ssa.MakeInterface, *ssa.ChangeInterface, *ssa.Extract, *ssa.TypeAssert, *ssa.SliceToArrayPointer:
				push(x.(ssa.Value))
			case *ssa.Store:
				if x.Val == v {
					// stored into local storage: taint the base allocation
					switch a := x.Addr.(type) {
					case *ssa.Alloc:
						push(a)
					case *ssa.IndexAddr:
						push(a.X)
					case *ssa.FieldAddr:
						if al, ok := a.X.(*ssa.Alloc); ok {
							push(al)
						}
					}
				}
			case *ssa.UnOp:
				if x.Op == token.MUL { // load from tainted cell
					push(x)
				}
			case *ssa.IndexAddr:
				if x.X == v {
					push(x)
				}
			case *ssa.Call:
				if b, ok := x.Call.Value.(*ssa.Builtin); ok && b.Name() == "append" {
					push(x)
				}
			}
		}
	}
	return seen
}

// web: the phi/append/slice web a value belongs to (backwards+forwards through phi edges,
// append base operand and re-slicing); used to identify "the batch slice".
func web(v ssa.Value) map[ssa.Value]bool {
	seen := map[ssa.Value]bool{}
	var work []ssa.Value
	push := func(x ssa.Value) {
		if x != nil && !seen[x] {
			seen[x] = true
			work = append(work, x)
		}
	}
	push(v)
	for len(work) > 0 {
		x := work[len(work)-1]
		work = work[:len(work)-1]
		switch y := x.(type) {
		case *ssa.Phi:
			for _, e := range y.Edges {
				push(e)
			}
		case *ssa.Call:
			if b, ok := y.Call.Value.(*ssa.Builtin); ok && b.Name() == "append" {
				push(y.Call.Args[0])
			}
		case *ssa.Slice:
			// re-slice of the same web member only when it stems from a phi/append (x[:0] resets come from fields)
		}
		if refs := x.Referrers(); refs != nil {
			for _, r := range *refs {
				switch z := r.(type) {
				case *ssa.Phi:
					push(z)
				case *ssa.Call:
					if b, ok := z.Call.Value.(*ssa.Builtin); ok && b.Name() == "append" && z.Call.Args[0] == x {
						push(z)
					}
				}
			}
		}
	}
	return seen
}

// lenOf: in is len(v) for some v in set.
func lenOfSet(v ssa.Value, set map[ssa.Value]bool) bool {
	c, ok := v.(*ssa.Call)
	if !ok {
		return false
	}
	args, ok := core.IsBuiltinCall(c, "len")
	return ok && len(args) == 1 && set[args[0]]
}

// emptinessEdges: for an If testing len(x) against 0/1, returns (emptySucc, nonEmptySucc).
func emptinessEdges(ifi *ssa.If, isLen func(ssa.Value) bool) (empty, nonEmpty *ssa.BasicBlock, ok bool) {
	c := core.CondOf(ifi)
	if c.Op == token.ILLEGAL {
		return nil, nil, false
	}
	x, y, op := c.X, c.Y, c.Op
	if isLen(y) { // normalise to len on the left
		x, y = y, x
		switch op {
		case token.LSS:
			op = token.GTR
		case token.GTR:
			op = token.LSS
		case token.LEQ:
			op = token.GEQ
		case token.GEQ:
			op = token.LEQ
		}
	}
	if !isLen(x) {
		return nil, nil, false
	}
	k, isConst := core.ConstInt(y)
	if !isConst {
		return nil, nil, false
	}
	switch {
	case op == token.GTR && k == 0, op == token.NEQ && k == 0, op == token.GEQ && k == 1:
		return c.False, c.True, true
	case op == token.EQL && k == 0, op == token.LEQ && k == 0, op == token.LSS && k == 1:
		return c.True, c.False, true
	}
	return nil, nil, false
}

// ---------- accept points (an enqueue that succeeded), through enqueue helpers ----------

// acceptPoint: a program point right after a payload was accepted into the write queue.
//
//	body != nil : the block entered when the select's send state was chosen (in fn)
//	from != nil : a call of an enqueue helper in fn; the accepted side is where its error result is nil
type acceptPoint struct {
	fn   *ssa.Function
	body *ssa.BasicBlock
	from ssa.Instruction
	errv ssa.Value
	desc string
}

// edgeOK for searches starting at the point: stay on the accepted side of a helper call.
func (a acceptPoint) edgeOK(x, y *ssa.BasicBlock) bool {
	if a.errv == nil {
		return true
	}
	return !isErrNonNilEdge(x, y, a.errv)
}

// acceptPoints enumerates accept points. A function that sends on the queue but never attempts the sender CAS
// itself is an enqueue helper (nil error <=> accepted, C01-R2 checks that): its callers inherit the accept point.
func (e *ev) acceptPoints() []acceptPoint {
	var out []acceptPoint
	acq := &core.Query{P: e.p, Pred: e.runningAcquire, MaxDepth: 3}
	var fromCallers func(h *ssa.Function, depth int)
	fromCallers = func(h *ssa.Function, depth int) {
		if depth > 2 {
			return
		}
		for _, g := range e.p.Funcs {
			core.AllInstrs(g, func(in ssa.Instruction) {
				cc := core.CallCommon(in)
				if cc == nil || cc.IsInvoke() || cc.StaticCallee() != h {
					return
				}
				if _, isGo := in.(*ssa.Go); isGo {
					return
				}
				if !acq.May(g, nil) && g.Signature.Results().Len() > 0 && isErrorT(g.Signature.Results().At(g.Signature.Results().Len()-1).Type()) {
					fromCallers(g, depth+1) // another helper level
					return
				}
				out = append(out, acceptPoint{fn: g, from: in, errv: errOfCall(in), desc: core.FName(g) + "/after-" + h.Name()})
			})
		}
	}
	for _, h := range e.r.Enqueuers {
		if acq.May(h, nil) {
			n := 0
			for _, si := range e.sendSelects(h) {
				for _, st := range si.States {
					if st.Body != nil && st.Send != nil && e.isField(st.Chan, e.r.WriteQueue) {
						n++
						out = append(out, acceptPoint{fn: h, body: st.Body, desc: core.FName(h) + "/enqueue#" + core.PathItoa(n)})
					}
				}
			}
			for _, f := range core.WithAnon(h) {
				core.AllInstrs(f, func(in ssa.Instruction) {
					if s, ok := in.(*ssa.Send); ok && e.queueSend(s) {
						n++
						out = append(out, acceptPoint{fn: h, from: in, desc: core.FName(h) + "/enqueue#" + core.PathItoa(n)})
					}
				})
			}
			continue
		}
		fromCallers(h, 0)
	}
	return out
}

// isEnqueueHelper: h sends on the queue but leaves starting the sender to its callers.
func (e *ev) isEnqueueHelper(h *ssa.Function) bool {
	acq := &core.Query{P: e.p, Pred: e.runningAcquire, MaxDepth: 3}
	return !acq.May(h, nil)
}

// logicalEnqueuers: the functions that own an accept point (enqueuers, or callers of enqueue helpers).
func (e *ev) logicalEnqueuers() []*ssa.Function {
	seen := map[*ssa.Function]bool{}
	var out []*ssa.Function
	for _, a := range e.acceptPoints() {
		if !seen[a.fn] {
			seen[a.fn] = true
			out = append(out, a.fn)
		}
	}
	return out
}
