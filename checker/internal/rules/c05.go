package rules

import (
	"go/ast"
	"go/token"
	"go/types"
	"strings"

	"golang.org/x/tools/go/ssa"
	"verif/checker/internal/core"
)

func init() {
	register(&Property{
		ID:    "C05",
		Title: "Channel lifecycle: active once, sequential reads, inactive exactly once",
		Explanation: "DECIDES: R1 a single closer elected by CAS(closed,0->1): storing the close error, transport.Close, cancel and FireChannelInactive occur only in Close, each on the true branch of that CAS, each on every path of the winner, and the error stored / delivered is Close's own argument; " +
			"R2 the winner's order of effects is close-error store -> transport.Close -> cancel -> inactive; R3 the closed flag is only accessed atomically, its only write is that CAS, IsActive is Load==0; " +
			"R4 FireChannelActive is fired from exactly one site, not in a loop, before the read loop, in a frame whose deferred start-up callback runs after it, and serveChannel returns only after that callback closed its latch; " +
			"R5 FireChannelRead is fired from exactly one site, synchronously in the read loop, whose function is started from exactly one site; pipeline.ServeChannel asserts single attachment; " +
			"R6 every exit of the read loop closes the channel, each iteration tests the channel context, a non-timeout net.Error found by errors.As closes the channel. " +
			"ALSO (rules added while testing against independent changes): HandlerContext.Close closes the channel synchronously with its own argument; built-in pipeline handlers forward active/inactive on every path, once; wrappers' Close reaches the connection; imported rules are listed in RULES.md. " +
			"DOES NOT DECIDE: that transport failures surface through codecs (C08), that transport.Close unblocks a blocked read, timing of the bounded wait.",
		Assumptions: []string{"transport.Close unblocks a pending Read (transport contract)"},
		Run:         runC05,
	})
}

// closeErrStore: in stores the close error (plain store to the field, or atomic.Value.Store on it).
func (e *ev) closeErrStore(in ssa.Instruction) (ssa.Value, bool) {
	if e.r.CloseErr == nil {
		return nil, false
	}
	if st, ok := in.(*ssa.Store); ok {
		if f, _ := core.FieldOf(st.Addr); f == e.r.CloseErr {
			return st.Val, true
		}
	}
	if cc := core.CallCommon(in); cc != nil && !cc.IsInvoke() && len(cc.Args) >= 2 {
		if o := core.CalleeObj(in); o != nil && o.Pkg() != nil && o.Pkg().Path() == "sync/atomic" && (o.Name() == "Store" || o.Name() == "CompareAndSwap" || o.Name() == "Swap") {
			if f, _ := core.FieldOf(cc.Args[0]); f == e.r.CloseErr {
				return cc.Args[len(cc.Args)-1], true
			}
		}
	}
	return nil, false
}

func (e *ev) cancelCall(in ssa.Instruction) bool {
	cc := core.CallCommon(in)
	if cc == nil || cc.IsInvoke() {
		return false
	}
	f, _ := core.FieldOf(cc.Value)
	return f != nil && f == e.r.Cancel
}

func (e *ev) transportClose(in ssa.Instruction) bool {
	return e.transportInvoke(in, "Close")
}

// derivesFromParam: v is parameter idx of outer (through closures, boxing in a composite literal / MakeInterface).
func derivesFromParam(outer, inner *ssa.Function, v ssa.Value, idx int) bool {
	v = core.Unwrap(v)
	if isParamOrCaptured(outer, inner, v, idx) {
		return true
	}
	// struct literal boxing: load of an Alloc (or the address of a fresh one: &box{err}) whose field stores come
	// from the param
	boxed := v
	if ld, ok := v.(*ssa.UnOp); ok && ld.Op == token.MUL {
		boxed = ld.X
	}
	{
		if al, ok := boxed.(*ssa.Alloc); ok {
			for _, r := range *al.Referrers() {
				if fa, ok := r.(*ssa.FieldAddr); ok {
					for _, r2 := range *fa.Referrers() {
						if st, ok := r2.(*ssa.Store); ok && isParamOrCaptured(outer, inner, st.Val, idx) {
							return true
						}
					}
				}
			}
		}
	}
	return false
}

func runC05(c *core.Ctx) {
	e, ok := newEv(c)
	if !ok {
		return
	}
	p, r := c.P, e.r
	K := r.Closer
	c.FuncsSeen[p.QName(K)] = true
	c.Rule("R1", "single closer elected by CAS; close effects only in the winner, on every path, carrying Close's own argument", 4)
	c.Rule("R2", "winner's order: close error -> transport.Close -> cancel -> inactive", 3)
	c.Rule("R3", "closed flag: atomic only, single CAS 0->1 writer, IsActive = Load==0", 2)
	c.Rule("R4", "active fired once, before reads, latch released after it", 2)
	c.Rule("R5", "reads fired from one synchronous site; read loop started once; single attachment asserted", 2)
	c.Rule("R6", "read loop always ends in Close; context tested each iteration; fatal net.Error closes", 2)

	// ---- R1
	var cas ssa.Instruction
	ncas := 0
	for _, f := range core.WithAnon(K) {
		core.AllInstrs(f, func(in ssa.Instruction) {
			if e.closedAcquire(in) {
				cas = in
				ncas++
			}
		})
	}
	c.Instance("R1")
	if ncas != 1 || cas.Parent() != K {
		c.Bad("R1", "closer/cas", p.Pos(K.Pos()), "Close does not elect the closer with exactly one CAS(closed, 0->1) (check-then-store lets two Close calls both take effect)")
		return
	}
	c.OK("R1", "closer/cas", p.InstrPos(cas), "one CAS(closed,0->1) in Close")
	trueEdges := e.trueEdgesOf(cas.(ssa.Value))
	if len(trueEdges) == 0 {
		c.Unk("R1", "closer/cas-branch", p.InstrPos(cas), "CAS result does not feed a branch")
		return
	}
	winner := func(in ssa.Instruction) bool {
		// in K directly: dominated by a true edge; in a closure of K: the closure's use site is
		for _, ts := range trueEdges {
			if in.Parent() == K && ts.Dominates(in.Block()) && ts != cas.Block() {
				return true
			}
		}
		return false
	}
	type effect struct {
		name string
		pred func(ssa.Instruction) bool
		note string
	}
	inactive := func(in ssa.Instruction) bool { return ifaceInvoke(in, r.PipelineIface, "FireChannelInactive") }
	effects := []effect{
		{"close-error-store", func(in ssa.Instruction) bool { _, ok := e.closeErrStore(in); return ok }, "close error stored"},
		{"transport-close", e.transportClose, "transport closed"},
		{"cancel", e.cancelCall, "context cancelled"},
		{"inactive", inactive, "inactive delivered"},
	}
	effSite := map[string]ssa.Instruction{} // site in K (call of helper with closure for inactive)
	for _, ef := range effects {
		ef := ef
		c.Instance("R1")
		// who performs it, program wide (core package)
		n := 0
		for _, fn := range allFuncsWithBound(p) {
			if fn.Pkg != nil && p.PkgRel(fn) != "." {
				continue
			}
			core.AllInstrs(fn, func(in ssa.Instruction) {
				if !ef.pred(in) {
					return
				}
				n++
				c.Check(core.Outermost(fn) == K, "R1", "only-in-closer/"+ef.name+"/"+core.FName(fn), p.InstrPos(in), ef.note+" only by the elected closer", ef.note+" outside Close: not serialised by the closed CAS (can happen twice / for a losing Close call)")
			})
		}
		if n == 0 {
			c.Bad("R1", "winner-performs/"+ef.name, p.Pos(K.Pos()), "the closer never performs: "+ef.note)
			continue
		}
		// on the winner's side, on every path
		q := &core.Query{P: p, Pred: ef.pred, Skip: func(f *ssa.Function) bool { return f == K }}
		for _, ts := range trueEdges {
			bad, path := q.MustPassBetween(nil, ts, nil, core.IsNormalReturn, nil)
			c.Check(bad == nil, "R1", "winner-performs/"+ef.name, p.InstrPos(cas), ef.note+" on every path of the winning Close", "a path of the winning Close returns without: "+ef.note, p.PathString(path, bad)...)
		}
		// only on the winner's side, exactly once: site in K
		var sites []ssa.Instruction
		core.AllInstrs(K, func(in ssa.Instruction) {
			if _, isDefer := in.(*ssa.Defer); isDefer {
				return
			}
			if q.InstrMay(in, nil) {
				sites = append(sites, in)
			}
		})
		for _, s := range sites {
			c.Check(winner(s), "R1", "winner-only/"+ef.name, p.InstrPos(s), ef.note+" only on the true branch of the CAS", ef.note+" also for a Close call that lost the CAS (happens more than once)")
			// not repeated: no path from the site to itself or to another site of the same effect
			tgt, _ := core.Search(s, nil, func(x ssa.Instruction) core.Action {
				if q.InstrMay(x, nil) {
					return core.Target
				}
				return core.Continue
			}, nil)
			c.Check(tgt == nil, "R1", "once/"+ef.name, p.InstrPos(s), ef.note+" at most once per winning Close", ef.note+" can happen twice in one Close call")
		}
		if len(sites) > 0 {
			effSite[ef.name] = sites[0]
		}
	}
	// the error stored and delivered is Close's own argument
	for _, f := range core.WithAnon(K) {
		core.AllInstrs(f, func(in ssa.Instruction) {
			if v, ok := e.closeErrStore(in); ok {
				c.Instance("R1")
				c.Check(derivesFromParam(K, f, v, 1), "R1", "carries-arg/close-error-store", p.InstrPos(in), "stores Close's own argument", "the stored close error is not the argument of the winning Close call")
			}
			if inactive(in) {
				c.Instance("R1")
				cc := core.CallCommon(in)
				c.Check(len(cc.Args) == 1 && derivesFromParam(K, f, cc.Args[0], 1), "R1", "carries-arg/inactive", p.InstrPos(in), "inactive carries Close's own argument", "the inactive event does not carry the error of the Close call that took effect")
			}
		})
	}

	// ---- R2 order
	order := []string{"close-error-store", "transport-close", "cancel", "inactive"}
	for i := 0; i+1 < len(order); i++ {
		a, b := effSite[order[i]], effSite[order[i+1]]
		c.Instance("R2")
		if a == nil || b == nil {
			c.Unk("R2", "order/"+order[i]+"<"+order[i+1], "", "effect site not found in Close")
			continue
		}
		c.Check(core.Dominates(a, b), "R2", "order/"+order[i]+"<"+order[i+1], p.InstrPos(b), order[i]+" precedes "+order[i+1], order[i+1]+" can happen before "+order[i]+" (writers woken by the cancelled context read a missing close error / inactive before the transport is closed)")
	}

	// ---- R3 closed flag census
	for _, fn := range p.Funcs {
		core.AllInstrs(fn, func(in ssa.Instruction) {
			fa, ok := in.(*ssa.FieldAddr)
			if !ok {
				return
			}
			if f, _ := core.FieldOf(fa); f != r.Closed {
				return
			}
			for _, ref := range core.AddrUses(fa) {
				c.Instance("R3")
				name := "closed-access/" + core.FName(fn)
				a := core.AsAtomic(ref)
				switch {
				case a == nil:
					c.Bad("R3", name, p.InstrPos(ref), "non-atomic access to the closed flag")
				case a.Kind == "load":
					c.OK("R3", name+"/load", p.InstrPos(ref), "atomic load")
				case e.closedAcquire(ref) && core.Outermost(fn) == K:
					c.OK("R3", name+"/cas", p.InstrPos(ref), "CAS 0->1 in Close")
				default:
					c.Bad("R3", name, p.InstrPos(ref), "the closed flag is written other than by the CAS 0->1 in Close (flag no longer monotone / closer no longer unique)")
				}
			}
		})
	}
	if ia := p.DeclMethod(r.Chan, "IsActive"); ia != nil {
		c.Instance("R3")
		good := false
		core.AllInstrs(ia, func(in ssa.Instruction) {
			if ret, ok := in.(*ssa.Return); ok && len(ret.Results) == 1 {
				// atomic.Bool flag: !closed.Load()
				if u, ok := ret.Results[0].(*ssa.UnOp); ok && u.Op == token.NOT {
					if xi, ok := u.X.(ssa.Instruction); ok && e.closedLoad(xi) {
						good = true
					}
				}
				if b, ok := ret.Results[0].(*ssa.BinOp); ok && b.Op == token.EQL {
					x, y := b.X, b.Y
					if xi, ok := y.(ssa.Instruction); ok && e.closedLoad(xi) {
						x, y = y, x
					}
					if xi, ok := x.(ssa.Instruction); ok && e.closedLoad(xi) {
						if k, isC := core.ConstInt(y); isC && k == 0 {
							good = true
						}
					}
				}
			}
		})
		c.Check(good, "R3", "IsActive", p.Pos(ia.Pos()), "IsActive = (Load(closed) == 0)", "IsActive is not Load(closed) == 0")
	}

	runC05R4to6(c, e)

	// ---- R7 (shared with C02-R3): a write-side failure reaches Close: the sender's recover releases, then closes
	c.Rule("R7", "sender recover path: release the flag, then Close with the exception (a write-side transport failure closes the channel)", 1)
	runSenderRecover(c, e, "R7")
	ruleFailedSenderReleasesCloser(c, e, "R7")

	// ---- R8: "the transport is closed" means the socket: the wrappers' Close reaches the connection (C17-R6),
	// and the Close call that took effect can finish: the sender it waits for can always dequeue (C02-R7)
	c.Rule("R8", "transport.Close reaches the connection on every path; the sender the closer waits for can always make progress (shared with C17-R6, C02-R7)", 2)
	importObligations(c, runC17, "R8", func(o *core.Obligation) bool { return o.Rule == "R6" })
	importObligations(c, runC02, "R8", func(o *core.Obligation) bool { return o.Rule == "R7" })

	// ---- R9: closing through a handler context is closing the channel: synchronously, with the same argument
	c.Rule("R9", "HandlerContext.Close calls Channel.Close itself (not on another goroutine, not deferred) with its own argument", 1)
	if pr := resolvePipe(p); len(pr.errs) == 0 {
		c.Instance("R9")
		if fn := p.DeclMethod(pr.ctxT, "Close"); fn == nil || fn.Blocks == nil {
			c.Bad("R9", "context-close", "", "HandlerContext.Close implementation not found")
		} else {
			c.FuncsSeen[p.QName(fn)] = true
			isClose := func(x ssa.Instruction) bool {
				call, ok := x.(*ssa.Call) // a plain call: `go` and `defer` are other instruction kinds
				if !ok {
					return false
				}
				if !ifaceInvoke(call, r.ChannelIface, "Close") && (r.Closer == nil || call.Call.StaticCallee() != r.Closer) {
					return false
				}
				args := call.Call.Args
				return len(args) > 0 && len(fn.Params) == 2 && core.Unwrap(args[len(args)-1]) == ssa.Value(fn.Params[1])
			}
			bad, path := core.Search(nil, fn.Blocks[0], func(x ssa.Instruction) core.Action {
				switch {
				case isClose(x):
					return core.Barrier
				case core.IsNormalReturn(x):
					return core.Target
				}
				return core.Continue
			}, nil)
			c.Check(bad == nil, "R9", "context-close", p.Pos(fn.Pos()), "closes the channel synchronously with the caller's argument", "HandlerContext.Close can return without having closed the channel itself with its own argument (asynchronous, deferred to another goroutine, or conditional: the handler continues on a channel it believes closed and writes still succeed)", p.PathString(path, bad)...)
		}
	}

	// ---- R11: a holder-driven shutdown reaches every channel it holds
	c.Rule("R11", "CloseAll closes every element of the swapped-out map (shared with C13-R3)", 1)
	importObligations(c, runC13, "R11", func(o *core.Obligation) bool { return strings.Contains(o.Key, "holder/closeall") })

	// ---- R10: the library's own pipeline handlers pass the lifecycle events on
	c.Rule("R10", "built-in handlers forward active / inactive to the next handler on every path, once, inactive with the exception they were given", 4)
	root := p.TPkg("")
	actT := lookupNamedT(root, "ActiveContext")
	inactT := lookupNamedT(root, "InactiveContext")
	for _, fn := range p.Funcs {
		if fn.Parent() != nil || fn.Signature.Recv() == nil || len(fn.Params) < 2 {
			continue
		}
		var ctxT types.Type
		switch fn.Name() {
		case "HandleActive":
			ctxT = actT
		case "HandleInactive":
			ctxT = inactT
		default:
			continue
		}
		if ctxT == nil || !types.Identical(fn.Params[1].Type(), ctxT) {
			continue
		}
		// struct-typed handlers only: func adapters hand the event to user code
		rt := fn.Signature.Recv().Type()
		if pt, ok := rt.(*types.Pointer); ok {
			rt = pt.Elem()
		}
		if _, isStruct := rt.Underlying().(*types.Struct); !isStruct {
			continue
		}
		c.Instance("R10")
		c.FuncsSeen[p.QName(fn)] = true
		ctxPrm := ssa.Value(fn.Params[1])
		isFwd := func(x ssa.Instruction) bool {
			cc := core.CallCommon(x)
			// the context parameter itself, or the cell it is spilled into when a closure captures it
			if cc == nil || !cc.IsInvoke() || cc.Method.Name() != fn.Name() || core.Unwrap(core.ForwardLoad(core.Unwrap(cc.Value))) != ctxPrm {
				return false
			}
			if _, isCall := x.(*ssa.Call); !isCall {
				return false
			}
			if fn.Name() == "HandleInactive" {
				return len(cc.Args) == 1 && len(fn.Params) == 3 && core.Unwrap(core.ForwardLoad(core.Unwrap(cc.Args[0]))) == ssa.Value(fn.Params[2])
			}
			return true
		}
		name := "forwards/" + p.PublicName(fn)
		miss, path := core.Search(nil, fn.Blocks[0], func(x ssa.Instruction) core.Action {
			switch {
			case isFwd(x):
				return core.Barrier
			case core.IsNormalReturn(x):
				return core.Target
			}
			return core.Continue
		}, nil)
		c.Check(miss == nil, "R10", name+"/every-path", p.Pos(fn.Pos()), "the event reaches the next handler on every path", "a built-in handler can return without passing the "+strings.TrimPrefix(fn.Name(), "Handle")+" event on (with the exception it was given): the handlers behind it never see the channel's lifecycle event", p.PathString(path, miss)...)
		twice := false
		core.AllInstrs(fn, func(x ssa.Instruction) {
			if !isFwd(x) {
				return
			}
			if t, _ := core.Search(x, nil, func(y ssa.Instruction) core.Action {
				if isFwd(y) {
					return core.Target
				}
				return core.Continue
			}, nil); t != nil {
				twice = true
			}
		})
		c.Check(!twice, "R10", name+"/once", p.Pos(fn.Pos()), "forwarded at most once per call", "a built-in handler can pass the event on twice")
	}
}

func runC05R4to6(c *core.Ctx, e *ev) {
	p, r := c.P, e.r
	type site struct {
		in ssa.Instruction
		fn *ssa.Function
	}
	find := func(method string) []site {
		var out []site
		for _, fn := range allFuncsWithBound(p) {
			if fn.Pkg != nil && p.PkgRel(fn) != "." {
				continue
			}
			core.AllInstrs(fn, func(in ssa.Instruction) {
				if ifaceInvoke(in, r.PipelineIface, method) {
					out = append(out, site{in, fn})
				}
			})
		}
		return out
	}
	// ---- R4
	act := find("FireChannelActive")
	c.Instance("R4")
	if len(act) != 1 {
		c.Bad("R4", "active/single-site", "", "FireChannelActive is fired from "+itoa(len(act))+" sites (want exactly one)")
		return
	}
	c.OK("R4", "active/single-site", p.InstrPos(act[0].in), "one site")
	// locate the instruction in the read-loop function that stands for the active delivery:
	// the MakeClosure of the bound wrapper (or the invoke itself) and its enclosing chain up to a top-level function.
	actInstr, loopFn := liftToTopLevel(p, act[0].in, act[0].fn)
	reads := find("FireChannelRead")
	c.Instance("R5")
	if len(reads) != 1 {
		c.Bad("R5", "read/single-site", "", "FireChannelRead is fired from "+itoa(len(reads))+" sites (want exactly one)")
		return
	}
	c.OK("R5", "read/single-site", p.InstrPos(reads[0].in), "one site")
	readInstr, readFn := liftToTopLevel(p, reads[0].in, reads[0].fn)
	c.FuncsSeen[p.QName(readFn)] = true
	// an unexported step function called from exactly one place is part of its caller's sequence: when the two
	// deliveries ended up in different functions, lift the one that is a step of the other
	liftStep := func(in ssa.Instruction, fn, want *ssa.Function) (ssa.Instruction, *ssa.Function) {
		for d := 0; d < 4 && fn != nil && fn != want; d++ {
			us := usesOf(p, fn)
			if len(us) != 1 || us[0].kind != "call" || fn.Name() == "" || ast.IsExported(fn.Name()) || us[0].in.Parent() == fn {
				break
			}
			in, fn = liftToTopLevel(p, us[0].in, us[0].in.Parent())
		}
		return in, fn
	}
	if actInstr != nil && readInstr != nil && loopFn != readFn {
		if a2, f2 := liftStep(actInstr, loopFn, readFn); f2 == readFn {
			actInstr, loopFn = a2, f2
		} else if r2, f3 := liftStep(readInstr, readFn, loopFn); f3 == loopFn {
			readInstr, readFn = r2, f3
		}
	}
	if actInstr == nil || readInstr == nil || loopFn != readFn {
		c.Instance("R4")
		c.Bad("R4", "active/before-reads", p.InstrPos(act[0].in), "the active event and the read loop are not in the same goroutine function (active is no longer ordered before the first read)")
		return
	}
	c.Instance("R4")
	c.Check(core.Dominates(actInstr, readInstr), "R4", "active/before-reads", p.InstrPos(actInstr), "active delivery dominates the read delivery", "a read can be delivered before the active event completed")
	// not in a loop
	tgt, _ := core.Search(actInstr, nil, func(x ssa.Instruction) core.Action {
		if x == actInstr {
			return core.Target
		}
		return core.Continue
	}, nil)
	c.Check(tgt == nil, "R4", "active/once", p.InstrPos(actInstr), "active delivery is not in a loop", "the active event can be delivered more than once")
	// not handed to go / Exec between the loop function and the site
	c.Check(!asyncBetween(p, e, act[0].in, act[0].fn, loopFn), "R4", "active/synchronous", p.InstrPos(act[0].in), "active is delivered synchronously in the read goroutine", "the active event is delivered asynchronously (go / Executor.Exec): it no longer completes before the first read and before the channel is handed out")
	// latch: the start-up callback (function-typed parameter of loopFn) is deferred in the frame that fires active
	e.checkLatch(c, loopFn, act[0].in, act[0].fn)

	// ---- R5
	c.Instance("R5")
	c.Check(!asyncBetween(p, e, reads[0].in, reads[0].fn, readFn), "R5", "read/synchronous", p.InstrPos(reads[0].in), "reads are delivered synchronously in the read loop", "reads are delivered through go / Executor.Exec: two reads can be delivered concurrently")
	// read loop function started from exactly one site
	starts := 0
	var startFn *ssa.Function
	for _, fn := range p.Funcs {
		core.AllInstrs(fn, func(in ssa.Instruction) {
			if cc := core.CallCommon(in); cc != nil && !cc.IsInvoke() && cc.StaticCallee() == readFn {
				starts++
				startFn = fn
			}
		})
	}
	c.Instance("R5")
	c.Check(starts == 1, "R5", "read-loop/started-once", p.Pos(readFn.Pos()), "the read loop function has one caller", "the read loop is started from "+itoa(starts)+" sites (two read loops would deliver reads concurrently)")
	// serveChannel reached only from pipeline.ServeChannel which asserts single attachment
	if startFn != nil {
		sc := core.Outermost(startFn)
		callers := 0
		guarded := false
		for _, fn := range p.Funcs {
			core.AllInstrs(fn, func(in ssa.Instruction) {
				cc := core.CallCommon(in)
				if cc == nil {
					return
				}
				hit := false
				if !cc.IsInvoke() && cc.StaticCallee() == sc {
					hit = true
				}
				if cc.IsInvoke() && cc.Method.Name() == sc.Name() && ifaceInvoke(in, r.ChannelIface, sc.Name()) {
					hit = true
				}
				if !hit {
					return
				}
				callers++
				// the call happens only when no channel is attached yet: `attached != nil` is known false here
				// (an assertion or an if/panic on the pipeline's channel field; a weaker test such as
				// "attached != nil && attached != this one" does not establish it)
				for _, cm := range falseAt(p, in) {
					if cm.Op != token.NEQ {
						continue
					}
					for _, side := range [][2]ssa.Value{{cm.X, cm.Y}, {cm.Y, cm.X}} {
						if !core.IsNilConst(side[1]) {
							continue
						}
						if f, _ := core.FieldOf(side[0]); f != nil && types.Identical(f.Type(), r.ChannelIface) {
							guarded = true
						}
					}
				}
			})
		}
		c.Instance("R5")
		c.Check(callers == 1 && guarded, "R5", "serve/single-attachment", p.Pos(sc.Pos()), "serveChannel has one caller, guarded by the already-attached assertion", "the channel can be served more than once (callers="+itoa(callers)+", attachment assertion present="+boolS(guarded)+")")
	}

	// ---- R6
	c.Instance("R6")
	closes := false
	for _, fr := range recoverFrames(readFn) {
		if fr.Defer.Block() == readFn.Blocks[0] {
			q := &core.Query{P: p, Pred: func(x ssa.Instruction) bool { return e.closesWith(x, nil) }}
			if q.Must(fr.Closure, nil) {
				closes = true
			}
		}
	}
	if !closes {
		// plain deferred Close
		core.AllInstrs(readFn, func(in ssa.Instruction) {
			if d, ok := in.(*ssa.Defer); ok && d.Block() == readFn.Blocks[0] {
				if f := core.FuncValue(d.Call.Value, nil); f != nil {
					q := &core.Query{P: p, Pred: func(x ssa.Instruction) bool { return e.closesWith(x, nil) }}
					if q.Must(f, nil) {
						closes = true
					}
				}
			}
		})
	}
	c.Check(closes, "R6", "read-loop/exits-close", p.Pos(readFn.Pos()), "every exit of the read loop (normal or panicking) runs a deferred Close", "the read loop can end without closing the channel (no inactive, transport leaked)")
	// each iteration tests the channel context
	c.Instance("R6")
	ctxObs := func(x ssa.Instruction) bool {
		switch y := x.(type) {
		case *ssa.Select:
			for _, st := range y.States {
				if st.Dir == types.RecvOnly && e.isCtxDone(st.Chan) {
					return true
				}
			}
		case *ssa.UnOp:
			return y.Op == token.ARROW && e.isCtxDone(y.X)
		}
		if cc := core.CallCommon(x); cc != nil && cc.IsInvoke() && cc.Method.Name() == "Err" {
			if f, _ := core.FieldOf(cc.Value); f == r.Ctx {
				return true
			}
		}
		return false
	}
	tgt, path := core.Search(readInstr, nil, func(x ssa.Instruction) core.Action {
		if ctxObs(x) {
			return core.Barrier
		}
		if x == readInstr {
			return core.Target
		}
		return core.Continue
	}, nil)
	c.Check(tgt == nil, "R6", "read-loop/tests-context", p.InstrPos(readInstr), "every iteration of the read loop observes the channel context", "the read loop can iterate without observing the channel context (does not terminate after Close / Shutdown)", p.PathString(path, tgt)...)
	// ... and the context is observed between the active delivery and the first read (a channel whose
	// context was cancelled while it was being set up must not park in its first transport read)
	c.Instance("R6")
	tgt, path = core.Search(actInstr, nil, func(x ssa.Instruction) core.Action {
		if ctxObs(x) {
			return core.Barrier
		}
		if x == readInstr {
			return core.Target
		}
		return core.Continue
	}, nil)
	c.Check(tgt == nil, "R6", "read-loop/tests-context-before-first-read", p.InstrPos(readInstr), "the channel context is observed after activation and before the first read", "the first transport read is issued without observing the channel context after activation: a channel cancelled while being set up (Shutdown between accept and activation) parks in Read and is never closed", p.PathString(path, tgt)...)
	// loop exit on context done leads to return (and thus to the deferred Close)
	e.checkFatalNetErrorClose(c, "R6")
}

func boolS(b bool) string {
	if b {
		return "yes"
	}
	return "no"
}

func itoa(i int) string { return core.PathItoa(i) }

// isCtxDone: v = c.ctx.Done()
func (e *ev) isCtxDone(v ssa.Value) bool {
	call, ok := core.Unwrap(v).(*ssa.Call)
	if !ok || !call.Call.IsInvoke() || call.Call.Method.Name() != "Done" {
		return false
	}
	f, _ := core.FieldOf(call.Call.Value)
	return f == e.r.Ctx
}

// liftToTopLevel maps a site inside (nested) closures / bound wrappers to the instruction of the
// enclosing top-level function that creates/calls that closure.
func liftToTopLevel(p *core.Prog, in ssa.Instruction, fn *ssa.Function) (ssa.Instruction, *ssa.Function) {
	for d := 0; d < 6; d++ {
		if fn.Parent() == nil && fn.Synthetic == "" && core.EnclosingFunc(fn) == nil {
			return in, fn
		}
		// find the MakeClosure (or direct call) of fn; a method used only as one method value (or only deferred
		// once) is the closure of that place
		var found ssa.Instruction
		var host *ssa.Function
		for _, g := range p.Funcs {
			core.AllInstrs(g, func(x ssa.Instruction) {
				if mc, ok := x.(*ssa.MakeClosure); ok {
					if mc.Fn == ssa.Value(fn) {
						found, host = x, g
					} else if w, ok := mc.Fn.(*ssa.Function); ok && fn.Parent() == nil && w.Synthetic != "" && unbound(w) == fn {
						found, host = x, g
					}
				}
				if df, ok := x.(*ssa.Defer); ok && fn.Parent() == nil && df.Call.StaticCallee() == fn {
					found, host = x, g
				}
			})
		}
		if found == nil {
			return nil, nil
		}
		in, fn = found, host
	}
	return nil, nil
}

// asyncBetween: on the closure chain from site up to top, some closure is handed to go / Exec / AfterFunc.
func asyncBetween(p *core.Prog, e *ev, in ssa.Instruction, fn, top *ssa.Function) bool {
	if _, ok := in.(*ssa.Go); ok {
		return true
	}
	for d := 0; d < 6 && fn != top; d++ {
		var mc *ssa.MakeClosure
		var host *ssa.Function
		for _, g := range p.Funcs {
			core.AllInstrs(g, func(x ssa.Instruction) {
				if m, ok := x.(*ssa.MakeClosure); ok {
					if m.Fn == ssa.Value(fn) {
						mc, host = m, g
					} else if w, ok := m.Fn.(*ssa.Function); ok && fn.Parent() == nil && w.Synthetic != "" && unbound(w) == fn {
						mc, host = m, g
					}
				}
			})
		}
		if mc == nil {
			return false
		}
		for _, ref := range *mc.Referrers() {
			if _, ok := ref.(*ssa.Go); ok {
				return true
			}
			if cc := core.CallCommon(ref); cc != nil {
				if cc.IsInvoke() && ifaceInvoke(ref, e.r.ExecutorIface, "Exec") {
					return true
				}
				if core.IsPkgFunc(ref, "time", "AfterFunc") {
					return true
				}
			}
		}
		fn = host
	}
	return false
}

// checkLatch: the start-up callback parameter of the read-loop function is deferred in the frame
// that fires the active event, before firing it; serveChannel waits for the latch before returning.
func (e *ev) checkLatch(c *core.Ctx, loopFn *ssa.Function, actIn ssa.Instruction, actFn *ssa.Function) {
	p := c.P
	c.Instance("R4")
	var cb *ssa.Parameter
	for _, prm := range loopFn.Params {
		if _, ok := prm.Type().Underlying().(*types.Signature); ok {
			cb = prm
		}
	}
	if cb == nil {
		c.Unk("R4", "latch/callback", p.Pos(loopFn.Pos()), "read-loop function has no start-up callback parameter (latch idiom not recognised)")
		return
	}
	// find calls of cb (through its spill cell) in loopFn and closures
	type callSite struct {
		in ssa.Instruction
		fn *ssa.Function
	}
	var calls []callSite
	var visit func(v ssa.Value, host *ssa.Function)
	visit = func(v ssa.Value, host *ssa.Function) {
		for _, ref := range *v.Referrers() {
			switch x := ref.(type) {
			case *ssa.Store:
				if x.Val == v {
					if al, ok := x.Addr.(*ssa.Alloc); ok {
						visit(al, host)
					}
				}
			case *ssa.UnOp:
				if x.Op == token.MUL {
					visit(x, x.Parent())
				}
			case *ssa.MakeClosure:
				f := x.Fn.(*ssa.Function)
				for i, b := range x.Bindings {
					if b == v && i < len(f.FreeVars) {
						visit(f.FreeVars[i], f)
					}
				}
			default:
				if cc := core.CallCommon(ref); cc != nil && cc.Value == v {
					calls = append(calls, callSite{ref, ref.Parent()})
				} else if cc != nil && !cc.IsInvoke() {
					// handed on to a step function of the repository
					if g := cc.StaticCallee(); g != nil && p.InRepo(g) && g.Blocks != nil {
						for i, a := range cc.Args {
							if a == v && i < len(g.Params) {
								visit(g.Params[i], g)
							}
						}
					}
				}
			}
		}
	}
	visit(cb, loopFn)
	if len(calls) != 1 {
		c.Bad("R4", "latch/callback", p.Pos(loopFn.Pos()), "the start-up callback is invoked from "+itoa(len(calls))+" sites (want exactly one deferred call)")
		return
	}
	cs := calls[0]
	_, isDefer := cs.in.(*ssa.Defer)
	// the frame holding the deferred callback must be the one that (transitively) fires active, and the defer precedes it
	fires := &core.Query{P: p, Pred: func(x ssa.Instruction) bool {
		return ifaceInvoke(x, e.r.PipelineIface, "FireChannelActive")
	}}
	okOrder := false
	if isDefer {
		core.AllInstrs(cs.fn, func(x ssa.Instruction) {
			if _, d := x.(*ssa.Defer); d {
				return
			}
			if fires.InstrMay(x, nil) && core.Dominates(cs.in, x) {
				okOrder = true
			}
			// bound method value passed to the helper
			if call := core.CallCommon(x); call != nil {
				for _, a := range call.Args {
					if f := core.FuncValue(a, nil); f != nil && fires.May(f, nil) && core.Dominates(cs.in, x) {
						okOrder = true
					}
				}
			}
		})
	}
	c.Check(isDefer && okOrder, "R4", "latch/released-after-active", p.InstrPos(cs.in), "the start-up callback is deferred in the frame that fires active (runs after it completed or panicked)",
		"the start-up callback is not a deferred call preceding the active delivery in the same frame: the channel can be handed out before the active event completed")
	// serveChannel: returns only after a receive on a channel closed by the callback
	var sc *ssa.Function
	for _, fn := range p.Funcs {
		core.AllInstrs(fn, func(in ssa.Instruction) {
			if cc := core.CallCommon(in); cc != nil && !cc.IsInvoke() && cc.StaticCallee() == loopFn {
				sc = core.Outermost(fn)
			}
		})
	}
	c.Instance("R4")
	if sc == nil {
		c.Unk("R4", "latch/serve-waits", "", "caller of the read loop not found")
		return
	}
	c.FuncsSeen[p.QName(sc)] = true
	waits := false
	recvQ := &core.Query{P: p, Pred: func(x ssa.Instruction) bool {
		u, ok := x.(*ssa.UnOp)
		return ok && u.Op == token.ARROW
	}}
	// a deferred closure that must receive, registered in the entry block; or a receive on every path to return
	core.AllInstrs(sc, func(in ssa.Instruction) {
		if d, ok := in.(*ssa.Defer); ok && d.Block() == sc.Blocks[0] {
			if f := core.FuncValue(d.Call.Value, nil); f != nil && recvQ.Must(f, nil) {
				waits = true
			}
		}
	})
	if !waits {
		if bad, _ := recvQ.MustPassBetween(nil, sc.Blocks[0], nil, core.IsNormalReturn, nil); bad == nil {
			waits = true
		}
	}
	c.Check(waits, "R4", "latch/serve-waits", p.Pos(sc.Pos()), "serveChannel returns only after receiving from the start-up latch", "serveChannel can return before the start-up latch is released (Connect / accept hand the channel out before active completed)")
}
