// nettylint: repository-specific static checks for the go-netty properties C01..C20.
//
//	nettylint -property C07 -tier quick|thorough [-repo /repo] [-evidence /verif/evidence]
//
// Exit 0: every obligation discharged (or a listed known finding). Exit 1: a
// line "VIOLATION property=<id> replay=<file>" was printed.
package main

import (
	"flag"
	"fmt"
	"os"
	"path/filepath"
	"sort"
	"strconv"
	"strings"
	"time"

	"verif/checker/internal/core"
	"verif/checker/internal/rules"
)

func main() {
	prop := flag.String("property", "", "property id (C01..C20) or 'all'")
	tier := flag.String("tier", "quick", "quick|thorough")
	repo := flag.String("repo", "/repo", "repository root")
	evdir := flag.String("evidence", "", "evidence directory (default <verif>/evidence)")
	verif := flag.String("verif", "", "verif root (default: parent of the binary's directory)")
	dump := flag.String("dump", "", "dump SSA of functions whose name contains this string and exit")
	replay := flag.String("replay", "", "violations file to re-evaluate")
	noev := flag.Bool("no-evidence", false, "do not write evidence (used for variant runs)")
	verbose := flag.Bool("v", false, "print every obligation")
	list := flag.Bool("list", false, "list implemented properties")
	warm := flag.Bool("warm", false, "load the repository once (warms the build cache) and exit")
	flag.Parse()

	start := time.Now()
	if *list {
		fmt.Println(strings.Join(rules.IDs(), " "))
		return
	}
	if *verif == "" {
		exe, _ := os.Executable()
		*verif = filepath.Dir(filepath.Dir(exe))
		if _, err := os.Stat(filepath.Join(*verif, "properties.jsonl")); err != nil {
			*verif = "/verif"
		}
	}
	if *evdir == "" {
		*evdir = filepath.Join(*verif, "evidence")
	}
	if t := os.Getenv("VERIF_TIER"); t != "" && !flagSet("tier") {
		*tier = t
	}
	seed := 0
	if s := os.Getenv("VERIF_SEED"); s != "" {
		seed, _ = strconv.Atoi(s)
	}
	if *replay != "" {
		// a replay file names the property; re-run that property's rules on the current tree
		b, err := os.ReadFile(*replay)
		if err == nil {
			s := string(b)
			if i := strings.Index(s, `"property": "`); i >= 0 {
				*prop = s[i+13 : i+16]
			}
		}
		*verbose = true
	}

	p, err := core.Load(*repo)
	if err != nil {
		fmt.Fprintln(os.Stderr, "LOAD-FAILURE:", err)
		ids := []string{*prop}
		if *prop == "all" || *prop == "" {
			ids = rules.IDs()
		}
		for _, id := range ids {
			f := filepath.Join(*evdir, id+".violations.json")
			os.MkdirAll(*evdir, 0o755)
			os.WriteFile(f, []byte(fmt.Sprintf("{\"property\":%q,\"load_failure\":%q}\n", id, err.Error())), 0o644)
			fmt.Printf("VIOLATION property=%s replay=%s\n", id, f)
		}
		os.Exit(1)
	}
	if *warm {
		fmt.Printf("loaded %d packages, %d functions in %.1fs\n", len(p.Pkgs), len(p.Funcs), time.Since(start).Seconds())
		return
	}
	if *dump != "" {
		for _, fn := range p.Funcs {
			if strings.Contains(p.QName(fn), *dump) {
				fn.WriteTo(os.Stdout)
			}
		}
		return
	}
	kf, err := core.LoadKnown(filepath.Join(*verif, "known_findings.json"))
	if err != nil {
		fmt.Fprintln(os.Stderr, "known_findings.json:", err)
		os.Exit(2)
	}

	ids := []string{*prop}
	if *prop == "all" {
		ids = rules.IDs()
	}
	exit := 0
	for _, id := range ids {
		pr := rules.Get(id)
		if pr == nil {
			fmt.Fprintf(os.Stderr, "unknown property %q (have %v)\n", id, rules.IDs())
			os.Exit(2)
		}
		t0 := time.Now()
		if len(ids) == 1 {
			t0 = start
		}
		c := core.NewCtx(p, id)
		func() {
			defer func() {
				if r := recover(); r != nil {
					c.Unk("internal", "checker-panic", "", fmt.Sprintf("checker panicked: %v", r))
					if *verbose {
						panic(r)
					}
				}
			}()
			pr.Run(c)
		}()
		extra := map[string]interface{}{}
		if *tier == "thorough" {
			dummy := &core.Outcome{}
			extra["thorough"] = thorough(p, pr, c, *verif, *repo, dummy)
		}
		out := c.Finish(kf)
		fmt.Printf("%s %s: %d obligations, %d violated/undecided, %d known findings, repo=%s\n", id, pr.Title, len(c.Obs), len(out.Violations), len(out.Known), *repo)
		fmt.Print(c.Summary())
		obs := append([]*core.Obligation{}, c.Obs...)
		sort.SliceStable(obs, func(i, j int) bool { return obs[i].Key < obs[j].Key })
		for _, o := range obs {
			if o.Known != "" && !*verbose {
				continue
			}
			if *verbose || o.Status != core.Discharged {
				fmt.Printf("  [%s] %s @%s: %s\n", o.Status, o.Key, o.Pos, o.Detail)
				for _, s := range o.Path {
					fmt.Printf("        %s\n", s)
				}
			}
		}
		for _, o := range out.Known {
			what := o.Known
			if len(what) > 300 {
				what = what[:300] + "..."
			}
			fmt.Printf("KNOWN-FINDING: property=%s %s @%s: %s\n", id, o.Key, o.Pos, what)
		}
		vfile := filepath.Join(*evdir, id+".violations.json")
		if !*noev {
			cmd := strings.Join(os.Args, " ")
			vfile, err = c.WriteEvidence(*evdir, *tier, seed, out, extra, pr.Explanation, pr.Assumptions, rules.TrustedBase, t0, cmd)
			if err != nil {
				fmt.Fprintln(os.Stderr, "evidence:", err)
				os.Exit(2)
			}
		}
		if len(out.Violations) > 0 {
			fmt.Printf("VIOLATION property=%s replay=%s\n", id, vfile)
			exit = 1
		}
	}
	os.Exit(exit)
}

func flagSet(name string) bool {
	set := false
	flag.Visit(func(f *flag.Flag) {
		if f.Name == name {
			set = true
		}
	})
	return set
}
