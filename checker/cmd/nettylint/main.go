// nettylint: repository-specific static checks for the go-netty properties C01..C20.
//
//	nettylint -property C07 -tier quick|thorough [-repo /repo] [-evidence /verif/evidence]
//
// Exit 0: every obligation discharged (or a listed known finding). Exit 1: a
// line "VIOLATION property=<id> replay=<file>" was printed.
package main

import (
	"flag"
	"fmt"
	"os"
	"path/filepath"
	"reflect"
	"sort"
	"strconv"
	"strings"
	"time"

	"verif/checker/internal/core"
	"verif/checker/internal/rules"
)

func main() {
	prop := flag.String("property", "", "property id (C01..C20) or 'all'")
	tier := flag.String("tier", "quick", "quick|thorough")
	repo := flag.String("repo", "/repo", "repository root")
	evdir := flag.String("evidence", "", "evidence directory (default <verif>/evidence)")
	verif := flag.String("verif", "", "verif root (default: parent of the binary's directory)")
	dump := flag.String("dump", "", "dump SSA of functions whose name contains this string and exit")
	replay := flag.String("replay", "", "violations file to re-evaluate")
	noev := flag.Bool("no-evidence", false, "do not write evidence (used for variant runs)")
	verbose := flag.Bool("v", false, "print every obligation")
	list := flag.Bool("list", false, "list implemented properties")
	warm := flag.Bool("warm", false, "load the repository once (warms the build cache) and exit")
	inl := flag.Int("inline", -1, "analyse only this inlining normal form (0..3); default: 0, then 1..3 if an obligation is not discharged")
	wstems := flag.Bool("write-stems", false, "with -property all on the blessed tree: regenerate <verif>/reference_stems.json")
	inlOnly := flag.String("inline-only", "", "with -inline N: inline only these helpers (comma-separated pkg:func names, substring match)")
	flag.Parse()

	start := time.Now()
	if *list {
		fmt.Println(strings.Join(rules.IDs(), " "))
		return
	}
	if *verif == "" {
		exe, _ := os.Executable()
		*verif = filepath.Dir(filepath.Dir(exe))
		if _, err := os.Stat(filepath.Join(*verif, "properties.jsonl")); err != nil {
			*verif = "/verif"
		}
	}
	if *evdir == "" {
		*evdir = filepath.Join(*verif, "evidence")
	}
	if t := os.Getenv("VERIF_TIER"); t != "" && !flagSet("tier") {
		*tier = t
	}
	seed := 0
	if s := os.Getenv("VERIF_SEED"); s != "" {
		seed, _ = strconv.Atoi(s)
	}
	if *replay != "" {
		// a replay file names the property; re-run that property's rules on the current tree
		b, err := os.ReadFile(*replay)
		if err == nil {
			s := string(b)
			if i := strings.Index(s, `"property": "`); i >= 0 {
				*prop = s[i+13 : i+16]
			}
		}
		*verbose = true
	}

	p, err := core.Load(*repo)
	if err != nil {
		fmt.Fprintln(os.Stderr, "LOAD-FAILURE:", err)
		ids := []string{*prop}
		if *prop == "all" || *prop == "" {
			ids = rules.IDs()
		}
		for _, id := range ids {
			f := filepath.Join(*evdir, id+".violations.json")
			os.MkdirAll(*evdir, 0o755)
			os.WriteFile(f, []byte(fmt.Sprintf("{\"property\":%q,\"load_failure\":%q}\n", id, err.Error())), 0o644)
			fmt.Printf("VIOLATION property=%s replay=%s\n", id, f)
		}
		os.Exit(1)
	}
	for _, f := range p.ExcludedFiles {
		fmt.Printf("NOTE: not part of this build configuration: %s\n", f)
	}
	if *warm {
		fmt.Printf("loaded %d packages, %d functions in %.1fs\n", len(p.Pkgs), len(p.Funcs), time.Since(start).Seconds())
		return
	}
	if *dump != "" {
		if *inl > 0 {
			q, err := progAt(p, *inl)
			if err != nil {
				fmt.Fprintln(os.Stderr, "inline:", err)
				os.Exit(2)
			}
			fmt.Println("inlined:", strings.Join(q.Inlined, "; "))
			p = q
		}
		for _, fn := range p.Funcs {
			if strings.Contains(p.QName(fn), *dump) {
				fn.WriteTo(os.Stdout)
			}
		}
		return
	}
	kf, err := core.LoadKnown(filepath.Join(*verif, "known_findings.json"))
	if err != nil {
		fmt.Fprintln(os.Stderr, "known_findings.json:", err)
		os.Exit(2)
	}

	ids := []string{*prop}
	if *prop == "all" {
		ids = rules.IDs()
	}
	if !*wstems {
		loadRefStems(*verif)
	}
	allCtx := map[string]*core.Ctx{}
	exit := 0
	for _, id := range ids {
		pr := rules.Get(id)
		if pr == nil {
			fmt.Fprintf(os.Stderr, "unknown property %q (have %v)\n", id, rules.IDs())
			os.Exit(2)
		}
		t0 := time.Now()
		if len(ids) == 1 {
			t0 = start
		}
		runAt := func(q *core.Prog) *core.Ctx {
			c := core.NewCtx(q, id)
			func() {
				defer func() {
					if r := recover(); r != nil {
						c.Unk("internal", "checker-panic", "", fmt.Sprintf("checker panicked: %v", r))
						if *verbose {
							panic(r)
						}
					}
				}()
				c.Importing = map[uintptr]bool{reflect.ValueOf(pr.Run).Pointer(): true}
				pr.Run(c)
			}()
			return c
		}
		extra := map[string]interface{}{}
		var c *core.Ctx
		if *inl >= 0 {
			q, err := progAt(p, *inl)
			if *inlOnly != "" && *inl > 0 {
				only := map[string]bool{}
				for _, h := range p.Helpers(*inl) {
					for _, w := range strings.Split(*inlOnly, ",") {
						if strings.Contains(h, w) {
							only[h] = true
						}
					}
				}
				q, err = p.WithInlinedSet(*inl, only)
				if err == nil {
					fmt.Println("inlined:", strings.Join(q.Inlined, "; "))
				}
			}
			if err != nil {
				fmt.Fprintln(os.Stderr, "inline:", err)
				os.Exit(2)
			}
			c = runAt(q)
			extra["normal_form"] = normalForm(q)
		} else {
			c = runAt(p)
			extra["normal_form"] = normalForm(p)
			// an obligation kind of the reference list that is not examined at all on this tree is a rule that
			// lost its anchor (the construct moved into a helper, or is gone): recorded as undecided, which sends
			// the property through the normal forms like any other open obligation
			if refStemsLoaded && len(c.Finish(kf).Violations) == 0 {
				miss := missingStems(refStems[id], c)
				sort.Strings(miss)
				for _, m := range miss {
					c.Unk("coverage", "not-examined/"+strings.TrimPrefix(m, id+"/"), "", "no obligation of kind "+m+" was produced on this tree (the rule found nothing to examine): the property is not decided")
				}
			}
			if len(c.Finish(kf).Violations) > 0 {
				// a helper-extraction refactoring hides constructs from per-function rules: retry on the
				// inlining normal forms (semantics-preserving); the first form on which every obligation is
				// discharged decides. If none is, the report is the one for the program as written.
				var tried []string
				for lvl := 1; lvl <= core.MaxInlineLevel; lvl++ {
					q, err := progAt(p, lvl)
					if err != nil {
						tried = append(tried, fmt.Sprintf("level %d: %v", lvl, err))
						continue
					}
					if len(q.Inlined) == 0 || (lvl > 1 && sameInlined(q, prevAt(p, lvl-1))) {
						tried = append(tried, fmt.Sprintf("level %d: nothing further to inline", lvl))
						continue
					}
					c2 := runAt(q)
					if len(c2.Finish(kf).Violations) == 0 {
						if miss := missingStems(refStems[id], c2); len(miss) > 0 || !refStemsLoaded {
							sort.Strings(miss)
							miss = append(miss, "-")
							tried = append(tried, fmt.Sprintf("level %d: discharged, but %d obligation kinds of the reference list are not examined in this form (e.g. %s): not accepted", lvl, len(miss)-1, miss[0]))
							continue
						}
						fmt.Printf("%s: not discharged on the program as written; discharged on inlining normal form level %d (%d helper calls inlined)\n", id, lvl, len(q.Inlined))
						c = c2
						extra["normal_form"] = normalForm(q)
						break
					}
					tried = append(tried, fmt.Sprintf("level %d: still not discharged", lvl))
				}
				if c.P == p {
					if c2, q, note := searchNormalForm(p, c, kf, runAt); c2 != nil {
						fmt.Printf("%s: not discharged on the program as written; discharged on the normal form with %d helper call(s) inlined: %s\n", id, len(q.Inlined), strings.Join(q.Inlined, "; "))
						c = c2
						extra["normal_form"] = normalForm(q)
						tried = append(tried, note)
					} else {
						tried = append(tried, note)
					}
				}
				extra["normal_forms_tried"] = tried
				if *verbose || c.P == p {
					for _, t := range tried {
						fmt.Printf("  normal form %s\n", t)
					}
				}
			}
		}
		if *tier == "thorough" {
			dummy := &core.Outcome{}
			extra["thorough"] = thorough(c.P, pr, c, *verif, *repo, dummy)
		}
		allCtx[id] = c
		out := c.Finish(kf)
		fmt.Printf("%s %s: %d obligations, %d violated/undecided, %d known findings, repo=%s\n", id, pr.Title, len(c.Obs), len(out.Violations), len(out.Known), *repo)
		fmt.Print(c.Summary())
		obs := append([]*core.Obligation{}, c.Obs...)
		sort.SliceStable(obs, func(i, j int) bool { return obs[i].Key < obs[j].Key })
		for _, o := range obs {
			if o.Known != "" && !*verbose {
				continue
			}
			if *verbose || o.Status != core.Discharged {
				fmt.Printf("  [%s] %s @%s: %s\n", o.Status, o.Key, o.Pos, o.Detail)
				for _, s := range o.Path {
					fmt.Printf("        %s\n", s)
				}
			}
		}
		for _, o := range out.Known {
			what := o.Known
			if len(what) > 300 {
				what = what[:300] + "..."
			}
			fmt.Printf("KNOWN-FINDING: property=%s %s @%s: %s\n", id, o.Key, o.Pos, what)
		}
		vfile := filepath.Join(*evdir, id+".violations.json")
		if !*noev {
			cmd := strings.Join(os.Args, " ")
			vfile, err = c.WriteEvidence(*evdir, *tier, seed, out, extra, pr.Explanation, pr.Assumptions, rules.TrustedBase, t0, cmd)
			if err != nil {
				fmt.Fprintln(os.Stderr, "evidence:", err)
				os.Exit(2)
			}
		}
		if len(out.Violations) > 0 {
			fmt.Printf("VIOLATION property=%s replay=%s\n", id, vfile)
			exit = 1
		}
	}
	if *wstems {
		if exit != 0 || *prop != "all" {
			fmt.Fprintln(os.Stderr, "-write-stems needs -property all and a tree on which every property is discharged")
			os.Exit(2)
		}
		if err := writeRefStems(*verif, allCtx); err != nil {
			fmt.Fprintln(os.Stderr, err)
			os.Exit(2)
		}
	}
	os.Exit(exit)
}

var progs = map[int]*core.Prog{}

func progAt(p *core.Prog, lvl int) (*core.Prog, error) {
	if lvl == 0 {
		return p, nil
	}
	if q, ok := progs[lvl]; ok {
		if q == nil {
			return nil, fmt.Errorf("normal form unavailable")
		}
		return q, nil
	}
	q, err := p.WithInlining(lvl)
	if err != nil {
		progs[lvl] = nil
		return nil, err
	}
	progs[lvl] = q
	return q, nil
}

func prevAt(p *core.Prog, lvl int) *core.Prog {
	q, _ := progAt(p, lvl)
	return q
}

func sameInlined(a, b *core.Prog) bool {
	if a == nil || b == nil {
		return false
	}
	return strings.Join(a.Inlined, "|") == strings.Join(b.Inlined, "|")
}

func normalForm(q *core.Prog) map[string]interface{} {
	return map[string]interface{}{"inline_level": q.InlineLevel, "inlined_calls": q.Inlined}
}

func flagSet(name string) bool {
	set := false
	flag.Visit(func(f *flag.Flag) {
		if f.Name == name {
			set = true
		}
	})
	return set
}
