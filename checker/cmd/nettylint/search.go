package main

import (
	"encoding/json"
	"fmt"
	"go/ast"
	"go/types"
	"os"
	"path/filepath"
	"sort"
	"strings"

	"verif/checker/internal/core"
)

// searchNormalForm looks for a set of helpers whose inlining (a semantics-preserving rewrite, see
// core/inline.go) lets every obligation of the property be discharged. Greedy: a helper (or all helper
// methods of one receiver type) stays inlined when that lowers the number of open obligations; afterwards
// helpers whose removal lowers it further are taken out again. Two candidate orders are tried.
func searchNormalForm(p *core.Prog, c0 *core.Ctx, kf *core.KnownFindings, runAt func(*core.Prog) *core.Ctx) (*core.Ctx, *core.Prog, string) {
	cands := p.Helpers(core.MaxInlineLevel)
	if os.Getenv("NL_DEBUG_STEMS") != "" {
		fmt.Fprintf(os.Stderr, "candidates: %v\n", cands)
	}
	score := func(x *core.Ctx) int {
		n := 0
		for _, o := range x.Finish(kf).Violations {
			if strings.Contains(o.Key, "/coverage/not-examined/") {
				continue // counted as a missing stem below
			}
			if strings.Contains(o.Key, "/anchors/") {
				n += 1000 // an unresolved anchor hides every obligation behind it
			} else {
				n++
			}
		}
		return n
	}
	var typeGroups [][]string
	byRecv := map[string][]string{}
	var recvs []string
	for _, h := range cands {
		if i := strings.Index(h, ")."); i > 0 && strings.Contains(h, ":(") {
			rt := h[:i]
			if len(byRecv[rt]) == 0 {
				recvs = append(recvs, rt)
			}
			byRecv[rt] = append(byRecv[rt], h)
		}
	}
	for _, rt := range recvs {
		if len(byRecv[rt]) > 1 {
			typeGroups = append(typeGroups, byRecv[rt])
		}
	}
	var singles [][]string
	for _, h := range cands {
		singles = append(singles, []string{h})
	}
	// a helper together with the helpers it calls (a refactoring often extracts two layers at once)
	callees := p.HelperCallees(cands)
	var chainGroups [][]string
	for _, h := range cands {
		base := h
		if i := strings.Index(h, "@"); i > 0 {
			base = h[:i]
		}
		seen := map[string]bool{h: true}
		work := []string{base}
		grp := []string{h}
		for len(work) > 0 && len(grp) < 8 {
			x := work[len(work)-1]
			work = work[:len(work)-1]
			for _, c := range callees[x] {
				if !seen[c] {
					seen[c] = true
					grp = append(grp, c)
					cb := c
					if i := strings.Index(c, "@"); i > 0 {
						cb = c[:i]
					}
					work = append(work, cb)
				}
			}
		}
		if len(grp) > 1 {
			chainGroups = append(chainGroups, grp)
		}
	}
	// the helpers one function calls, together (a long function split into steps: the rule needs all of them back)
	var callerNames []string
	for name := range callees {
		callerNames = append(callerNames, name)
	}
	sort.Strings(callerNames)
	for _, name := range callerNames {
		seen := map[string]bool{}
		var grp []string
		var add func(x string, d int)
		add = func(x string, d int) {
			for _, h := range callees[x] {
				if !seen[h] && len(grp) < 10 {
					seen[h] = true
					grp = append(grp, h)
					hb := h
					if i := strings.Index(h, "@"); i > 0 {
						hb = h[:i]
					}
					if d < 3 {
						add(hb, d+1)
					}
				}
			}
		}
		add(name, 0)
		if len(grp) > 1 {
			sort.Strings(grp)
			dup := false
			for _, g := range chainGroups {
				if strings.Join(g, ",") == strings.Join(grp, ",") {
					dup = true
				}
			}
			if !dup {
				chainGroups = append(chainGroups, grp)
			}
		}
	}
	// call sites of exported functions ("callee@caller") are tried after the unexported helpers: dissolving a
	// helper is what undoes a refactoring, while inlining an exported constructor into another one also moves the
	// checks of the first into the second and can satisfy a stem with the wrong function's code (a local optimum
	// the greedy search then does not leave)
	siteLast := func(gs [][]string) [][]string {
		var plain, sites [][]string
		for _, g := range gs {
			if strings.Contains(g[0], "@") {
				sites = append(sites, g)
			} else {
				plain = append(plain, g)
			}
		}
		return append(plain, sites...)
	}
	o1 := append(append(append([][]string{}, singles...), chainGroups...), typeGroups...)
	o2 := append(append(append([][]string{}, typeGroups...), chainGroups...), singles...)
	orders := [][][]string{siteLast(o1), siteLast(o2)}
	runs := 0
	base := refStems[c0.Property]
	full := score
	score = func(x *core.Ctx) int {
		n := full(x)
		// a form is only accepted when no obligation kind of the reference list has dropped out of sight
		// in it (an obligation that vanishes is not an obligation discharged); counting the missing kinds in
		// every score lets the greedy search make progress on them too
		ms := missingStems(base, x)
		if n == 0 && os.Getenv("NL_DEBUG_STEMS") != "" && len(ms) > 0 {
			fmt.Fprintf(os.Stderr, "form %v rejected, missing stems: %v\n", x.P.Inlined, ms)
		}
		return n + len(ms)
	}
	bestOverall := score(c0)
	eval := func(set map[string]bool) (*core.Ctx, *core.Prog, int) {
		q, err := p.WithInlinedSet(core.MaxInlineLevel, set)
		if err != nil || len(q.Inlined) == 0 {
			return nil, nil, -1
		}
		runs++
		c2 := runAt(q)
		sc := score(c2)
		if os.Getenv("NL_DEBUG_STEMS") == "2" {
			fmt.Fprintf(os.Stderr, "form %v -> score %d (violations %d, missing %v)\n", q.Inlined, sc, len(c2.Finish(kf).Violations), missingStems(base, c2))
		}
		return c2, q, sc
	}
	for _, groups := range orders {
		set := map[string]bool{}
		best := score(c0)
		var bestCtx *core.Ctx
		var bestProg *core.Prog
		for pass := 0; pass < 4 && best > 0; pass++ {
			improved := false
			for _, g := range groups {
				var added []string
				for _, h := range g {
					if !set[h] {
						set[h] = true
						added = append(added, h)
					}
				}
				if len(added) == 0 {
					continue
				}
				c2, q, n := eval(set)
				if n >= 0 && n < best {
					best, bestCtx, bestProg, improved = n, c2, q, true
					if best == 0 {
						break
					}
				} else {
					for _, h := range added {
						delete(set, h)
					}
				}
			}
			// backward step: a helper accepted early may stand in the way later
			if best > 0 {
				var inSet []string
				for h := range set {
					inSet = append(inSet, h)
				}
				sort.Strings(inSet)
				for _, h := range inSet {
					delete(set, h)
					c2, q, n := eval(set)
					if n >= 0 && n < best {
						best, bestCtx, bestProg, improved = n, c2, q, true
						if best == 0 {
							break
						}
					} else {
						set[h] = true
					}
				}
			}
			if !improved {
				break
			}
		}
		if best < bestOverall {
			bestOverall = best
		}
		if best == 0 && bestCtx != nil {
			return bestCtx, bestProg, fmt.Sprintf("helper search: %d candidate helpers, %d forms analysed, all obligations discharged", len(cands), runs)
		}
	}
	return nil, nil, fmt.Sprintf("helper search: %d candidate helpers, %d forms analysed, best form leaves %d open obligations", len(cands), runs, bestOverall)
}

// stem of an obligation key: the key without the segments that name functions (which inlining moves).
func stem(key string, drop map[string]bool) string {
	var out []string
	for _, seg := range strings.Split(key, "/") {
		if strings.ContainsAny(seg, "($[.") {
			continue
		}
		// "#2" only enumerates the instances of one construct
		if i := strings.LastIndex(seg, "#"); i > 0 {
			digits := true
			for _, r := range seg[i+1:] {
				if r < '0' || r > '9' {
					digits = false
				}
			}
			if digits && i+1 < len(seg) {
				seg = seg[:i]
			}
		}
		if drop[seg] {
			continue // a renameable identifier that does not distinguish obligations (function, field, parameter)
		}
		// imported obligations carry "R6:<first segment of the source key>"
		if i := strings.Index(seg, ":"); i > 0 && drop[seg[i+1:]] {
			seg = seg[:i+1]
		}
		out = append(out, seg)
	}
	return strings.Join(out, "/")
}

// unexportedNames: the unexported identifiers of the analysed program that can show up as a key segment.
// drop: package-level functions, struct fields, parameters (never distinguish two obligations of one rule);
// typs: named types (they do: "wire-length/lengthFieldCodec" vs "wire-length/varintLengthFieldCodec").
func unexportedNames(p *core.Prog) (drop, typs map[string]bool) {
	drop, typs = map[string]bool{}, map[string]bool{}
	for _, fn := range p.Funcs {
		if fn.Parent() == nil && fn.Signature.Recv() == nil && fn.Name() != "" && !ast.IsExported(fn.Name()) {
			drop[fn.Name()] = true
		}
		for _, prm := range fn.Params {
			if prm.Name() != "" {
				drop[prm.Name()] = true
			}
		}
	}
	for _, pk := range p.Pkgs {
		if pk.Types == nil {
			continue
		}
		sc := pk.Types.Scope()
		for _, nm := range sc.Names() {
			tn, ok := sc.Lookup(nm).(*types.TypeName)
			if !ok {
				continue
			}
			if !tn.Exported() {
				typs[tn.Name()] = true
			}
			if st, ok := tn.Type().Underlying().(*types.Struct); ok {
				for i := 0; i < st.NumFields(); i++ {
					if f := st.Field(i); !f.Exported() {
						drop[f.Name()] = true
					}
				}
			}
		}
	}
	for t := range typs {
		delete(drop, t)
	}
	return
}

// stems of the obligations of c: keys without function-naming segments, enumerators and the renameable
// identifiers of the blessed tree and of the analysed program that do not distinguish obligations.
// Unexported type names stay (they do distinguish) and are matched modulo renaming by missingStems.
func stems(c *core.Ctx) map[string]bool {
	ownDrop, ownTypes := unexportedNames(c.P)
	drop := map[string]bool{}
	for k := range refDrop {
		drop[k] = true
	}
	for k := range ownDrop {
		if !ownTypes[k] && !refTypes[k] {
			drop[k] = true
		}
	}
	for k := range refTypes {
		delete(drop, k)
	}
	// a literal key segment may coincide with an identifier that only the analysed program has (a field
	// renamed to "active", "state", ...): both readings of the key count
	blessedOnly := map[string]bool{}
	for k := range refDrop {
		if !refTypes[k] {
			blessedOnly[k] = true
		}
	}
	m := map[string]bool{}
	for _, o := range c.Obs {
		if strings.Contains(o.Key, "<floor>") || strings.Contains(o.Key, "/anchors/") || strings.Contains(o.Key, "/internal/") || strings.Contains(o.Key, "/coverage/") {
			continue
		}
		m[stem(o.Key, drop)] = true
		m[stem(o.Key, blessedOnly)] = true
	}
	return m
}

// missingStems: the reference kinds that c does not examine. A blessed type name that no longer exists in
// the analysed program may have been renamed: it matches one new type name of the program, the same one in
// every stem.
func missingStems(base map[string]bool, c *core.Ctx) []string {
	have := stems(c)
	_, ownTypes := unexportedNames(c.P)
	var gone, fresh []string
	for t := range refTypes {
		if !ownTypes[t] {
			gone = append(gone, t)
		}
	}
	for t := range ownTypes {
		if !refTypes[t] {
			fresh = append(fresh, t)
		}
	}
	sort.Strings(gone)
	sort.Strings(fresh)
	subst := func(s, from, to string) string {
		segs := strings.Split(s, "/")
		for i, seg := range segs {
			if seg == from {
				segs[i] = to
			} else if j := strings.Index(seg, ":"); j > 0 && seg[j+1:] == from {
				segs[i] = seg[:j+1] + to
			}
		}
		return strings.Join(segs, "/")
	}
	rename := map[string]string{}
	used := map[string]bool{}
	for _, g := range gone {
		best, bestN := "", 0
		for _, f := range fresh {
			if used[f] {
				continue
			}
			n, all := 0, true
			for s := range base {
				if !strings.Contains(s, g) {
					continue
				}
				if t := subst(s, g, f); t != s {
					if have[t] {
						n++
					} else {
						all = false
					}
				}
			}
			if all && n > bestN {
				best, bestN = f, n
			}
		}
		if best != "" {
			rename[g] = best
			used[best] = true
		}
	}
	var out []string
	for s := range base {
		t := s
		for g, f := range rename {
			t = subst(t, g, f)
		}
		if !have[t] {
			out = append(out, s)
		}
	}
	return out
}

// refStems: per property, the obligation kinds (stems) examined on the blessed tree as written
// (/verif/reference_stems.json, regenerated with -write-stems whenever rules change). A normal form is
// accepted only when it examines all of them. Without the file no normal form is accepted.
var refStems = map[string]map[string]bool{}
var refDrop = map[string]bool{}
var refTypes = map[string]bool{}
var refStemsLoaded bool

type refFile struct {
	Identifiers []string            `json:"unexported_functions_fields_parameters_of_the_blessed_tree"`
	Types       []string            `json:"unexported_types_of_the_blessed_tree"`
	Stems       map[string][]string `json:"obligation_kinds"`
}

func loadRefStems(verif string) {
	b, err := os.ReadFile(filepath.Join(verif, "reference_stems.json"))
	if err != nil {
		return
	}
	var rf refFile
	if json.Unmarshal(b, &rf) != nil || rf.Stems == nil {
		return
	}
	for _, n := range rf.Identifiers {
		refDrop[n] = true
	}
	for _, n := range rf.Types {
		refTypes[n] = true
	}
	for id, ss := range rf.Stems {
		refStems[id] = map[string]bool{}
		for _, s := range ss {
			refStems[id][s] = true
		}
	}
	refStemsLoaded = true
}

func writeRefStems(verif string, all map[string]*core.Ctx) error {
	rf := refFile{Stems: map[string][]string{}}
	for _, c := range all {
		d, t := unexportedNames(c.P)
		for n := range d {
			refDrop[n] = true
		}
		for n := range t {
			refTypes[n] = true
		}
		break
	}
	for n := range refDrop {
		rf.Identifiers = append(rf.Identifiers, n)
	}
	for n := range refTypes {
		rf.Types = append(rf.Types, n)
	}
	sort.Strings(rf.Identifiers)
	sort.Strings(rf.Types)
	for id, c := range all {
		var ss []string
		for s := range stems(c) {
			ss = append(ss, s)
		}
		sort.Strings(ss)
		rf.Stems[id] = ss
	}
	b, _ := json.MarshalIndent(rf, "", " ")
	return os.WriteFile(filepath.Join(verif, "reference_stems.json"), append(b, '\n'), 0o644)
}
