package main

import (
	"fmt"
	"os"
	"os/exec"
	"path/filepath"
	"reflect"
	"runtime"
	"sort"
	"strings"
	"sync"

	"verif/checker/internal/core"
	"verif/checker/internal/rules"
)

// thorough runs the deeper tier for one property:
//  1. the same rule set on a second build configuration (GOARCH=386: the only build-dependent code is
//     pmath's bit size, but every package is re-type-checked and re-lowered) - new violations there count;
//  2. the variant battery: every /verif/mutants/<ID>-*.patch (a known-bad variant that compiles and passes
//     the unedited suite) and every ok-*.patch (behaviour-preserving refactor) is applied to a scratch copy
//     of the CURRENT working tree outside /repo and /verif and analysed (never executed) by this binary;
//     the outcome is recorded in the evidence as a self-test of the rules on this tree. Patches that do not
//     apply to the tree under test are skipped.
func thorough(p *core.Prog, pr *rules.Property, c *core.Ctx, verif, repo string, out *core.Outcome) map[string]interface{} {
	res := map[string]interface{}{}
	// ---- 1. further build configurations: GOARCH=386 always, plus every GOOS/GOARCH under which a file that
	// the default configuration excludes by build constraints would be compiled
	configs := append([]string{"GOARCH=386"}, p.AltConfigs...)
	cfgRes := map[string]interface{}{}
	for _, cfg := range configs {
		p2, err := core.Load(repo, strings.Fields(cfg)...)
		if err != nil {
			cfgRes[cfg] = "load failed: " + err.Error()
			c.Unk("config", cfg+"/load", "", "the repository does not load under "+cfg+": "+err.Error())
			*out = *c.Finish(nil)
			continue
		}
		if p.InlineLevel > 0 {
			// the verdict was reached on an inlining normal form: analyse the same form of this configuration
			if q, err := p2.WithInlinedSet(p.InlineLevel, p.InlineOnly); err == nil {
				p2 = q
			}
		}
		c2 := core.NewCtx(p2, pr.ID)
		func() {
			defer func() {
				if r := recover(); r != nil {
					c2.Unk("internal", "checker-panic@"+cfg, "", fmt.Sprint(r))
				}
			}()
			c2.Importing = map[uintptr]bool{reflect.ValueOf(pr.Run).Pointer(): true}
			pr.Run(c2)
		}()
		known := map[string]bool{}
		for _, o := range c.Obs {
			known[o.Key+"|"+string(o.Status)] = true
		}
		diff := 0
		for _, o := range c2.Obs {
			if !known[o.Key+"|"+string(o.Status)] {
				diff++
				if o.Status != core.Discharged {
					o.Key += "@" + cfg
					c.Obs = append(c.Obs, o)
				}
			}
		}
		cfgRes[cfg] = map[string]interface{}{"obligations": len(c2.Obs), "verdict_differences": diff}
	}
	res["configurations"] = cfgRes
	if len(p.ExcludedFiles) > 0 {
		res["files_excluded_by_build_constraints"] = p.ExcludedFiles
	}

	// ---- 2. variant battery
	self, _ := os.Executable()
	patches, _ := filepath.Glob(filepath.Join(verif, "mutants", pr.ID+"-*.patch"))
	oks, _ := filepath.Glob(filepath.Join(verif, "mutants", "ok-*.patch"))
	seeds, _ := filepath.Glob(filepath.Join(verif, "seeded", pr.ID+"-*", "patch.diff"))
	sort.Strings(patches)
	sort.Strings(oks)
	// a confirmed seed that is also kept in mutants/ under the same name is the same patch: analyse it once
	{
		var uniq []string
		for _, sd := range seeds {
			name := filepath.Base(filepath.Dir(sd))
			if _, err := os.Stat(filepath.Join(verif, "mutants", name+".patch")); err == nil {
				continue
			}
			uniq = append(uniq, sd)
		}
		seeds = uniq
	}
	sort.Strings(seeds)
	var caught, missed, skipped, okSilent, okAlarm []string
	run := func(patch string) (string, string) {
		tmp, err := os.MkdirTemp("", "nl-variant.")
		if err != nil {
			return "skipped", err.Error()
		}
		defer os.RemoveAll(tmp)
		cp := exec.Command("sh", "-c", fmt.Sprintf("cd %q && tar --exclude=.git -cf - . | (cd %q && tar -xf -)", repo, tmp))
		if b, err := cp.CombinedOutput(); err != nil {
			return "skipped", string(b)
		}
		ap := exec.Command("git", "apply", "--whitespace=nowarn", patch)
		ap.Dir = tmp
		if err := ap.Run(); err != nil {
			ap2 := exec.Command("patch", "-p1", "-s", "-i", patch)
			ap2.Dir = tmp
			if err2 := ap2.Run(); err2 != nil {
				return "skipped", "patch does not apply to the tree under test"
			}
		}
		cmd := exec.Command(self, "-repo", tmp, "-property", pr.ID, "-no-evidence", "-verif", verif)
		b, _ := cmd.CombinedOutput()
		s := string(b)
		switch {
		case strings.Contains(s, "LOAD-FAILURE"):
			return "skipped", "variant does not type-check on the tree under test"
		case strings.Contains(s, "VIOLATION property="+pr.ID):
			first := ""
			for _, ln := range strings.Split(s, "\n") {
				if strings.Contains(ln, "[violated]") || strings.Contains(ln, "[undecided]") {
					first = strings.TrimSpace(ln)
					break
				}
			}
			return "alarm", first
		default:
			return "silent", ""
		}
	}
	name := func(pth string) string {
		b := strings.TrimSuffix(filepath.Base(pth), ".patch")
		if b == "patch.diff" {
			b = "seeded/" + filepath.Base(filepath.Dir(pth))
		}
		return b
	}
	details := map[string]string{}
	// one analysis process per variant, several at a time
	type result struct{ st, d string }
	all := append(append(append([]string{}, patches...), seeds...), oks...)
	results := make([]result, len(all))
	workers := runtime.NumCPU() - 2 // each variant analysis is a separate program load (about 0.6 GB at peak)
	if workers < 1 {
		workers = 1
	}
	if workers > 14 {
		workers = 14
	}
	var wg sync.WaitGroup
	jobs := make(chan int)
	for w := 0; w < workers; w++ {
		wg.Add(1)
		go func() {
			defer wg.Done()
			for i := range jobs {
				st, d := run(all[i])
				results[i] = result{st, d}
			}
		}()
	}
	for i := range all {
		jobs <- i
	}
	close(jobs)
	wg.Wait()
	nbad := len(patches) + len(seeds)
	for i, m := range all {
		st, d := results[i].st, results[i].d
		if i < nbad {
			switch st {
			case "alarm":
				caught = append(caught, name(m))
				details[name(m)] = d
			case "silent":
				missed = append(missed, name(m))
			default:
				skipped = append(skipped, name(m)+": "+d)
			}
			continue
		}
		switch st {
		case "alarm":
			okAlarm = append(okAlarm, name(m)+": "+d)
		case "silent":
			okSilent = append(okSilent, name(m))
		default:
			skipped = append(skipped, name(m)+": "+d)
		}
	}
	res["variants"] = map[string]interface{}{
		"bad_variants_reported":        caught,
		"bad_variants_missed":          missed,
		"refactor_variants_silent":     okSilent,
		"refactor_variants_alarmed":    okAlarm,
		"skipped":                      skipped,
		"first_report_per_bad_variant": details,
		"note":                         "variants are analysed statically on scratch copies of the current working tree; they are a self-test of the rules, not part of the verdict on the tree under test",
	}
	fmt.Printf("  thorough: %d further configuration(s) analysed; variants: %d bad reported, %d bad missed, %d refactors silent, %d refactors alarmed, %d skipped\n", len(configs), len(caught), len(missed), len(okSilent), len(okAlarm), len(skipped))
	for _, m := range missed {
		fmt.Printf("  SELFTEST-MISSED %s (a known-bad variant of this tree is not reported by the %s rules)\n", m, pr.ID)
	}
	for _, m := range okAlarm {
		fmt.Printf("  SELFTEST-FALSE-ALARM %s\n", m)
	}
	return res
}
