package main

import (
	"verif/checker/internal/core"
	"verif/checker/internal/rules"
)

// thorough runs the deeper tier; filled in later (mutant battery, second build configuration).
func thorough(p *core.Prog, pr *rules.Property, c *core.Ctx, verif, repo string, out *core.Outcome) map[string]interface{} {
	return map[string]interface{}{}
}
