#!/bin/sh
# validates MANIFEST.json and every evidence file against the schemas
python3-vt - <<'PY'
import json, jsonschema, glob, sys
ok = True
try:
    jsonschema.validate(json.load(open('/verif/MANIFEST.json')), json.load(open('/root/.vp/MANIFEST.schema.json'))); print('manifest ok')
except Exception as e:
    ok = False; print('MANIFEST INVALID', e)
sch = json.load(open('/root/.vp/EVIDENCE.schema.json'))
for f in sorted(glob.glob('/verif/evidence/C??.json')):
    try:
        jsonschema.validate(json.load(open(f)), sch)
    except Exception as e:
        ok = False; print('EVIDENCE INVALID', f, str(e)[:300])
print('evidence files checked:', len(glob.glob('/verif/evidence/C??.json')))
sys.exit(0 if ok else 1)
PY
# the unchanged tree must be decided as written (level 0): a rule that needs a normal form on today's tree is a rule bug
if /verif/bin/nettylint -property all -no-evidence 2>&1 | grep -q 'normal form'; then echo "CLEAN TREE NEEDS A NORMAL FORM"; /verif/bin/nettylint -property all -no-evidence 2>&1 | grep 'normal form' | cut -c1-160; exit 1; fi
echo "clean tree decided as written"
