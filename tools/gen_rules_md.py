#!/usr/bin/env python3
"""Generates /verif/RULES.md from the evidence files: the rules as implemented, per property."""
import json,glob
out=["# Rules as implemented (generated from evidence/*.json by tools/gen_rules_md.py)\n"]
for f in sorted(glob.glob('/verif/evidence/C??.json')):
    e=json.load(open(f)); c=e['coverage']
    out.append(f"## {e['property_id']}\n")
    out.append(c['explanation']+"\n")
    out.append("| rule | text | instances found | floor |\n|---|---|---|---|")
    for r in sorted(c['rules']):
        out.append(f"| {r} | {c['rules'][r]} | {c['instances_per_rule'].get(r,0)} | {c['floors'].get(r,0)} |")
    out.append(f"\nObligations on the current tree: {c['obligations']} ({c['discharged']} discharged); functions analysed: {len(c['functions_analysed'])}; known findings matched: {len(c['known_findings_matched'])}.\n")
open('/verif/RULES.md','w').write("\n".join(out))
print(len(out))
