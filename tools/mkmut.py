#!/usr/bin/env python3
"""mkmut.py NAME FILE OLD NEW [FILE OLD NEW ...]
Create /verif/mutants/NAME.patch: replace the unique substring OLD by NEW in /repo/FILE
(on a scratch copy), check that the variant still builds, and write a unified diff.
With --test also runs the unedited test suite on the variant (in a private net namespace)."""
import sys, os, subprocess, tempfile, shutil
args = sys.argv[1:]
test = False
if args and args[0] == '--test':
    test = True; args = args[1:]
name, rest = args[0], args[1:]
assert len(rest) % 3 == 0 and rest
tmp = tempfile.mkdtemp(prefix='mkmut.', dir='/tmp')
env = dict(os.environ, GOFLAGS='-mod=mod', GOPROXY='off', GOSUMDB='off', GOTOOLCHAIN='local')
env.pop('GOWORK', None)
try:
    subprocess.check_call(f'cd /repo && tar --exclude=.git -cf - . | (cd {tmp} && tar -xf -)', shell=True)
    subprocess.check_call(['git','init','-q'],cwd=tmp); subprocess.check_call('git add -A && git -c user.email=a@b -c user.name=x commit -qm base',shell=True,cwd=tmp)
    for i in range(0, len(rest), 3):
        f, old, new = rest[i:i+3]
        old = old.encode().decode('unicode_escape'); new = new.encode().decode('unicode_escape')
        p = os.path.join(tmp, f)
        s = open(p).read()
        if s.count(old) != 1:
            print(f'ERROR: {f}: OLD occurs {s.count(old)} times'); sys.exit(2)
        open(p, 'w').write(s.replace(old, new))
    r = subprocess.run(['go', 'build', './...'], cwd=tmp, env=env, capture_output=True, text=True)
    if r.returncode != 0:
        print('ERROR: variant does not build:\n' + r.stderr); sys.exit(3)
    r = subprocess.run(['go', 'vet', './...'], cwd=tmp, env=env, capture_output=True, text=True)
    if test:
        r = subprocess.run(['unshare','-rn','sh','-c','ip link set lo up; go test -vet=off -count=1 ./... 2>&1 | tail -15'], cwd=tmp, env=env, capture_output=True, text=True)
        if 'FAIL' in r.stdout or r.returncode != 0:
            print('ERROR: suite fails on variant:\n' + r.stdout); sys.exit(4)
        print('suite ok')
    d = subprocess.run(['git', 'diff'], cwd=tmp, capture_output=True, text=True).stdout
    os.makedirs('/verif/mutants', exist_ok=True)
    open(f'/verif/mutants/{name}.patch', 'w').write(d)
    print(f'wrote /verif/mutants/{name}.patch ({len(d.splitlines())} lines)')
finally:
    shutil.rmtree(tmp, ignore_errors=True)
