#!/bin/sh
# usage: catch_row.sh <patch>   prints one CATCHES.md table row for the variant (bad variant or ok-* refactor)
m="$1"
case "$m" in
  */seeded/*) b="seeded/$(basename $(dirname $m))"; origin=seed; prop=$(basename $(dirname $m) | cut -d- -f1);;
  *) b=$(basename $m .patch); prop=$(echo $b | cut -d- -f1)
     case "$b" in ok-*) origin=refactor;; *-b[0-9]*) origin="seed round 2";; *-c[0-9]*) origin="seed round 3";; *-d[0-9]) origin="seed round 4";; *-e[0-9]) origin="seed round 5";; *-f[0-9]) origin="seed round 6";; *-g[0-9]) origin="seed round 7";; *-h[0-9]) origin="seed round 8";; *seed*) origin="seed (ported)";; *revert*) origin="revert of fix";; *) origin=own;; esac;;
esac
if [ "$origin" != refactor ]; then
  # a bad variant: the full decision (normal forms included) of the property it was written for, and which other
  # properties report it on the program as written (their normal forms are not searched here: 20 searches per
  # variant would take hours for the whole corpus)
  own=$(/verif/tools/mutant.sh "$m" "$prop" 2>&1)
  if echo "$own" | grep -q 'LOAD-FAILURE\|PATCH-FAILED'; then echo "B| $b | $origin | $prop | (does not apply to current tree) | |"; exit 0; fi
  others=$(/verif/tools/mutant.sh "$m" all -inline 0 2>&1 | grep '^VIOLATION' | sed 's/VIOLATION property=\([A-Z0-9]*\).*/\1/' | grep -v "^$prop\$" | tr '\n' ' ')
  first=$(echo "$own" | grep -E "^\s+\[(violated|undecided)\] $prop/" | head -1 | sed 's/^ *//; s/|/\\|/g' | cut -c1-220)
  if echo "$own" | grep -q '^VIOLATION'; then by="$prop"; else by="**MISSED**"; fi
  [ -n "$others" ] && by="$by (as written also: $others)"
  echo "B| $b | $origin | $prop | $by | $first |"
  exit 0
fi
res=$(/verif/tools/mutant.sh "$m" all 2>&1)
if [ "$origin" = refactor ]; then
  if echo "$res" | grep -q 'LOAD-FAILURE\|PATCH-FAILED'; then echo "R| $b | (does not apply) |"; exit 0; fi
  nf=$(echo "$res" | grep -c 'discharged on .*normal form')
  if echo "$res" | grep -q '^VIOLATION'; then echo "R| $b | **FALSE ALARM** $(echo "$res" | grep '^VIOLATION' | tr '\n' ' ') |"
  elif [ "$nf" -gt 0 ]; then echo "R| $b | silent ($nf properties decided on an inlining normal form) |"
  else echo "R| $b | silent |"; fi
  exit 0
fi
if echo "$res" | grep -q 'LOAD-FAILURE\|PATCH-FAILED'; then echo "B| $b | $origin | $prop | (does not apply to current tree) | |"; exit 0; fi
by=$(echo "$res" | grep '^VIOLATION' | sed 's/VIOLATION property=\([A-Z0-9]*\).*/\1/' | tr '\n' ' ')
first=$(echo "$res" | grep -E "^\s+\[(violated|undecided)\] $prop/" | head -1 | sed 's/^ *//; s/|/\\|/g' | cut -c1-220)
[ -z "$by" ] && by="**MISSED**"
echo "B| $b | $origin | $prop | $by | $first |"
