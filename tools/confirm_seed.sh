#!/bin/sh
# usage: confirm_seed.sh <srcdir with patch.diff + demo> <name>   e.g. /tmp/seeded/C03/1 C03-1
# Confirms in a scratch git worktree of /repo (outside /repo and /verif) that the change
# (a) builds, (b) passes the unedited suite, (c) makes the demonstration fail, and that the
# demonstration passes without it. On success stores it as /verif/seeded/<name>/.
set -u
src="$1"; name="$2"
export GOFLAGS=-mod=mod GOPROXY=off GOSUMDB=off GOTOOLCHAIN=local; unset GOWORK
wt=$(mktemp -d /tmp/cs.XXXXXX); rmdir "$wt"
git -C /repo worktree add --detach "$wt" HEAD >/dev/null 2>&1 || { echo "$name: worktree failed"; exit 2; }
cleanup() { git -C /repo worktree remove --force "$wt" >/dev/null 2>&1; rm -rf "$wt"; }
trap cleanup EXIT INT TERM
demo="$src/demo_test.go"
[ -f "$demo" ] || { echo "$name: no demo_test.go"; exit 2; }
place=$(head -5 "$demo" | grep -o 'place in: *<repo>[^ ]*' | head -1 | sed 's/place in: *<repo>//; s/&lt;repo&gt;//')
[ -n "$place" ] || place=$(head -5 "$demo" | grep -o '&lt;repo&gt;[^ ]*' | head -1 | sed 's/&lt;repo&gt;//')
[ -n "$place" ] || place="/"
pkgdir="$wt$place"
run() { (cd "$wt" && unshare -rn sh -c 'ip link set lo up; exec "$@"' sh "$@"); }
# demonstrations of data races need the race detector (stated in their notes)
race=""; grep -qs -- '-race' "$src/notes.md" "$demo" && race="-race"
cp "$demo" "$pkgdir/zz_seed_demo_test.go"
clean_out=$(run go test $race -vet=off -count=1 "./${place#/}" 2>&1); clean_rc=$?
if ! (cd "$wt" && (git apply --whitespace=nowarn "$src/patch.diff" 2>/dev/null || git apply -3 --whitespace=nowarn "$src/patch.diff" 2>/dev/null || patch -p1 -s < "$src/patch.diff")); then echo "$name: PATCH DOES NOT APPLY to current /repo HEAD"; exit 3; fi
(cd "$wt" && go build ./... 2>&1) || { echo "$name: does not build"; exit 4; }
mut_out=$(run go test $race -vet=off -count=1 "./${place#/}" 2>&1); mut_rc=$?
rm -f "$pkgdir/zz_seed_demo_test.go"
suite_out=$(run go test -vet=off -count=1 ./... 2>&1); suite_rc=$?
echo "$name: demo-on-clean rc=$clean_rc, demo-on-mutant rc=$mut_rc, suite-on-mutant rc=$suite_rc"
if [ $clean_rc -eq 0 ] && [ $mut_rc -ne 0 ] && [ $suite_rc -eq 0 ]; then
  d=/verif/seeded/$name; mkdir -p "$d"
  (cd "$wt" && git diff HEAD) > "$d/patch.diff"
  cp "$demo" "$d/demo_test.go"; [ -f "$src/notes.md" ] && cp "$src/notes.md" "$d/notes.md"
  prop=$(echo "$name" | cut -d- -f1)
  python3 - "$d" "$prop" "$place" <<'PY'
import json,sys,subprocess
d,prop,place=sys.argv[1:4]
notes=open(d+'/notes.md').read() if __import__('os').path.exists(d+'/notes.md') else ''
head=subprocess.run(['git','-C','/repo','rev-parse','--short','HEAD'],capture_output=True,text=True).stdout.strip()
json.dump({"property":prop,"breaks":notes.split('\n\n')[0][:600],"needs":"see notes.md (specific interleaving / input / configuration described there)",
 "demo":"demo_test.go, placed in <repo>"+place,"confirmed_against_repo_commit":head,
 "ran":["go build ./... (variant builds)","go test -vet=off -count=1 ./... on the variant in a private network namespace: all packages ok","demo on unchanged tree: pass","demo on variant: FAIL"],
 "origin":"independent sub-agent given only the property text and its own scratch worktree"},open(d+'/meta.json','w'),indent=1)
PY
  echo "$name: CONFIRMED -> $d"
else
  echo "$name: NOT CONFIRMED"; echo "$mut_out" | tail -5; echo "$suite_out" | grep -v '^ok\|no test files' | tail -5
fi
