#!/usr/bin/env python3
"""Regenerates /verif/MANIFEST.json from the table below and the set of properties the checker implements."""
import json, subprocess
props = [json.loads(l) for l in open('/verif/properties.jsonl')]
impl = subprocess.run(['/verif/bin/nettylint', '-list'], capture_output=True, text=True).stdout.split()
BASE = "cd /verif && ./bin/nettylint"
levels = json.load(open('/verif/tools/levels.json'))
baseline = json.load(open('/root/.vp/BASELINE.json'))['cmd']
checks, na = [], []
for p in props:
    i = p['id']
    if i in impl and i in levels and not levels[i].get('not_applicable'):
        L = levels[i]
        checks.append({
            "property_id": i,
            "quick_cmd": f"{BASE} -property {i} -tier quick",
            "thorough_cmd": f"{BASE} -property {i} -tier thorough",
            "evidence_file": f"/verif/evidence/{i}.json",
            "replay_cmd_template": BASE + " -replay {path}",
            "engine": "nettylint",
            "level_claimed": {"category": "other", "text": L['text'], "design_ref": f"DESIGN.md section 4, {i}"},
            "level_note": L['note'],
            "technique": L['technique'],
        })
    else:
        reason = levels.get(i, {}).get('not_applicable') or "check not implemented yet in this revision of /verif (see DESIGN.md section 4 for the planned structural clause)"
        na.append({"property_id": i, "reason": reason})
m = {
 "version": 1,
 "setup_cmd": "cd /verif/checker && GOFLAGS=-mod=vendor GOPROXY=off GOSUMDB=off GOTOOLCHAIN=local GOWORK=off go build -o /verif/bin/nettylint ./cmd/nettylint && /verif/bin/nettylint -warm",
 "hooks": {"guard": "verif", "enable": "none needed: static analysis reads /repo's working tree as is; no hooks are compiled into go-netty", "baseline_off_cmd": baseline, "source_commits": [], "add_only": True},
 "engines": [{"name": "nettylint", "path": "/verif/checker", "serves_properties": [c['property_id'] for c in checks],
   "kind_free_text": "repository-specific static analyser over go/packages + go/types + go/ssa (x/tools v0.29.0, vendored): role resolution, per-function path/dominance queries, may/must call summaries, value-flow, field-access census; no execution of go-netty, no solver"}],
 "checks": checks,
 "not_applicable": na,
 "notes": "All claims are at level 'other': each check decides named structural clauses that are necessary conditions of its property (see evidence.coverage.explanation for the decided / not-decided split) on every CFG path of the functions that play a role; none decides the behavioural property as a whole. known_findings.json lists genuine defects of the pinned tree that are recorded rather than repaired.",
}
json.dump(m, open('/verif/MANIFEST.json', 'w'), indent=1)
print(len(checks), 'checks;', len(na), 'not applicable')
