#!/bin/sh
# usage: battery_par.sh [glob-prefix]   like battery.sh but runs the variants in parallel (12 at a time); output sorted
pfx="${1:-}"
ls /verif/mutants/${pfx}*.patch | xargs -P 12 -I{} sh -c 'b=$(basename {} .patch); /verif/tools/battery.sh "$b" 2>&1 | head -3' | sort
