#!/bin/sh
# usage: mutant.sh <patch.diff> <property|all> [extra nettylint args]
# Copies /repo's working tree to a scratch dir outside /repo and /verif, applies the patch,
# runs the static checks on the copy (never executes it), prints the result, removes the copy.
set -u
patch=$(readlink -f "$1"); prop="$2"; shift 2
REPO="${REPO:-/repo}"
tmp=$(mktemp -d /tmp/nl-variant.XXXXXX)
trap 'rm -rf "$tmp"' EXIT INT TERM
(cd "$REPO" && tar --exclude=.git -cf - .) | (cd "$tmp" && tar -xf -)
if ! (cd "$tmp" && git apply --whitespace=nowarn "$patch" 2>/dev/null || patch -p1 -s < "$patch"); then
  echo "PATCH-FAILED $patch"; exit 3
fi
/verif/bin/nettylint -repo "$tmp" -property "$prop" -no-evidence "$@"
