#!/bin/sh
# usage: battery.sh [glob-prefix]   runs every /verif/mutants/<prefix>*.patch against the property in its name
# prints CAUGHT/MISSED per mutant; ok-*.patch must stay silent on all properties.
pfx="${1:-}"
for m in /verif/mutants/${pfx}*.patch; do
  b=$(basename "$m" .patch)
  case "$b" in
    ok-*) prop=all ;;
    *) prop=$(echo "$b" | cut -d- -f1) ;;
  esac
  out=$(/verif/tools/mutant.sh "$m" "$prop" 2>&1)
  if echo "$out" | grep -q 'LOAD-FAILURE\|PATCH-FAILED'; then
    echo "BROKEN-MUTANT $b"; echo "$out" | grep -E 'LOAD-FAILURE|PATCH-FAILED' | head -2
  elif echo "$out" | grep -q '^VIOLATION'; then
    what=$(echo "$out" | grep -E '^\s+\[(violated|undecided)\]' | head -2 | cut -c1-200)
    case "$b" in ok-*) echo "FALSE-ALARM $b"; echo "$what";; *) echo "CAUGHT $b"; [ -n "${VERBOSE:-}" ] && echo "$what";; esac
  else
    case "$b" in ok-*) echo "SILENT-OK $b";; *) echo "MISSED $b"; echo "$out" | grep -E 'PATCH-FAILED|LOAD' ;; esac
  fi
done
